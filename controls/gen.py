#!/usr/bin/env python3
"""Generates controls/witnesses.json. Each witness is a one-instance breaking edit (exact text
replacement, line endings handled by the runner) plus the obligation keys that must fire."""
import json, os
W = []
def w(id, props, expect, why, *edits, suite=""):
    W.append({"id": id, "properties": props, "expect": expect if isinstance(expect, list) else [expect], "why": why,
              "edits": [{"file": f, "old": o, "new": n} for (f, o, n) in edits], "suite": suite})

# ---- inverses of the fix: commits -------------------------------------------------------------
w("fx1-id-before-latch", ["C08", "C15"], "L5.id/draw/(*column.Txn).rangeWrite$1", "commit id drawn before the latch (inverse of fix 5d3fd7b)",
  ("txn_lock.go", "\t\tlock.Lock(uint(chunk))\n\n\t\t// Draw the commit ID under the latch, so that for any chunk the IDs\n\t\t// follow the order in which the commits are applied and logged.\n\t\tcommitID := commit.Next()\n",
   "\t\tcommitID := commit.Next()\n\t\tlock.Lock(uint(chunk))\n"), suite="survives")
w("fx2-clone-drops-id", ["C05", "C06", "C15"], "C05.copy/(*commit.Commit).Clone/ID", "Commit.Clone drops ID",
  ("commit/commit.go", "\tclone.ID = c.ID\n", ""), suite="survives")
w("fx3-enum-snapshot-relative", ["C07", "C03"], "C07.abs/(*column.columnEnum).Snapshot$1", "enum snapshot writes relative offsets",
  ("column_strings.go", "dst.PutString(commit.Put, chunk.Min()+idx, c.readAt(locs[idx]))", "dst.PutString(commit.Put, idx, c.readAt(locs[idx]))"), suite="survives")
w("fx3-enum-snapshot-relative-c01", ["C01"], "C01.units/(*column.columnEnum).Snapshot$1", "enum snapshot writes relative offsets",
  ("column_strings.go", "dst.PutString(commit.Put, chunk.Min()+idx, c.readAt(locs[idx]))", "dst.PutString(commit.Put, idx, c.readAt(locs[idx]))"), suite="survives")
w("fx4-less-key-only", ["C16"], "C16.cmp/column.newSortIndex/less", "ordering ignores the offset",
  ("column_index.go", "\t\tif a.Key != b.Key {\n\t\t\treturn a.Key < b.Key\n\t\t}\n\t\treturn a.Value < b.Value // rows with equal keys are distinct items\n", "\t\treturn a.Key < b.Key\n"), suite="survives")
w("fx5-no-rekey-delete", ["C12"], "C12.arms/column.columnKey/Put/rekey", "old key stays in the table",
  ("column_strings.go", "\t\t\tif fill.Contains(uint32(offset)) && data[offset] != value {\n\t\t\t\tdelete(c.seek, data[offset])\n\t\t\t}\n", ""), suite="survives")
w("fx6-early-return-skips-recorderclose", ["C14"], "C14.pair/(*column.Collection).Snapshot/recorderClose", "error exit skips recorderClose",
  ("snapshot.go", "\t_, err = c.writeState(s2.NewWriter(dst))\n", "\tif _, err = c.writeState(s2.NewWriter(dst)); err != nil {\n\t\treturn err\n\t}\n"), suite="survives")
w("fx6-no-close", ["C14"], "C14.pair/(*column.Collection).Snapshot/close", "temp log never closed",
  ("snapshot.go", "\tdefer recorder.Close()\n", ""), suite="survives")
w("fx6-cas-fail-leaks", ["C14"], "C14.pair/(*column.Collection).recorderOpen/cas-fail", "lost race leaks the temp file",
  ("snapshot.go", "\t\t\tlog.Close()\n\t\t\tos.Remove(log.Name())\n", ""), suite="survives")
w("fx7-grow-by-count", ["C01"], "C01.grow/(*column.Collection).CreateColumn/extent", "new column grown by count only",
  ("collection.go", "\tc.lock.RLock()\n\tif size := uint32(len(c.fill)) << 6; size > capacity {\n\t\tcapacity = size\n\t}\n\tc.lock.RUnlock()\n", ""), suite="survives")
w("fx8-rollback-keeps-reservations", ["C02", "C11"], "C02.release/(*column.Txn).rollback/markers", "rollback does not release inserted offsets",
  ("txn.go", "\tif markers, ok := txn.findMarkers(); ok {\n\t\tfor txn.reader.Seek(markers); txn.reader.Next(); {\n\t\t\tif txn.reader.Type == commit.Insert {\n\t\t\t\ttxn.owner.fill.Remove(txn.reader.Index())\n\t\t\t}\n\t\t}\n\t}\n", ""), suite="survives")
w("fx8-marker-before-callback", ["C02", "C11"], "C02.release/(*column.Txn).insert/marker", "insert marker written before the callback ran",
  ("txn.go", "\tidx := txn.owner.next()\n\n\t// If there was", "\tidx := txn.owner.next()\n\ttxn.bufferFor(rowColumn).PutOperation(commit.Insert, idx)\n\n\t// If there was"),
  ("txn.go", "\t// The row was inserted, add the insertion marker\n\ttxn.bufferFor(rowColumn).PutOperation(commit.Insert, idx)\n", ""), suite="survives")
w("fx9-sum-raw-selection", ["C04"], "C04.presence/(column.rdNumber[T]).Sum", "Sum folds under the raw selection",
  ("column_numeric.go", "\t\t\tsum += bitmap.Sum(data, present(index, fill))\n\t\t}\n\t})\n\treturn sum\n", "\t\t\t_ = fill\n\t\t\tsum += bitmap.Sum(data, index)\n\t\t}\n\t})\n\treturn sum\n"), suite="survives")
w("fx10-merge-aliases-buffer", ["C01"], "C01.alias/column.columnString", "merged string aliases the pooled buffer",
  ("column_strings.go", "data[offset] = strings.Clone(r.SwapString(c.Merge(data[offset], r.String())))", "data[offset] = r.SwapString(c.Merge(data[offset], r.String()))"),
  ("column_strings.go", "\t\"math\"\n\t\"strings\"\n\t\"sync\"\n", "\t\"math\"\n\t\"sync\"\n"), suite="survives")
w("fx11-markers-first", ["C11", "C03", "C12", "C16"], "C11.order/(*column.Txn).commit$2", "markers applied before updates",
  ("txn.go", "\t\tupdated := txn.commitUpdates(chunk)\n\t\tif changedRows {\n\t\t\ttxn.commitMarkers(chunk, fill, markers)\n\t\t}\n", "\t\tif changedRows {\n\t\t\ttxn.commitMarkers(chunk, fill, markers)\n\t\t}\n\t\tupdated := txn.commitUpdates(chunk)\n"), suite="survives")

# ---- arm effects --------------------------------------------------------------------------------
w("index-delete-arm-dropped", ["C03", "C11"], "C03.arms/column.columnIndex/Delete/must-presence-clear", "index not cleared on row delete",
  ("column_index.go", "\t\tcase commit.Delete:\n\t\t\tc.fill.Remove(uint32(r.Offset))\n", ""), suite="survives")
w("index-guard-swapped", ["C03"], "C03.arms/column.columnIndex/Put/guard", "bit set when the predicate is false",
  ("column_index.go", "\t\t\tif c.rule(r) {\n\t\t\t\tc.fill.Set(uint32(r.Offset))\n\t\t\t} else {\n\t\t\t\tc.fill.Remove(uint32(r.Offset))\n\t\t\t}", "\t\t\tif c.rule(r) {\n\t\t\t\tc.fill.Remove(uint32(r.Offset))\n\t\t\t} else {\n\t\t\t\tc.fill.Set(uint32(r.Offset))\n\t\t\t}"))
w("uint16-merge-no-presence", ["C01", "C09"], "C01.arms/numeric/makeUint16s/Merge/must-presence-set", "merge into an absent value stays absent",
  ("column_numbers.go", "\t\t\t\tcase commit.Merge:\n\t\t\t\t\tfill[offset>>6] |= 1 << (offset & 0x3f)\n\t\t\t\t\tdata[offset] = r.SwapUint16(", "\t\t\t\tcase commit.Merge:\n\t\t\t\t\tdata[offset] = r.SwapUint16("))
w("float32-put-wrong-row", ["C01"], "C01.arms/numeric/makeFloat32s/same-row", "value stored next to the row whose bit is set",
  ("column_numbers.go", "\t\t\t\t\tdata[offset] = r.Float32()", "\t\t\t\t\tdata[offset+1] = r.Float32()"))
w("int32-delete-arm-dropped", ["C01", "C11"], "C01.arms/numeric/makeInt32s/Delete/must-presence-clear", "delete leaves the presence bit",
  ("column_numbers.go", "\t\t\t\t\tdata[offset] = r.SwapInt32(opts.Merge(data[offset], r.Int32()))\n\t\t\t\tcase commit.Delete:\n\t\t\t\t\tfill.Remove(offset)\n", "\t\t\t\t\tdata[offset] = r.SwapInt32(opts.Merge(data[offset], r.Int32()))\n"), suite="killed by TestColumns")
w("string-merge-not-swapped", ["C01", "C03", "C06", "C09", "C19"], "C01.arms/column.columnString/Merge/must-swap", "merge delta not replaced by the final value in the buffer",
  ("column_strings.go", "data[offset] = strings.Clone(r.SwapString(c.Merge(data[offset], r.String())))", "data[offset] = strings.Clone(c.Merge(data[offset], r.String()))"))
w("int64-merge-old-from-other-row", ["C09", "C01"], "C01.arms/numeric/makeInt64s/Merge/rmw", "merge reads the old value from another element",
  ("column_numbers.go", "data[offset] = r.SwapInt64(opts.Merge(data[offset], r.Int64()))", "data[offset] = r.SwapInt64(opts.Merge(data[0], r.Int64()))"))
w("trigger-fires-on-merge", ["C19"], "C19.arms/column.columnTrigger/Merge/never-a callback", "trigger sees merge deltas",
  ("column_index.go", "if r.Type == commit.Put || r.Type == commit.Delete {", "if r.Type == commit.Put || r.Type == commit.Delete || r.Type == commit.Merge {"))
w("trigger-misses-delete", ["C19"], "C19.arms/column.columnTrigger/Delete/must-callback", "trigger not called for deletes",
  ("column_index.go", "if r.Type == commit.Put || r.Type == commit.Delete {", "if r.Type == commit.Put {"), suite="killed by TestTriggerCreate")
w("sort-delete-arm-empty", ["C16"], "C16.arms/column.columnSortIndex/Delete/must-tree-delete", "deleted rows stay in the tree",
  ("column_index.go", "\t\t\tdelKey, _ := c.backMap[r.Index()]\n\t\t\tc.btree.Delete(sortIndexItem{\n\t\t\t\tKey:   delKey,\n\t\t\t\tValue: r.Index(),\n\t\t\t})\n", ""), suite="killed by TestSortIndex")
w("key-delete-keeps-table", ["C12"], "C12.arms/column.columnKey/Delete/must-table-delete", "deleted key still resolves",
  ("column_strings.go", "\t\t\tc.lock.Lock()\n\t\t\tdelete(c.seek, string(data[offset]))\n\t\t\tc.lock.Unlock()\n", ""), suite="killed by TestDeleteKey")
w("markers-delete-keeps-fill", ["C11", "C07"], "C11.markers/commitMarkers/Delete/must-fill-clear", "row delete leaves the fill bit",
  ("txn.go", "\t\t\tcase commit.Delete:\n\t\t\t\ttxn.owner.fill.Remove(r.Index())\n", ""), suite="killed by 6 tests")

# ---- units --------------------------------------------------------------------------------------
w("numeric-snapshot-relative", ["C07", "C03"], "C07.abs/(*column.numericColumn[T]).Snapshot$1", "numeric snapshot writes relative offsets",
  ("column_numeric.go", "c.write(dst, chunk.Min()+x, data[x])", "c.write(dst, x, data[x])"), suite="survives")
w("string-apply-absolute-index", ["C01"], "C01.units/(*column.columnString).Apply", "absolute offset indexes a per-block array",
  ("column_strings.go", "\t// Update the values of the column, for this one we can only process stores\n\tfor r.Next() {\n\t\toffset := r.Offset - int32(from)", "\t// Update the values of the column, for this one we can only process stores\n\tfor r.Next() {\n\t\t_ = from\n\t\toffset := r.Offset"))
w("writestate-relative-inserts", ["C07"], "C07.abs/(*column.Collection).writeState$1$1$1", "insert markers written with relative offsets",
  ("snapshot.go", "buffer.PutOperation(commit.Insert, offset+idx)", "buffer.PutOperation(commit.Insert, idx+offset-offset)"))
w("writestate-relative-inserts-c08", ["C08"], "C08.units/(*column.Collection).writeState$1$1$1", "insert markers written with relative offsets",
  ("snapshot.go", "buffer.PutOperation(commit.Insert, offset+idx)", "buffer.PutOperation(commit.Insert, idx+offset-offset)"))
w("range-relative-cursor", ["C04"], "C04.units/(*column.Txn).Range$1$1", "cursor set to the block-relative offset",
  ("txn.go", "\t\t\ttxn.cursor = offset + x\n\t\t\tfn(offset + x)", "\t\t\t_ = offset\n\t\t\ttxn.cursor = x\n\t\t\tfn(x)"))
w("withunion-scratch-too-small", ["C04"], "U.defs/(*column.Txn).WithUnion/scratch", "scratch bitmap shorter than a block",
  ("txn.go", "tmpMap := make(bitmap.Bitmap, 256)", "tmpMap := make(bitmap.Bitmap, 128)"))

# ---- lockset ------------------------------------------------------------------------------------
w("queryat-without-latch", ["C10", "C18"], "L2/(*column.Txn).QueryAt", "point read callback without the latch",
  ("txn_lock.go", "\tlock.RLock(uint(chunk))\n\terr = f(Row{txn})\n\tlock.RUnlock(uint(chunk))\n", "\t_, _ = lock, chunk\n\terr = f(Row{txn})\n"), suite="survives")
w("rangeread-wrong-shard", ["C10", "C18"], "C10.shard/(*column.Txn).rangeRead", "latch taken on another block than the one read",
  ("txn_lock.go", "\t\tlock.RLock(uint(chunk))\n\t\tf(chunk, chunk.OfBitmap(txn.index))\n\t\tlock.RUnlock(uint(chunk))", "\t\tlock.RLock(uint(limit))\n\t\tf(chunk, chunk.OfBitmap(txn.index))\n\t\tlock.RUnlock(uint(limit))"))
w("commit-with-read-latch", ["C10", "C18", "C09"], "L1/(*column.Txn).commitUpdates$1", "commit applies under the shared latch",
  ("txn_lock.go", "\t\tlock.Lock(uint(chunk))\n", "\t\tlock.RLock(uint(chunk))\n"),
  ("txn_lock.go", "\t\tfn(commitID, chunk, fill)\n\t\tlock.Unlock(uint(chunk))", "\t\tfn(commitID, chunk, fill)\n\t\tlock.RUnlock(uint(chunk))"))
w("callback-after-unlock", ["C06", "C08", "C15"], "L5.emit/logger/(*column.Txn).commit$2", "block applied and emitted after the latch was released",
  ("txn_lock.go", "\t\tfn(commitID, chunk, fill)\n\t\tlock.Unlock(uint(chunk))", "\t\tlock.Unlock(uint(chunk))\n\t\tfn(commitID, chunk, fill)"))
w("readchunk-without-latch", ["C08"], "C08.read/(*column.Collection).readChunk/callback", "snapshot reads a block without its latch",
  ("snapshot.go", "\tc.slock.RLock(uint(chunk))\n\tc.lock.Lock()\n\tdefer c.slock.RUnlock(uint(chunk))\n\tdefer c.lock.Unlock()", "\tc.lock.Lock()\n\tdefer c.lock.Unlock()"))
w("next-without-mutex", ["C11", "C18"], "L4.fill/(*column.Collection).next", "offset reserved without the collection mutex",
  ("collection.go", "\tc.lock.Lock()\n\tidx := c.findFreeIndex(atomic.AddUint64(&c.count, 1))\n\tc.fill.Set(idx)\n\tc.lock.Unlock()", "\tidx := c.findFreeIndex(atomic.AddUint64(&c.count, 1))\n\tc.fill.Set(idx)"))
w("key-table-without-lock", ["C12", "C18"], "L6/(*column.columnKey).OffsetOf/seek", "key lookup without the key lock",
  ("column_strings.go", "\tc.lock.RLock()\n\tidx, ok := c.seek[v]\n\tc.lock.RUnlock()", "\tidx, ok := c.seek[v]"))
w("grow-without-locks", ["C18"], "L7.write/column.columnBool.data", "column growth without an exclusive lock",
  ("txn.go", "func (txn *Txn) commitCapacity(last commit.Chunk) {\n\ttxn.owner.lock.Lock()\n\tdefer txn.owner.lock.Unlock()\n", "func (txn *Txn) commitCapacity(last commit.Chunk) {\n"),
  ("column.go", "func (c *column) Grow(idx uint32) {\n\tc.lock.Lock()\n\tdefer c.lock.Unlock()\n", "func (c *column) Grow(idx uint32) {\n"))
w("latch-under-collection-mutex", ["C18"], "L8/Collection.lock→latch", "lock order inverted in Ascend",
  ("txn.go", "\t\t\t// chunk := commit.ChunkAt(item.Value)\n\t\t\t// lock.RLock(uint(chunk))\n\t\t\ttxn.cursor = item.Value\n\t\t\tfn(item.Value)\n\t\t\t// lock.RUnlock(uint(chunk))", "\t\t\tchunk := commit.ChunkAt(item.Value)\n\t\t\ttxn.owner.slock.RLock(uint(chunk))\n\t\t\ttxn.cursor = item.Value\n\t\t\tfn(item.Value)\n\t\t\ttxn.owner.slock.RUnlock(uint(chunk))"))
w("unbalanced-early-return", ["C10", "C18"], "L0/(*column.Txn).QueryAt", "latch not released on one exit",
  ("txn_lock.go", "\terr = f(Row{txn})\n\tlock.RUnlock(uint(chunk))\n\treturn err", "\tif err = f(Row{txn}); err != nil {\n\t\treturn err\n\t}\n\tlock.RUnlock(uint(chunk))\n\treturn err"))

# ---- transaction paths --------------------------------------------------------------------------
w("query-commits-on-error", ["C02"], "C02.query/error-edge", "failed transaction body is committed",
  ("collection.go", "\tif err := fn(txn); err != nil {\n\t\ttxn.rollback()", "\tif err := fn(txn); err != nil {\n\t\ttxn.commit()"))
w("commit-without-reset", ["C02"], "C02.query/(*column.Txn).commit/reset", "buffers leak into the next user of the pooled transaction",
  ("txn.go", "func (txn *Txn) commit() {\n\tdefer txn.reset()\n", "func (txn *Txn) commit() {\n"))
w("emit-unconditionally", ["C15"], "C15.once/(*column.Txn).commit$2", "commits emitted for blocks where nothing changed",
  ("txn.go", "\t\tif !changedRows && !updated {\n\t\t\treturn\n\t\t}\n", "\t\t_ = updated\n"))
w("emit-id-zero", ["C06", "C15"], "C06.emitfields/logger/ID", "logger receives id 0",
  ("txn.go", "\t\t\ttxn.logger.Append(commit.Commit{\n\t\t\t\tID:      commitID,", "\t\t\ttxn.logger.Append(commit.Commit{\n\t\t\t\tID:      0,"))
w("markers-not-applied-to-columns", ["C03", "C11", "C19"], "C03.rowdelete/(*column.Txn).commitMarkers/apply-all", "row deletes do not reach the columns",
  ("txn.go", "\ttxn.reader.Range(buffer, chunk, func(r *commit.Reader) {\n\t\ttxn.owner.cols.Range(func(column *column) {\n\t\t\tcolumn.Apply(chunk, r)\n\t\t})\n\t})\n", ""))
w("createindex-not-registered", ["C03"], "C03.register/(*column.Collection).CreateIndex", "index not registered under its own name",
  ("collection.go", "\tindex.Grow(uint32(c.opts.Capacity))\n\tc.cols.Store(indexName, index)\n", "\tindex.Grow(uint32(c.opts.Capacity))\n"))
w("backfill-skips-block-0", ["C03"], "C03.backfill/(*column.Collection).CreateIndex", "back-fill starts at block 1",
  ("collection.go", "\tfor chunk := commit.Chunk(0); int(chunk) < chunks; chunk++ {\n\t\tif column.Snapshot(chunk, buffer) {\n\t\t\treader.Seek(buffer)\n\t\t\tindex.Apply(chunk, reader)\n\t\t}\n\t}\n\n\treturn nil\n}\n\n// CreateSortIndex", "\tfor chunk := commit.Chunk(1); int(chunk) < chunks; chunk++ {\n\t\tif column.Snapshot(chunk, buffer) {\n\t\t\treader.Seek(buffer)\n\t\t\tindex.Apply(chunk, reader)\n\t\t}\n\t}\n\n\treturn nil\n}\n\n// CreateSortIndex"))
w("computed-pass-skipped", ["C03", "C19", "C01"], "C03.twopass/computed-pass", "computed columns only see the first pass",
  ("txn.go", "\t\t\t\tfor _, v := range columns[1:] {", "\t\t\t\tfor _, v := range columns[2:] {"))

# ---- read side ----------------------------------------------------------------------------------
w("with-uses-or", ["C04"], "C04.ops/(*column.Txn).With/op", "With joins instead of intersecting",
  ("txn.go", "\t\t\ttxn.rangeReadPair(idx, func(dst, src bitmap.Bitmap) {\n\t\t\t\tdst.And(src)\n\t\t\t})\n\t\t} else {\n\t\t\ttxn.index.Clear()", "\t\t\ttxn.rangeReadPair(idx, func(dst, src bitmap.Bitmap) {\n\t\t\t\tdst.Or(src)\n\t\t\t})\n\t\t} else {\n\t\t\ttxn.index.Clear()"))
w("filter-without-presence", ["C04"], "C04.presence/column.filterNumbers", "predicate evaluated on rows without a value",
  ("column_numeric.go", "\t\tindex.And(fill)\n\t\tindex.Filter(func(idx uint32) bool {\n\t\t\treturn predicate(C(data[idx]))", "\t\t_ = fill\n\t\tindex.Filter(func(idx uint32) bool {\n\t\t\treturn predicate(C(data[idx]))"), suite="survives")
w("cursor-after-callback", ["C04", "C16"], "C04.cursor/(*column.Txn).Ascend", "callback runs before the cursor is positioned",
  ("txn.go", "\t\t\ttxn.cursor = item.Value\n\t\t\tfn(item.Value)", "\t\t\tfn(item.Value)\n\t\t\ttxn.cursor = item.Value"))
w("load-without-presence", ["C01"], "C01.guard/(*column.numericColumn[T]).load", "absent values read back as stale data",
  ("column_numeric.go", "if int(chunk) < len(c.chunks) && c.chunks[chunk].fill.Contains(index) {\n\t\tv, ok = c.chunks[chunk].data[index], true", "if int(chunk) < len(c.chunks) {\n\t\tv, ok = c.chunks[chunk].data[index], true"), suite="killed by TestColumns")
w("ascend-stops-early", ["C16"], "C16.scan/(*column.Txn).Ascend/selection", "scan stops at the first row outside the selection",
  ("txn.go", "\t\t\t// lock.RUnlock(uint(chunk))\n\t\t}\n\t\treturn true", "\t\t\t// lock.RUnlock(uint(chunk))\n\t\t\treturn true\n\t\t}\n\t\treturn false"))
w("expiresat-without-zero-test", ["C17"], "C17.guard/(column.rwTTL).ExpiresAt", "rows without a deadline look expired",
  ("column_expire.go", "func (s rwTTL) ExpiresAt() (time.Time, bool) {\n\tif expireAt, ok := s.rw.Get(); ok && expireAt != 0 {", "func (s rwTTL) ExpiresAt() (time.Time, bool) {\n\tif expireAt, ok := s.rw.Get(); ok {"), suite="survives")
w("vacuum-without-after", ["C17"], "C17.guard/(*column.Collection).vacuum/guard", "cleanup deletes rows whose deadline is in the future",
  ("column_expire.go", "if expiresAt, ok := ttl.ExpiresAt(); ok && now.After(expiresAt) {", "if expiresAt, ok := ttl.ExpiresAt(); ok && !now.Before(expiresAt.Add(-time.Hour)) {"))
w("ttl-extend-as-set", ["C17", "C09"], "C09.queue/(column.rwInt64).Merge", "merge implemented as Set(Get()+delta)",
  ("column_numbers.go", "func (s rwInt64) Merge(delta int64) {\n\ts.writer.PutInt64(commit.Merge, s.txn.cursor, delta)", "func (s rwInt64) Merge(delta int64) {\n\tv, _ := s.Get()\n\ts.writer.PutInt64(commit.Put, s.txn.cursor, v+delta)"), suite="survives")

# ---- keys ---------------------------------------------------------------------------------------
w("insertkey-ignores-existing", ["C12"], "C12.paths/(*column.Txn).InsertKey", "InsertKey creates a second row for an existing key",
  ("txn.go", "\tif idx, ok := txn.owner.pk.OffsetOf(key); ok {\n\t\treturn fmt.Errorf(\"column: key '%s' already exists at offset %d\", key, idx)\n\t}\n", ""))
w("upsert-updates-wrong-row", ["C12"], "C12.paths/(*column.Txn).UpsertKey", "upsert updates offset 0 instead of the found row",
  ("txn.go", "\tif idx, ok := txn.owner.pk.OffsetOf(key); ok {\n\t\treturn txn.QueryAt(idx, fn)\n\t}\n\n\t// If not found, insert at a new index\n\tidx, err := txn.insert(fn, 0)\n\ttxn.bufferFor(txn.owner.pk.name).PutString(commit.Put, idx, key)\n\treturn err\n}\n\n// QueryKey", "\tif _, ok := txn.owner.pk.OffsetOf(key); ok {\n\t\treturn txn.QueryAt(0, fn)\n\t}\n\n\t// If not found, insert at a new index\n\tidx, err := txn.insert(fn, 0)\n\ttxn.bufferFor(txn.owner.pk.name).PutString(commit.Put, idx, key)\n\treturn err\n}\n\n// QueryKey"))

# ---- snapshot / restore / codec -----------------------------------------------------------------
w("restore-guard-reversed", ["C08", "C13"], "C08.replay/(*column.Collection).Restore/guard", "restore replays the commits the state already contains",
  ("snapshot.go", "if commit.ID > lastCommit {", "if commit.ID < lastCommit {"))
w("readstate-drops-error", ["C13"], "C13.err/(*column.Collection).readState$1$1", "a short read of the commit id is ignored",
  ("snapshot.go", "\t\t\tif commits[commit.Chunk(chunk)], err = r.ReadUvarint(); err != nil {\n\t\t\t\treturn err\n\t\t\t}\n", "\t\t\tcommits[commit.Chunk(chunk)], _ = r.ReadUvarint()\n"))
w("log-range-applies-failed-decode", ["C13"], "C13.whole/(*commit.Log).Range/callback", "partially decoded commit handed to the callback",
  ("commit/log.go", "\t\tcase err != nil:\n\t\t\treturn err\n\t\t}\n", "\t\t}\n"))
w("count-includes-indexes", ["C07"], "C07.count/predicate", "announced column count includes indexes that are not written",
  ("collection.go", "\t\tif !v.cols[0].IsIndex() {\n\t\t\tcount++\n\t\t}", "\t\tif v.cols[0] != nil {\n\t\t\tcount++\n\t\t}"))
w("writestate-drops-error", ["C14"], "C14.err/(*column.Collection).writeState$1$1", "write error of a block's marker buffer ignored",
  ("snapshot.go", "\t\t\tif err := writer.WriteSelf(buffer); err != nil {\n\t\t\t\treturn err\n\t\t\t}\n", "\t\t\twriter.WriteSelf(buffer)\n"))
w("varint-stage4-shift", ["C05"], "C05.varint/(*commit.Reader).readOffset", "four-byte deltas decode wrongly",
  ("commit/reader.go", "r.Offset += int32(x | (b << 21))", "r.Offset += int32(x | (b << 20))"), suite="killed by TestRandom")
w("writer-next-arm-without-flag", ["C05"], "C05.flags/(*commit.Buffer).writeUint32", "delta==1 arm forgets the next-flag",
  ("commit/buffer.go", "\t\t\tbyte(op)|size4|isNext,", "\t\t\tbyte(op)|size4,"))
w("putbytes-next-arm-writes-offset", ["C05"], "C05.flags/(*commit.Buffer).PutBytes", "delta==1 arm of PutBytes also writes an offset",
  ("commit/buffer.go", "\t\t\tbyte(op)|size2|isString|isNext,\n\t\t\tbyte(length>>8), byte(length),\n\t\t)\n\t\tb.buffer = append(b.buffer, value...)\n", "\t\t\tbyte(op)|size2|isString|isNext,\n\t\t\tbyte(length>>8), byte(length),\n\t\t)\n\t\tb.buffer = append(b.buffer, value...)\n\t\tb.writeOffset(uint32(delta))\n"))
w("buffer-clone-shares-bytes", ["C05", "C06"], "C05.copy/(*commit.Buffer).Clone/buffer", "clone shares the byte slice with the pooled original",
  ("commit/buffer.go", "\tbuffer := make([]byte, len(b.buffer))\n\tcopy(buffer, b.buffer)\n", "\tbuffer := b.buffer\n"))
w("reset-keeps-last", ["C05"], "C05.copy/(*commit.Buffer).Reset/last", "pooled buffer keeps the previous user's last offset",
  ("commit/buffer.go", "func (b *Buffer) Reset(column string) {\n\tb.last = 0\n", "func (b *Buffer) Reset(column string) {\n"))
w("channel-sends-original", ["C06"], "C06.clone/(commit.Channel).Append", "channel consumers read pooled buffers",
  ("commit/log.go", "\tw <- commit.Clone()", "\tw <- commit"), suite="killed by TestReplica")
w("replay-marks-block-0", ["C06"], "C06.replay/(*column.Collection).Replay/dirty", "replay applies to block 0 only",
  ("snapshot.go", "\t\ttxn.dirty.Set(uint32(change.Chunk))\n\t\tfor i := range change.Updates {", "\t\ttxn.dirty.Set(0)\n\t\tfor i := range change.Updates {"))
w("putint32-writes-16-bits", ["C01", "C05"], "C01.width/PutInt32", "int32 written with 16 bits",
  ("commit/buffer.go", "func (b *Buffer) PutInt32(op OpType, idx uint32, value int32) {\n\tb.writeUint32(op, idx, uint32(value))", "func (b *Buffer) PutInt32(op OpType, idx uint32, value int32) {\n\tb.writeUint16(op, idx, uint16(value))"))
w("header-start-stale", ["C05"], "C05.header/(*commit.Buffer).writeChunk/header", "block header records a wrong start",
  ("commit/buffer.go", "\t\t\tStart: uint32(len(b.buffer)),", "\t\t\tStart: uint32(cap(b.buffer)),"))

# ---- rules added after the seeded changes (the seeded patches themselves are replayed by scripts/seedmatrix.py) ----
w("rekey-from-stored-string", ["C12"], "C12.arms/column.columnKey/Put/rekey-live-only", "previous key removed because of a stale string of a deleted row",
  ("column_strings.go", "if fill.Contains(uint32(offset)) && data[offset] != value {", "if data[offset] != \"\" && data[offset] != value {"), suite="survives")
w("clone-reslices-headers", ["C05", "C06"], "C05.copy/(*commit.Buffer).Clone/chunks", "clone shares the header slice through a reslice",
  ("commit/buffer.go", "\tchunks := make([]header, 0, len(b.chunks))\n\tchunks = append(chunks, b.chunks...)\n", "\tchunks := b.chunks[:len(b.chunks):len(b.chunks)]\n"), suite="survives")
w("deleteindex-in-place", ["C03", "C19", "C18"], "C03.registry/(*column.columns).DeleteIndex", "published list of computed columns filtered in place",
  ("collection.go", "\t\tfiltered := make([]*column, 0, cap(columns[i].cols))\n\t\tfiltered = append(filtered, columns[i].cols[0])\n", "\t\tfiltered := v.cols[:1]\n"), suite="survives")
w("readfrom-zero-buffer", ["C05"], "C05.header/sentinel/(*commit.Commit).ReadFrom$1", "deserialised buffer lacks the no-block sentinel",
  ("commit/commit.go", "\t\tbuffer := NewBuffer(256)\n", "\t\tbuffer := new(Buffer)\n"),
  ("commit/commit.go", "\t\tbuffer.Reset(column)\n", "\t\tbuffer.Column = column\n"), suite="survives")
w("record-merge-shared-scratch", ["C09"], "C09.reentrant/column.ForRecord$3", "merge closure decodes into scratch records shared by all blocks",
  ("column_record.go", "\tmergeRecord := func(v, d string) string {\n\t\tvalue := pool.Get().(T)\n\t\tdelta := pool.Get().(T)\n\t\tdefer pool.Put(value)\n\t\tdefer pool.Put(delta)\n", "\tvalue, delta := new(), new()\n\tmergeRecord := func(v, d string) string {\n"), suite="survives")
w("chunks-from-count", ["C07"], "C07.count/(*column.Collection).chunks/extent", "block count derived from the row count",
  ("snapshot.go", "\tmax, _ := c.fill.Max()\n\tchunks := int(commit.ChunkAt(max) + 1)", "\tmax := uint32(c.Count() - 1)\n\tchunks := int(commit.ChunkAt(max) + 1)"), suite="survives")
w("rangeread-skips-last-block", ["C04", "C10"], "C04.blocks/(*column.Txn).rangeRead", "last (partial) block not visited",
  ("txn_lock.go", "\tfor chunk := commit.Chunk(0); chunk <= limit; chunk++ {\n\t\tlock.RLock(uint(chunk))\n\t\tf(chunk, chunk.OfBitmap(txn.index))", "\tfor chunk := commit.Chunk(0); chunk < limit; chunk++ {\n\t\tlock.RLock(uint(chunk))\n\t\tf(chunk, chunk.OfBitmap(txn.index))"))
w("acquire-keeps-setup", ["C02", "C04"], "C02.pool/(*column.txnPool).acquire", "pooled transaction keeps the previous user's selection",
  ("txn.go", "\ttxn.logger = owner.logger\n\ttxn.setup = false\n", "\ttxn.logger = owner.logger\n"))
w("bufferfor-never-finds", ["C02", "C19"], "C02.pool/(*column.Txn).bufferFor", "every write gets a buffer of its own",
  ("txn.go", "\tfor _, c := range txn.updates {\n\t\tif c.Column == columnName {\n\t\t\treturn c\n\t\t}\n\t}\n\n\t// Create a new buffer", "\tfor _, c := range txn.updates {\n\t\tif c.Column == columnName && c.IsEmpty() {\n\t\t\treturn c\n\t\t}\n\t}\n\n\t// Create a new buffer"))
w("reset-reslices-dirty", ["C15"], ["C15.dirty/(*column.Txn).reset/fields"], "stale dirty blocks in the pooled transaction",
  ("txn.go", "\ttxn.dirty.Clear()\n", "\ttxn.dirty = txn.dirty[:0]\n"), suite="survives")
w("enum-table-unlocked-append", ["C01", "C18"], "L7.write/column.columnEnum.data", "enum table extended outside the lookup's lock",
  ("column_strings.go", "\tat, _ := c.seek.LoadOrStore(target, func() uint32 {\n\t\tc.data = append(c.data, string(v))\n\t\treturn uint32(len(c.data)) - 1\n\t})\n\treturn at", "\tif at, ok := c.seek.Load(target); ok {\n\t\treturn at\n\t}\n\tc.data = append(c.data, string(v))\n\tat := uint32(len(c.data)) - 1\n\tc.seek.Store(target, at)\n\treturn at"), suite="survives")

w("reset-reslices-dirty-c02", ["C02"], "C02.query/(*column.Txn).reset/fields", "stale dirty blocks in the pooled transaction",
  ("txn.go", "\ttxn.dirty.Clear()\n", "\ttxn.dirty = txn.dirty[:0]\n"), suite="survives")
for _p in ("C09", "C11"):
    w("string-apply-absolute-index-" + _p.lower(), [_p], _p + ".units/(*column.columnString).Apply", "absolute offset indexes a per-block array",
      ("column_strings.go", "\t// Update the values of the column, for this one we can only process stores\n\tfor r.Next() {\n\t\toffset := r.Offset - int32(from)", "\t// Update the values of the column, for this one we can only process stores\n\tfor r.Next() {\n\t\t_ = from\n\t\toffset := r.Offset"))

# ---- rules of round 4 -----------------------------------------------------------------------------
w("free-without-recount", ["C11"], "C11.siblings/(*column.Txn).insert", "one of the three offset releasers stops maintaining the row counter",
  ("collection.go", "\tc.fill.Remove(idx)\n\tatomic.StoreUint64(&c.count, uint64(c.fill.Count()))\n\tc.lock.Unlock()\n\treturn\n", "\tc.fill.Remove(idx)\n\tc.lock.Unlock()\n\treturn\n"))
w("withvalue-and-index", ["C04"], "C04.ops/(*column.Txn).WithValue/op", "WithValue intersects with column.Index before the predicate",
  ("txn.go", "\t\toffset := chunk.Min()\n\t\tindex.Filter(func(x uint32) (match bool) {\n\t\t\tif v, ok := c.Value(offset + x); ok {", "\t\toffset := chunk.Min()\n\t\tindex.And(c.Index(chunk))\n\t\tindex.Filter(func(x uint32) (match bool) {\n\t\t\tif v, ok := c.Value(offset + x); ok {"), suite="survives")
w("restore-swallows-state-eof", ["C13"], "C13.propagate/(*column.Collection).Restore", "a state section cut at a frame boundary is accepted",
  ("snapshot.go", "\tcommits, err := c.readState(s2.NewReader(snapshot))\n\tif err != nil {\n\t\treturn err\n\t}\n", "\tcommits, err := c.readState(s2.NewReader(snapshot))\n\tif err == io.ErrUnexpectedEOF {\n\t\treturn nil\n\t}\n\tif err != nil {\n\t\treturn err\n\t}\n"), suite="survives")
w("vacuum-timer-fires-once", ["C17"], "C17.periodic/(*column.Collection).vacuum/Timer", "cleanup waits on a timer that is never re-armed",
  ("column_expire.go", "\tticker := time.NewTicker(interval)\n", "\tticker := time.NewTimer(interval)\n"))
w("commit-writeto-drops-length", ["C05", "C06"], "C05.grammar/Commit/groups", "the byte-section length is not written",
  ("commit/commit.go", "\t\t// Write buffer length\n\t\tif err := w.WriteUvarint(uint64(offset)); err != nil {\n\t\t\treturn err\n\t\t}\n", "\t\t// Write buffer length\n"))
w("fx12-readchunk-unguarded-index", ["C08", "C13"], "C08.read/(*column.Collection).readChunk/commits-in-range", "commit-id table indexed without a length test (inverse of fix 53d21bb)",
  ("snapshot.go", "\tvar last uint64\n\tif int(chunk) < len(c.commits) {\n\t\tlast = c.commits[chunk]\n\t}\n\treturn fn(last, chunk, chunk.OfBitmap(c.fill))\n", "\treturn fn(c.commits[chunk], chunk, chunk.OfBitmap(c.fill))\n"), suite="survives")
w("fx13-chunks-from-fill-alone", ["C08"], "C08.read/(*column.Collection).chunks/committed-extent", "block count taken from the fill list alone (inverse of fix 8130d1a)",
  ("snapshot.go", "\tif chunks > len(c.commits) {\n\t\tchunks = len(c.commits)\n\t}\n\treturn chunks\n", "\treturn chunks\n"), suite="survives")
w("fx14-string-delete-keeps-value", ["C11", "C01", "C09"], "C01.arms/column.columnString/Delete/must-value-clear", "deleted row's string stays in the slot (inverse of fix d98fe8b)",
  ("column_strings.go", "\t\t\tfill.Remove(uint32(offset))\n\t\t\tdata[offset] = \"\" // The next row at this offset must not merge into this value\n", "\t\t\tfill.Remove(uint32(offset))\n"), suite="survives")
w("fx15-expire-default-merge", ["C17"], "C17.write/column.NewCollection/expire-merge", "expire column merges with the default addition (inverse of fix a5c5502)",
  ("collection.go", "\tstore.CreateColumn(expireColumn, ForInt64(WithMerge(extendDeadline)))\n", "\tstore.CreateColumn(expireColumn, ForInt64())\n"), suite="survives")
# ---- rules of seed round 8 -------------------------------------------------------------------
w("range-rereads-header-count", ["C01", "C03", "C05"], "C03.order/(*commit.Reader).Range/headers-as-on-entry", "header loop bound re-read every iteration",
  ("commit/reader.go", "\tfor i, c := range buf.chunks {\n\t\tif c.Chunk != chunk {", "\tfor i := 0; i < len(buf.chunks); i++ {\n\t\tc := buf.chunks[i]\n\t\tif c.Chunk != chunk {"))
w("commitupdates-break-on-missing-column", ["C09", "C02", "C03"], "C03.twopass/no-exit", "buffer loop left at the first unregistered column",
  ("txn.go", "\t\tif !exists || len(columns) == 0 {\n\t\t\tcontinue\n\t\t}\n", "\t\tif !exists || len(columns) == 0 {\n\t\t\tbreak\n\t\t}\n"), suite="survives")
w("log-append-flush-outside-mutex", ["C18", "C06"], "L10/commit.Log.writer/(*commit.Log).Append", "flush outside the log mutex",
  ("commit/log.go", "\tl.lock.Lock()\n\tdefer l.lock.Unlock()\n\n\t// Write the commit into the stream\n\tif _, err = commit.WriteTo(l.writer); err == nil {\n\t\terr = l.writer.Flush()\n\t}\n\treturn\n", "\tl.lock.Lock()\n\t_, err = commit.WriteTo(l.writer)\n\tl.lock.Unlock()\n\tif err == nil {\n\t\terr = l.writer.Flush()\n\t}\n\treturn\n"), suite="survives")
w("swapbytes-inplace-when-it-fits", ["C05", "C06"], "C05.swap/(*commit.Reader).SwapBytes/in-place", "in-place overwrite whenever the new value fits",
  ("commit/reader.go", "\tif (r.i1 - r.i0) == len(v) {", "\tif (r.i1 - r.i0) >= len(v) {"), suite="survives")
# ---- rules of seed rounds 6 and 7 ----------------------------------------------------------------
w("max-overwritten-on-miss", ["C04"], "C04.fold/(column.rdNumber[T]).Max", "a block without selected values overwrites the running maximum",
  ("column_numeric.go", "bitmap.Max(data, present(index, fill)); hit && (v > max || !ok) {\n\t\t\t\tmax = v\n\t\t\t\tok = true\n", "bitmap.Max(data, present(index, fill)); v > max || !ok {\n\t\t\t\tmax = v\n\t\t\t\tok = hit\n"))
w("pair-loop-skips-empty-selection", ["C04"], "C04.blocks/(*column.Txn).rangeReadPair/every-block", "Union cannot add rows to a block whose selection is empty",
  ("txn_lock.go", "\t\tlock.RLock(uint(chunk))\n\t\tf(chunk.OfBitmap(txn.index), column.Index(chunk))\n", "\t\tif chunk.OfBitmap(txn.index).Count() == 0 {\n\t\t\tcontinue\n\t\t}\n\t\tlock.RLock(uint(chunk))\n\t\tf(chunk.OfBitmap(txn.index), column.Index(chunk))\n"))
w("commit-writeto-bytes-of-block-zero", ["C06", "C08"], "C06.own-chunk/(*commit.Commit).WriteTo", "the bytes written are those of block 0, whatever the commit's block",
  ("commit/commit.go", "\t\t// Write all chunk bytes together\n\t\treader.Range(buffer, c.Chunk, func(r *Reader) {", "\t\t// Write all chunk bytes together\n\t\treader.Range(buffer, 0, func(r *Reader) {"))
w("commit-writeto-clears-updates", ["C05", "C06", "C15"], "C05.readonly/(*commit.Commit).WriteTo", "serialising empties the update list the next block's commit shares",
  ("commit/commit.go", "\t}); err != nil {\n\t\treturn w.Offset(), err\n\t}\n\n\treturn w.Offset(), nil\n}", "\t}); err != nil {\n\t\treturn w.Offset(), err\n\t}\n\n\tc.Updates = c.Updates[:0]\n\treturn w.Offset(), nil\n}"))
w("commit-writeto-counts-other-slice", ["C05", "C06", "C08"], "C05.count/(*commit.Commit).WriteTo", "the announced count is taken from another slice than the one indexed",
  ("commit/commit.go", "\tif err := w.WriteRange(len(c.Updates), func(i int, w *iostream.Writer) error {", "\tnonEmpty := c.Updates[:0:0]\n\tfor _, u := range c.Updates {\n\t\tif !u.IsEmpty() {\n\t\t\tnonEmpty = append(nonEmpty, u)\n\t\t}\n\t}\n\tif err := w.WriteRange(len(nonEmpty), func(i int, w *iostream.Writer) error {"))
w("drop-unregisters-before-detach", ["C03", "C19"], "C03.register/(*column.Collection).DropTrigger/order", "DeleteIndex resolves the trigger by a name that is already gone",
  ("collection.go", "\tcolumnName := column.Column.(computed).Column()\n\tc.cols.DeleteIndex(columnName, triggerName)\n\tc.cols.DeleteColumn(triggerName)\n", "\tcolumnName := column.Column.(computed).Column()\n\tc.cols.DeleteColumn(triggerName)\n\tc.cols.DeleteIndex(columnName, triggerName)\n"))
w("grow-bypasses-column-lock", ["C18"], "L7.read/column.numericColumn.chunks/holding column.lock", "columns grown without column.lock while Apply reads the headers under column.lock:R",
  ("txn.go", "\t\tcolumn.Grow(max)\n", "\t\tcolumn.Column.Grow(max)\n"))
w("recorder-looked-up-before-latch", ["C07", "C08"], "L5.emit/recording?/(*column.Txn).commit", "the snapshot recorder is looked up outside the block latch",
  ("txn.go", "\ttxn.rangeWrite(func(commitID uint64, chunk commit.Chunk, fill bitmap.Bitmap) {", "\trecorder, recording := txn.owner.isSnapshotting()\n\ttxn.rangeWrite(func(commitID uint64, chunk commit.Chunk, fill bitmap.Bitmap) {"),
  ("txn.go", "\t\tif dst, ok := txn.owner.isSnapshotting(); ok {\n\t\t\tdst.Append(", "\t\tif recording {\n\t\t\trecorder.Append("))

# ---- mutants of the mutation sample (mutation/) that the suite does not notice and that break a property:
# converted to witnesses by the script in DESIGN.md §8 ("Mutation sample"), kept in mutation_witnesses.json
_mw = os.path.join(os.path.dirname(os.path.abspath(__file__)), "mutation_witnesses.json")
if os.path.exists(_mw):
    W.extend(json.load(open(_mw)))

os.makedirs(os.path.dirname(os.path.abspath(__file__)), exist_ok=True)
json.dump(W, open(os.path.join(os.path.dirname(os.path.abspath(__file__)), "witnesses.json"), "w"), indent=1)
print(len(W), "witnesses")
