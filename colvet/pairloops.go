package colvet

import (
	"go/types"
	"sort"

	"golang.org/x/tools/go/ssa"
)

// pairLoop describes a per-block two-bitmap loop of the library — a method that takes a column and a
// step func(dst, src bitmap.Bitmap) and calls the step with (the selection's block, the column's
// block) for the blocks of the selection. rangeReadPair is the one on the pinned tree; a sibling
// added beside it (a variant that skips blocks whose selection is empty, say) is found by shape.
type pairLoop struct {
	Fn *ssa.Function
	// Skips: an iteration of the block loop can complete without invoking the step.
	Skips bool
	// SkipSel: every branch that skips is decided by a test of the selection's block alone (so the
	// loop is usable for steps that cannot add rows to a block, and for those only).
	SkipSel bool
	Calls   int
}

func isPairStep(t types.Type) bool {
	sg, ok := t.Underlying().(*types.Signature)
	return ok && sg.Params().Len() == 2 && sg.Results().Len() == 0 && isBitmap(sg.Params().At(0).Type()) && isBitmap(sg.Params().At(1).Type())
}

// pairLoops finds them (keyed by function name, cached per run).
func pairLoops(r *Report) map[string]*pairLoop {
	if r.P.pairLoops != nil {
		return r.P.pairLoops
	}
	out := map[string]*pairLoop{}
	var fns []*ssa.Function
	for fn := range r.P.modFunc {
		if fn.Parent() != nil || fn.Synthetic != "" || len(fn.Blocks) == 0 {
			continue
		}
		hasStep := false
		for _, p := range fn.Params {
			if isPairStep(p.Type()) {
				hasStep = true
			}
		}
		if hasStep {
			fns = append(fns, fn)
		}
	}
	sort.Slice(fns, func(i, j int) bool { return fnName(fns[i]) < fnName(fns[j]) })
	for _, fn := range fns {
		pl := &pairLoop{Fn: fn, SkipSel: true}
		for _, f := range deepFuncs(fn) {
			for _, cb := range userCallIn(f) {
				if len(cb.Call.Args) != 2 || !isBitmap(cb.Call.Args[0].Type()) || !isBitmap(cb.Call.Args[1].Type()) {
					continue
				}
				// the step is called with (block of the selection, block of the column)
				if c, ok := norm(cb.Call.Args[1]).(*ssa.Call); !ok || !calleeIs(&c.Call, "(*column.column).Index") {
					continue
				}
				pl.Calls++
				b := cb.Block()
				if !reachAvoiding(b, b, nil, nil) {
					continue // a per-block closure of a shared helper: the loop is elsewhere
				}
				sel := cb.Call.Args[0]
				for _, c := range f.Blocks {
					if c == b || !reachAvoiding(c, b, nil, nil) || !reachAvoiding(b, c, nil, nil) {
						continue
					}
					iff, isIf := c.Instrs[len(c.Instrs)-1].(*ssa.If)
					if !isIf {
						continue
					}
					for _, s := range c.Succs {
						// decided here: from s the iteration comes round to c again without the step,
						// and cannot get to the step without coming round first
						skips := s != b && (s == c || reachAvoiding(s, c, func(x *ssa.BasicBlock) bool { return x == b }, nil)) &&
							!reachAvoiding(s, b, func(x *ssa.BasicBlock) bool { return x == c }, nil)
						if !skips {
							continue
						}
						pl.Skips = true
						if !onlyOf(iff.Cond, sel, 0) {
							pl.SkipSel = false
						}
					}
				}
			}
		}
		if pl.Calls > 0 {
			out[fnName(fn)] = pl
		}
	}
	// delegates: a function that hands its step on to a pair loop
	for _, fn := range fns {
		if out[fnName(fn)] != nil {
			continue
		}
		allInstrs(fn, func(ins ssa.Instruction) {
			cc, _, _ := callCommon(ins)
			if cc == nil || cc.StaticCallee() == nil {
				return
			}
			if pl := out[fnName(originOf(cc.StaticCallee()))]; pl != nil {
				for _, a := range cc.Args {
					if p, ok := a.(*ssa.Parameter); ok && isPairStep(p.Type()) {
						cp := *pl
						cp.Fn = fn
						out[fnName(fn)] = &cp
					}
				}
			}
		})
	}
	r.P.pairLoops = out
	return out
}

// onlyOf: v is computed from sel (and constants) alone: comparisons, arithmetic, element reads,
// len(), and calls all of whose arguments are such values.
func onlyOf(v, sel ssa.Value, depth int) bool {
	if depth > 10 || v == nil {
		return false
	}
	if sameExpr(v, sel) {
		return true
	}
	if n := norm(v); n != v && n != nil {
		return onlyOf(n, sel, depth+1)
	}
	switch x := v.(type) {
	case *ssa.Const:
		return true
	case *ssa.BinOp:
		return onlyOf(x.X, sel, depth+1) && onlyOf(x.Y, sel, depth+1)
	case *ssa.UnOp:
		return onlyOf(x.X, sel, depth+1)
	case *ssa.Convert:
		return onlyOf(x.X, sel, depth+1)
	case *ssa.ChangeType:
		return onlyOf(x.X, sel, depth+1)
	case *ssa.IndexAddr:
		return onlyOf(x.X, sel, depth+1) && onlyOf(x.Index, sel, depth+1)
	case *ssa.Slice:
		return onlyOf(x.X, sel, depth+1)
	case *ssa.Call:
		if len(x.Call.Args) == 0 || x.Call.IsInvoke() {
			return false
		}
		if _, isB := x.Call.Value.(*ssa.Builtin); !isB && x.Call.StaticCallee() == nil {
			return false
		}
		for _, a := range x.Call.Args {
			if !onlyOf(a, sel, depth+1) {
				return false
			}
		}
		return true
	}
	return false
}

// pairLoopNames lists the discovered loops, the pinned one first.
func pairLoopNames(r *Report) []string {
	var names []string
	for n := range pairLoops(r) {
		names = append(names, n)
	}
	sort.Strings(names)
	return names
}
