package colvet

import (
	"go/constant"
	"go/token"
	"go/types"

	"golang.org/x/tools/go/ssa"
)

// Analysis P helpers: order and guard questions on the SSA control-flow graph of one function.

// callsTo lists the call instructions (Call only unless withDefer) of fn whose static callee's
// origin has one of the short names.
func callsTo(fn *ssa.Function, withDefer bool, names ...string) []ssa.Instruction {
	var out []ssa.Instruction
	allInstrs(fn, func(ins ssa.Instruction) {
		cc, isDefer, isGo := callCommon(ins)
		if cc == nil || isGo || (isDefer && !withDefer) {
			return
		}
		if calleeIs(cc, names...) {
			out = append(out, ins)
		}
	})
	return out
}

// callsWhere lists call-like instructions selected by pred.
func callsWhere(fn *ssa.Function, pred func(ins ssa.Instruction, cc *ssa.CallCommon) bool) []ssa.Instruction {
	var out []ssa.Instruction
	allInstrs(fn, func(ins ssa.Instruction) {
		if cc, _, _ := callCommon(ins); cc != nil && pred(ins, cc) {
			out = append(out, ins)
		}
	})
	return out
}

// blockHas: some instruction of b at index ≥ from satisfies pred.
func blockHas(b *ssa.BasicBlock, from int, pred func(ssa.Instruction) bool) bool {
	for i := from; i < len(b.Instrs); i++ {
		if pred(b.Instrs[i]) {
			return true
		}
	}
	return false
}

// mustPassToReturn: every path from (block start, instruction index idx) to a Return passes an
// instruction satisfying pred. Paths ending in panic are ignored. Returns a counter-example
// return when it fails.
func mustPassToReturn(start *ssa.BasicBlock, idx int, pred func(ssa.Instruction) bool) (bool, ssa.Instruction) {
	return mustPassToReturnD(start, idx, pred, 0)
}

// mustPassToReturnD is helper-transparent: a call to a helper that always performs pred counts.
func mustPassToReturnD(start *ssa.BasicBlock, idx int, pred0 func(ssa.Instruction) bool, depth int) (bool, ssa.Instruction) {
	pred := deepPred(pred0, depth)
	if blockHas(start, idx, pred) {
		return true, nil
	}
	if r, ok := start.Instrs[len(start.Instrs)-1].(*ssa.Return); ok {
		return false, r
	}
	seen := map[*ssa.BasicBlock]bool{}
	work := append([]*ssa.BasicBlock{}, start.Succs...)
	for len(work) > 0 {
		b := work[len(work)-1]
		work = work[:len(work)-1]
		if seen[b] {
			continue
		}
		seen[b] = true
		if blockHas(b, 0, pred) {
			continue
		}
		if r, ok := b.Instrs[len(b.Instrs)-1].(*ssa.Return); ok {
			return false, r
		}
		work = append(work, b.Succs...)
	}
	return true, nil
}

// canReach: there is a path from instruction a to instruction b (a strictly before b).
func canReach(a, b ssa.Instruction) bool {
	if a.Block() == b.Block() && instrIndex(a) < instrIndex(b) {
		return true
	}
	return reachAvoiding(a.Block(), b.Block(), nil, nil)
}

// nilTest recognises `x != nil` / `x == nil`; returns x and whether the true edge means non-nil.
func nilTest(cond ssa.Value) (ssa.Value, bool, bool) {
	bo, ok := cond.(*ssa.BinOp)
	if !ok || (bo.Op != token.NEQ && bo.Op != token.EQL) {
		return nil, false, false
	}
	x, y := bo.X, bo.Y
	if c, isC := x.(*ssa.Const); isC && c.Value == nil {
		x, y = y, x
	}
	c, isC := y.(*ssa.Const)
	if !isC || c.Value != nil {
		return nil, false, false
	}
	return x, bo.Op == token.NEQ, true
}

// edgeGuards: b executes only if the If that tests a condition accepted by match took the edge
// match asks for. match returns (recognised, wantTrueEdge).
func edgeGuarded(b *ssa.BasicBlock, match func(cond ssa.Value) (bool, bool)) bool {
	if guardedSem(b, match) {
		return true
	}
	fn := b.Parent()
	for _, d := range fn.Blocks {
		if len(d.Instrs) == 0 {
			continue
		}
		iff, ok := d.Instrs[len(d.Instrs)-1].(*ssa.If)
		if !ok {
			continue
		}
		rec, wantTrue := match(iff.Cond)
		if !rec {
			continue
		}
		k := 1
		if wantTrue {
			k = 0
		}
		s := d.Succs[k]
		if len(s.Preds) == 1 && s.Dominates(b) && d.Succs[0] != d.Succs[1] {
			return true
		}
	}
	return false
}

// isNot recognises !v.
func isNot(v ssa.Value) (ssa.Value, bool) {
	if u, ok := v.(*ssa.UnOp); ok && u.Op == token.NOT {
		return u.X, true
	}
	return nil, false
}

// extractOf: v is result #i of call c (or c itself for single results when i==0).
func extractOf(v ssa.Value, i int) (*ssa.Call, bool) {
	v = strip(v)
	if ex, ok := v.(*ssa.Extract); ok && ex.Index == i {
		c, ok := ex.Tuple.(*ssa.Call)
		return c, ok
	}
	if c, ok := v.(*ssa.Call); ok && i == 0 {
		if _, isTuple := c.Type().(*types.Tuple); !isTuple {
			return c, true
		}
	}
	return nil, false
}

// throughCell resolves a load from a local variable cell to the single value stored into it.
func throughCell(v ssa.Value) ssa.Value {
	for i := 0; i < 4; i++ {
		u, ok := v.(*ssa.UnOp)
		if !ok || u.Op != token.MUL {
			return v
		}
		al, ok := u.X.(*ssa.Alloc)
		if !ok {
			return v
		}
		var vals []ssa.Value
		for _, ref := range *al.Referrers() {
			if st, ok := ref.(*ssa.Store); ok && st.Addr == al {
				vals = append(vals, st.Val)
			}
		}
		if len(vals) != 1 {
			return v
		}
		v = vals[0]
	}
	return v
}

// cellStores lists all values stored into the cell v is loaded from (or v itself).
func cellStores(v ssa.Value) []ssa.Value {
	u, ok := v.(*ssa.UnOp)
	if !ok || u.Op != token.MUL {
		return []ssa.Value{v}
	}
	al, ok := u.X.(*ssa.Alloc)
	if !ok {
		return []ssa.Value{v}
	}
	var vals []ssa.Value
	for _, ref := range *al.Referrers() {
		if st, ok := ref.(*ssa.Store); ok && st.Addr == al {
			vals = append(vals, st.Val)
		}
	}
	return vals
}

func isConstNil(v ssa.Value) bool {
	c, ok := v.(*ssa.Const)
	return ok && c.Value == nil
}

func constString(v ssa.Value) (string, bool) {
	c, ok := strip(v).(*ssa.Const)
	if !ok || c.Value == nil || c.Value.Kind() != constant.String {
		return "", false
	}
	return constant.StringVal(c.Value), true
}

// returnsError: the callee's last result is of type error.
func returnsError(cc *ssa.CallCommon) (int, bool) {
	sig := cc.Signature()
	if sig == nil || sig.Results().Len() == 0 {
		return 0, false
	}
	n := sig.Results().Len()
	if types.Identical(sig.Results().At(n-1).Type(), types.Universe.Lookup("error").Type()) {
		return n - 1, true
	}
	return 0, false
}

// errorDropped: the error result of the call instruction is never used.
func errorDropped(c *ssa.Call) bool {
	idx, ok := returnsError(&c.Call)
	if !ok {
		return false
	}
	refs := c.Referrers()
	if refs == nil || len(*refs) == 0 {
		return true
	}
	if _, isTuple := c.Type().(*types.Tuple); !isTuple {
		return false
	}
	for _, ref := range *refs {
		if ex, ok := ref.(*ssa.Extract); ok && ex.Index == idx {
			if r := ex.Referrers(); r != nil && len(*r) > 0 {
				return false
			}
		}
	}
	return true
}
