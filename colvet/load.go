// Package colvet is a static analyser written for one code base: kelindar/column.
// It decides structural necessary conditions of the properties in /verif/properties.jsonl
// from the type-checked source and SSA form of /repo's working tree. Nothing is executed.
package colvet

import (
	"fmt"
	"go/token"
	"go/types"
	"os"
	"path/filepath"
	"sort"
	"strings"

	"golang.org/x/tools/go/callgraph"
	"golang.org/x/tools/go/callgraph/cha"
	"golang.org/x/tools/go/callgraph/vta"
	"golang.org/x/tools/go/packages"
	"golang.org/x/tools/go/ssa"
	"golang.org/x/tools/go/ssa/ssautil"
)

const (
	ModPath    = "github.com/kelindar/column"
	CommitPath = ModPath + "/commit"
)

// Prog is the loaded, type-checked program in SSA form plus the indexes rules use.
type Prog struct {
	Dir        string
	Fset       *token.FileSet
	Pkgs       []*packages.Package
	SSA        *ssa.Program
	Col        *ssa.Package // github.com/kelindar/column
	Commit     *ssa.Package // github.com/kelindar/column/commit
	All        map[*ssa.Function]bool
	CHA        *callgraph.Graph
	vtaG       *callgraph.Graph
	byName     map[string]*ssa.Function
	NFiles     int
	NFuncs     int // functions with bodies in the two library packages (incl. closures, instances)
	GOARCH     string
	modFunc    map[*ssa.Function]bool
	uniq       map[*ssa.Function][]ssa.CallInstruction
	bound      map[*ssa.Function][]*ssa.MakeClosure // method (origin) → the method values created of it
	pairLoops  map[string]*pairLoop                 // per-block two-bitmap loops found by shape (pairloops.go)
	publishers map[*ssa.Function]bool               // accessors that hand out a value loaded from an atomic.Value
}

// Load type-checks and builds SSA for every package of the module in dir.
func Load(dir string, goarch string) (*Prog, error) {
	env := append(os.Environ(),
		"GOFLAGS=-mod=mod", "GOPROXY=off", "GOSUMDB=off", "GOTOOLCHAIN=local", "GOWORK=off")
	if goarch != "" {
		env = append(env, "GOARCH="+goarch, "CGO_ENABLED=0")
	}
	cfg := &packages.Config{
		Mode:       packages.LoadAllSyntax,
		Dir:        dir,
		Tests:      false,
		Env:        env,
		BuildFlags: []string{"-tags=verif"},
	}
	pkgs, err := packages.Load(cfg, "./...")
	if err != nil {
		return nil, fmt.Errorf("load: %w", err)
	}
	var errs []string
	packages.Visit(pkgs, nil, func(p *packages.Package) {
		for _, e := range p.Errors {
			errs = append(errs, e.Error())
		}
	})
	if len(errs) > 0 {
		sort.Strings(errs)
		if len(errs) > 10 {
			errs = errs[:10]
		}
		return nil, fmt.Errorf("load: %d package errors, e.g.\n  %s", len(errs), strings.Join(errs, "\n  "))
	}
	if len(pkgs) < 2 {
		return nil, fmt.Errorf("load: expected at least 2 packages in %s, got %d", dir, len(pkgs))
	}
	prog, spkgs := ssautil.AllPackages(pkgs, ssa.InstantiateGenerics)
	prog.Build()
	p := &Prog{Dir: dir, Fset: prog.Fset, Pkgs: pkgs, SSA: prog, GOARCH: goarch,
		byName: map[string]*ssa.Function{}, modFunc: map[*ssa.Function]bool{}}
	for i, pk := range pkgs {
		switch pk.PkgPath {
		case ModPath:
			p.Col = spkgs[i]
			p.NFiles += len(pk.Syntax)
		case CommitPath:
			p.Commit = spkgs[i]
			p.NFiles += len(pk.Syntax)
		}
	}
	if p.Col == nil || p.Commit == nil {
		return nil, fmt.Errorf("load: packages %s and %s not both found under %s", ModPath, CommitPath, dir)
	}
	p.All = ssautil.AllFunctions(prog)
	// generic origins of methods that are only reachable through interfaces are not in the
	// linker-style closure; the rules analyse origins (instances repeat them), so add them.
	var addAll func(fn *ssa.Function)
	addAll = func(fn *ssa.Function) {
		if fn == nil || p.All[fn] {
			return
		}
		p.All[fn] = true
		for _, a := range fn.AnonFuncs {
			addAll(a)
		}
	}
	for fn := range p.All {
		if o := fn.Origin(); o != nil {
			addAll(o)
		}
	}
	for fn := range p.All {
		if fn.Blocks == nil {
			continue
		}
		if p.InLib(fn) {
			p.NFuncs++
			p.modFunc[fn] = true
			p.byName[Short(fn.String())] = fn
		}
	}
	p.CHA = cha.CallGraph(prog)
	curProg = p
	return p, nil
}

// VTA builds the VTA call graph lazily (only rules that resolve stored function values need it).
func (p *Prog) VTA() *callgraph.Graph {
	if p.vtaG == nil {
		p.vtaG = vta.CallGraph(p.All, p.CHA)
	}
	return p.vtaG
}

// pkgOf returns the package a function (or its outermost parent / generic origin) belongs to.
func pkgOf(fn *ssa.Function) *ssa.Package {
	for fn.Parent() != nil {
		fn = fn.Parent()
	}
	if fn.Pkg != nil {
		return fn.Pkg
	}
	if o := fn.Origin(); o != nil && o.Pkg != nil {
		return o.Pkg
	}
	if obj := fn.Object(); obj != nil && obj.Pkg() != nil {
		return fn.Prog.Package(obj.Pkg())
	}
	return nil
}

// InLib reports whether fn belongs to one of the two library packages.
func (p *Prog) InLib(fn *ssa.Function) bool {
	pk := pkgOf(fn)
	return pk != nil && (pk == p.Col || pk == p.Commit)
}

// Short trims module paths from an SSA name: "(*github.com/kelindar/column.Txn).commit" →
// "(*column.Txn).commit".
func Short(s string) string {
	s = strings.ReplaceAll(s, CommitPath+".", "commit.")
	s = strings.ReplaceAll(s, ModPath+".", "column.")
	s = strings.ReplaceAll(s, "github.com/kelindar/", "")
	s = strings.ReplaceAll(s, "github.com/tidwall/", "")
	s = strings.ReplaceAll(s, "github.com/klauspost/compress/", "")
	return s
}

// Fn looks a library function up by its short SSA name, e.g. "(*column.Txn).commit",
// "column.NewCollection", "(*column.Txn).commit$1", "(*column.numericColumn[T]).load".
func (p *Prog) Fn(name string) *ssa.Function {
	if f := os.Getenv("COLVET_LOG_ANCHORS"); f != "" {
		if fh, err := os.OpenFile(f, os.O_APPEND|os.O_CREATE|os.O_WRONLY, 0o644); err == nil {
			fmt.Fprintln(fh, name)
			fh.Close()
		}
	}
	return p.byName[name]
}

// FuncNames lists the short names of all library functions with bodies, sorted.
func (p *Prog) FuncNames() []string {
	var out []string
	for n := range p.byName {
		out = append(out, n)
	}
	sort.Strings(out)
	return out
}

// Pos renders a position relative to the repository root.
func (p *Prog) Pos(pos token.Pos) string {
	if !pos.IsValid() {
		return "-"
	}
	pp := p.Fset.Position(pos)
	f := pp.Filename
	if rel, err := filepath.Rel(p.Dir, f); err == nil && !strings.HasPrefix(rel, "..") {
		f = rel
	} else if i := strings.Index(f, "/pkg/mod/"); i >= 0 {
		f = f[i+len("/pkg/mod/"):]
	}
	return fmt.Sprintf("%s:%d", f, pp.Line)
}

// InstrPos finds a usable position for an instruction (falls back to neighbours in the block
// and then to the function).
func (p *Prog) InstrPos(ins ssa.Instruction) string {
	if ins == nil {
		return "-"
	}
	if ins.Pos().IsValid() {
		return p.Pos(ins.Pos())
	}
	if v, ok := ins.(ssa.Value); ok {
		_ = v
	}
	if b := ins.Block(); b != nil {
		for _, o := range b.Instrs {
			if o.Pos().IsValid() {
				return p.Pos(o.Pos())
			}
		}
	}
	if fn := ins.Parent(); fn != nil {
		return p.Pos(fn.Pos())
	}
	return "-"
}

// NamedType finds a named type of a library package ("column","commit").
func (p *Prog) NamedType(pkg, name string) *types.Named {
	var sp *ssa.Package
	switch pkg {
	case "column":
		sp = p.Col
	case "commit":
		sp = p.Commit
	}
	if sp == nil {
		return nil
	}
	if o := sp.Pkg.Scope().Lookup(name); o != nil {
		if tn, ok := o.(*types.TypeName); ok {
			if n, ok := tn.Type().(*types.Named); ok {
				return n
			}
		}
	}
	return nil
}

// ConstVal returns the exact value string of a package-level constant.
func (p *Prog) ConstVal(pkg, name string) (string, bool) {
	var sp *ssa.Package
	switch pkg {
	case "column":
		sp = p.Col
	case "commit":
		sp = p.Commit
	}
	if sp == nil {
		return "", false
	}
	if c, ok := sp.Pkg.Scope().Lookup(name).(*types.Const); ok {
		return c.Val().ExactString(), true
	}
	return "", false
}
