package colvet

import (
	"bytes"
	"encoding/json"
	"fmt"
	"io"
	"os"
	"os/exec"
	"path/filepath"
	"sort"
	"strings"
	"sync"
)

// Witness run (thorough tier): every rule ships with one-instance breaking edits. Each edit is
// applied to a scratch copy of the CURRENT /repo tree, the analyser is run on the copy in a
// process of its own, and it must report the named obligation as violated. A witness whose text
// no longer applies is skipped with a note; a witness that applies and is NOT detected means the
// checker is broken (exit 2, never a VIOLATION of the property).

type Edit struct {
	File string `json:"file"`
	Old  string `json:"old"`
	New  string `json:"new"`
}

type Control struct {
	ID         string   `json:"id"`
	Properties []string `json:"properties"`
	Expect     []string `json:"expect"` // obligation keys that must become violated
	Why        string   `json:"why"`
	Edits      []Edit   `json:"edits"`
	Suite      string   `json:"suite,omitempty"`  // "survives" / "killed by <test>" when calibrated
	Patch      string   `json:"patch,omitempty"`  // unified diff (relative to /verif) applied instead of Edits
	Benign     bool     `json:"benign,omitempty"` // negative control: behaviour-preserving, NO new violation may appear
}

type WitnessResult struct {
	ID     string   `json:"id"`
	Expect []string `json:"expect"`
	Status string   `json:"status"` // detected | MISSED | skipped
	Detail string   `json:"detail,omitempty"`
	Extra  []string `json:"also_violated,omitempty"`
}

func loadControls(verifDir string) ([]Control, error) {
	files, _ := filepath.Glob(filepath.Join(verifDir, "controls", "*.json"))
	sort.Strings(files)
	var out []Control
	for _, f := range files {
		b, err := os.ReadFile(f)
		if err != nil {
			return nil, err
		}
		var cs []Control
		if err := json.Unmarshal(b, &cs); err != nil {
			return nil, fmt.Errorf("%s: %w", f, err)
		}
		out = append(out, cs...)
	}
	return out, nil
}

func copyTree(src, dst string) error {
	return filepath.Walk(src, func(p string, info os.FileInfo, err error) error {
		if err != nil {
			return err
		}
		rel, _ := filepath.Rel(src, p)
		if rel == ".git" || strings.HasPrefix(rel, ".git"+string(os.PathSeparator)) {
			if info.IsDir() {
				return filepath.SkipDir
			}
			return nil
		}
		// the example programs and fixtures are not needed to analyse the library, but the
		// packages must still load: keep everything except large binaries
		if !info.IsDir() && info.Size() > 4<<20 {
			return nil
		}
		t := filepath.Join(dst, rel)
		if info.IsDir() {
			return os.MkdirAll(t, 0o755)
		}
		if !info.Mode().IsRegular() {
			return nil
		}
		in, err := os.Open(p)
		if err != nil {
			return err
		}
		defer in.Close()
		out, err := os.Create(t)
		if err != nil {
			return err
		}
		defer out.Close()
		_, err = io.Copy(out, in)
		return err
	})
}

// applyEdit replaces exactly one occurrence, preserving the file's line endings.
func applyEdit(root string, e Edit) error {
	p := filepath.Join(root, e.File)
	raw, err := os.ReadFile(p)
	if err != nil {
		return err
	}
	old, neu := e.Old, e.New
	if bytes.Contains(raw, []byte("\r\n")) {
		old = strings.ReplaceAll(old, "\n", "\r\n")
		neu = strings.ReplaceAll(neu, "\n", "\r\n")
	}
	if n := bytes.Count(raw, []byte(old)); n != 1 {
		return fmt.Errorf("%s: expected one occurrence of the witness text, found %d", e.File, n)
	}
	return os.WriteFile(p, bytes.Replace(raw, []byte(old), []byte(neu), 1), 0o644)
}

// violatedKeys runs the analyser (own process) and parses the keys of its VIOLATION reports.
func violatedKeys(self, repo, verifDir, property string) (map[string]bool, string, error) {
	cmd := exec.Command(self, "-repo", repo, "-verif", verifDir, "-property", property, "-tier", "quick", "-keys")
	var out bytes.Buffer
	cmd.Stdout = &out
	cmd.Stderr = &out
	err := cmd.Run()
	keys := map[string]bool{}
	for _, line := range strings.Split(out.String(), "\n") {
		if strings.HasPrefix(line, "KEY violated ") {
			keys[strings.TrimPrefix(line, "KEY violated ")] = true
		}
		if strings.HasPrefix(line, "KEY undecided ") {
			keys["undecided:"+strings.TrimPrefix(line, "KEY undecided ")] = true
		}
	}
	if ee, ok := err.(*exec.ExitError); ok && (ee.ExitCode() == 1 || ee.ExitCode() == 2) {
		err = nil
	}
	return keys, out.String(), err
}

// RunWitnesses executes the witness controls of one property.
func RunWitnesses(repo, verifDir, property string) ([]WitnessResult, int) {
	controls, err := loadControls(verifDir)
	if err != nil {
		fmt.Fprintln(os.Stderr, "colvet: controls:", err)
		return nil, 2
	}
	self, _ := os.Executable()
	base, _, err := violatedKeys(self, repo, verifDir, property)
	if err != nil {
		fmt.Fprintln(os.Stderr, "colvet: witness baseline run failed:", err)
		return nil, 2
	}
	var mine []Control
	for _, c := range controls {
		for _, p := range c.Properties {
			if p == property {
				mine = append(mine, c)
			}
		}
	}
	results := make([]WitnessResult, len(mine))
	sem := make(chan struct{}, 6)
	var wg sync.WaitGroup
	for i, c := range mine {
		wg.Add(1)
		go func(i int, c Control) {
			defer wg.Done()
			sem <- struct{}{}
			defer func() { <-sem }()
			res := WitnessResult{ID: c.ID, Expect: c.Expect}
			dir, err := os.MkdirTemp("", "colvet-witness-")
			if err != nil {
				res.Status, res.Detail = "skipped", err.Error()
				results[i] = res
				return
			}
			defer os.RemoveAll(dir)
			if err := copyTree(repo, dir); err != nil {
				res.Status, res.Detail = "skipped", err.Error()
				results[i] = res
				return
			}
			for _, e := range c.Edits {
				if err := applyEdit(dir, e); err != nil {
					res.Status, res.Detail = "skipped", "witness text no longer applies: "+err.Error()
					results[i] = res
					return
				}
			}
			if c.Patch != "" {
				cmd := exec.Command("patch", "-p1", "--binary", "-s", "-N", "-i", filepath.Join(verifDir, c.Patch))
				cmd.Dir = dir
				if out, err := cmd.CombinedOutput(); err != nil {
					res.Status, res.Detail = "skipped", "patch no longer applies: "+strings.TrimSpace(string(out))
					results[i] = res
					return
				}
			}
			keys, out, err := violatedKeys(self, dir, verifDir, property)
			if err != nil {
				res.Status, res.Detail = "MISSED", "analyser failed on the variant: "+err.Error()
				results[i] = res
				return
			}
			if strings.Contains(out, "cannot analyse") {
				res.Status, res.Detail = "skipped", "the variant does not type-check"
				results[i] = res
				return
			}
			ok := true
			for _, k := range c.Expect {
				if !keys[k] || base[k] {
					ok = false
				}
			}
			if c.Benign {
				var fresh []string
				for k := range keys {
					if !base[k] {
						fresh = append(fresh, k)
					}
				}
				sort.Strings(fresh)
				if len(fresh) == 0 {
					res.Status = "silent"
				} else {
					res.Status = "FALSE-ALARM"
					res.Detail = "behaviour-preserving variant reported as: " + strings.Join(fresh, ", ")
				}
				results[i] = res
				return
			}
			for k := range keys {
				if base[k] {
					continue
				}
				exp := false
				for _, e := range c.Expect {
					if e == k {
						exp = true
					}
				}
				if !exp {
					res.Extra = append(res.Extra, k)
				}
			}
			sort.Strings(res.Extra)
			if ok {
				res.Status = "detected"
			} else {
				res.Status = "MISSED"
				res.Detail = "the breaking edit applies but the named obligation is not reported"
			}
			results[i] = res
		}(i, c)
	}
	wg.Wait()
	exit := 0
	nd, ns := 0, 0
	for _, r := range results {
		switch r.Status {
		case "detected", "silent":
			nd++
		case "skipped":
			ns++
			fmt.Printf("WITNESS skipped %s: %s\n", r.ID, r.Detail)
		case "FALSE-ALARM":
			exit = 2
			fmt.Printf("NEGATIVE CONTROL %s raised a false alarm: %s — the checker is broken\n", r.ID, r.Detail)
		default:
			exit = 2
			fmt.Printf("WITNESS MISSED %s (expects %v): %s — the checker is broken, its green result cannot be trusted\n", r.ID, r.Expect, r.Detail)
		}
	}
	fmt.Printf("%s witnesses: %d controls, %d as expected (detected / silent), %d skipped, %d wrong\n", property, len(results), nd, ns, len(results)-nd-ns)
	return results, exit
}
