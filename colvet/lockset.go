package colvet

import (
	"go/constant"
	"go/token"
	"go/types"
	"sort"
	"strings"

	"golang.org/x/tools/go/ssa"
)

// Analysis L: closure-sensitive must-hold lockset walk over call paths (DESIGN.md §3 L).
//
// From every root the walk descends through resolved callees carrying (a) the set of abstract
// locks definitely held and (b) an environment that binds function-typed parameters and captured
// variables to the closures created on the current call chain. A context is (function,
// environment, held set); contexts and the edges between them form the context graph on which the
// rules ask must-hold, who-may-call and lock-order questions.

type heldSet map[string]bool // "latch:R", "Collection.lock:W", ...

func (h heldSet) key() string {
	ks := make([]string, 0, len(h))
	for k := range h {
		ks = append(ks, k)
	}
	sort.Strings(ks)
	return strings.Join(ks, ",")
}
func (h heldSet) clone() heldSet {
	c := make(heldSet, len(h))
	for k := range h {
		c[k] = true
	}
	return c
}
func (h heldSet) has(name string) bool  { return h[name+":R"] || h[name+":W"] }
func (h heldSet) hasW(name string) bool { return h[name+":W"] }
func meetHeld(a, b heldSet) heldSet {
	if a == nil {
		return b.clone()
	}
	c := heldSet{}
	for k := range a {
		if b[k] {
			c[k] = true
		}
	}
	return c
}

type closure struct {
	fn  *ssa.Function
	env *env
}

type env struct {
	fn     *ssa.Function
	params map[*ssa.Parameter][]*closure // bound function-typed params; absent = unbound (user's)
	free   map[*ssa.FreeVar]ssa.Value    // binding value in the creating function
	parent *env                          // env of the creating function (for free) / unused for plain calls
	consts map[*ssa.Parameter]*ssa.Const // parameters bound to a constant at this call (mode flags of shared helpers)
	key    string
	keyed  bool
}

// LCtx is one analysis context.
type LCtx struct {
	ID     int
	Fn     *ssa.Function
	Entry  heldSet
	Parent *LCtx // first discoverer (for witness paths)
	Root   string
	Succ   map[int]bool
	IsRoot bool
}

func (c *LCtx) PathNames() []string {
	var rev []string
	for x := c; x != nil; x = x.Parent {
		rev = append(rev, Short(x.Fn.String()))
	}
	for i, j := 0, len(rev)-1; i < j; i, j = i+1, j-1 {
		rev[i], rev[j] = rev[j], rev[i]
	}
	return rev
}

// Site fact: an instruction seen in a context with a held set.
type LSite struct {
	Ctx  *LCtx
	Held heldSet
}

type lockOp struct {
	Name    string // abstract lock
	Mode    byte   // 'R' or 'W'
	Acquire bool
	Shard   ssa.Value // latch only
	Recv    ssa.Value
}

type acqEdge struct {
	From, To string // abstract lock names with mode
	Site     ssa.Instruction
	Ctx      *LCtx
}

type unbalanced struct {
	Ctx   *LCtx
	Exit  ssa.Instruction
	Entry string
	AtEnd string
}

// LFacts is the result of the walk.
type LFacts struct {
	P         *Prog
	At        map[ssa.Instruction][]LSite // library instructions of interest → contexts
	UserCB    map[ssa.Instruction][]LSite // invocations of a root's function-typed parameter
	Acq       []acqEdge
	Unbal     []unbalanced
	Ctxs      []*LCtx
	Roots     []*LCtx
	memo      map[string]*LCtx
	walkCnt   map[*ssa.Function]int
	mayLatch  map[*ssa.Function]bool
	NCtx      int
	accessor  map[*types.Named]bool
	roleSplit map[string]map[string]string
	Unres     map[ssa.Instruction]bool // dynamic calls nothing resolved
	rootsOf   map[int]map[string]bool
	wrappers  map[*ssa.Function]*wrapSummary
}

// walkable: bodies the walk descends into. The standard library and the compression/stream
// dependencies are opaque (they take no lock of interest and call back only through the
// arguments they are given).
func (L *LFacts) walkable(fn *ssa.Function) bool {
	if fn == nil || fn.Blocks == nil {
		return false
	}
	pk := pkgOf(fn)
	if pk == nil {
		return false
	}
	path := pk.Pkg.Path()
	if path == ModPath || strings.HasPrefix(path, ModPath+"/") {
		return true
	}
	switch {
	case strings.HasPrefix(path, "github.com/kelindar/bitmap"),
		strings.HasPrefix(path, "github.com/kelindar/smutex"),
		strings.HasPrefix(path, "github.com/kelindar/intmap"),
		strings.HasPrefix(path, "github.com/tidwall/btree"):
		return true
	}
	return false
}

// classifyLock recognises lock operations. Abstract locks are discovered from the receiver
// expression (address of field f of struct S → "S.f"), never listed.
func (L *LFacts) classifyLock(cc *ssa.CallCommon, in *ssa.Function) (lockOp, bool) {
	sc := cc.StaticCallee()
	if sc != nil && !cc.IsInvoke() {
		// a straight-line unexported helper whose only effect is one lock operation stands for
		// that operation (rlatch(lock, chunk), c.lockShared() …)
		if w := L.lockWrapper(sc); w != nil {
			if len(w.more) > 0 {
				return lockOp{}, false // several operations: classifyLocks
			}
			return w.mapped(w, cc, in)
		}
	}
	if sc == nil || sc.Signature.Recv() == nil {
		return lockOp{}, false
	}
	var op lockOp
	switch sc.Name() {
	case "Lock":
		op.Mode, op.Acquire = 'W', true
	case "RLock":
		op.Mode, op.Acquire = 'R', true
	case "Unlock":
		op.Mode, op.Acquire = 'W', false
	case "RUnlock":
		op.Mode, op.Acquire = 'R', false
	default:
		return lockOp{}, false
	}
	rt := sc.Signature.Recv().Type()
	switch {
	case isNamed(rt, "github.com/kelindar/smutex", "SMutex128"):
		op.Name = "latch"
		if len(cc.Args) >= 2 {
			op.Recv, op.Shard = cc.Args[0], cc.Args[1]
		}
		return op, true
	case isNamed(rt, "sync", "RWMutex"), isNamed(rt, "sync", "Mutex"):
		if len(cc.Args) == 0 {
			return lockOp{}, false
		}
		op.Recv = cc.Args[0]
		if fr, ok := fieldOf(cc.Args[0]); ok {
			op.Name = fr.Struct + "." + fr.Field
		} else if fr, ok := loadedField(cc.Args[0]); ok { // pointer-typed mutex field
			op.Name = fr.Struct + "." + fr.Field
		} else {
			op.Name = "mutex@" + Short(in.String())
		}
		op.Name = strings.TrimPrefix(op.Name, "column.")
		if roles := L.roleSplit[op.Name]; roles != nil {
			if r, ok := roles[Short(originOf(in).String())]; ok {
				op.Name += "#" + r
			}
		}
		return op, true
	}
	return lockOp{}, false
}

func (L *LFacts) envKey(e *env, depth int) string {
	if e == nil || depth > 6 {
		return ""
	}
	if e.keyed && depth == 0 {
		return e.key
	}
	var parts []string
	for p, cs := range e.params {
		var names []string
		for _, c := range cs {
			names = append(names, c.fn.String()+"{"+L.envKey(c.env, depth+1)+"}")
		}
		sort.Strings(names)
		parts = append(parts, p.Name()+"="+strings.Join(names, "|"))
	}
	for fv, b := range e.free {
		if !funcish(fv.Type()) {
			continue
		}
		var names []string
		cs, u := L.resolveFree(fv, b, e.parent, 0)
		for _, c := range cs {
			names = append(names, c.fn.String()+"{"+L.envKey(c.env, depth+1)+"}")
		}
		if u {
			names = append(names, "USER")
		}
		sort.Strings(names)
		parts = append(parts, fv.Name()+"="+strings.Join(names, "|"))
	}
	for p, c := range e.consts {
		parts = append(parts, p.Name()+"=="+c.String())
	}
	sort.Strings(parts)
	k := strings.Join(parts, ";")
	if depth == 0 {
		e.key, e.keyed = k, true
	}
	return k
}

// constCond evaluates a branch condition that only depends on parameters bound to constants in
// this context: p, !p, p == K, p != K (booleans and integers).
func constCond(v ssa.Value, e *env, depth int) (val, known bool) {
	if e == nil || len(e.consts) == 0 || depth > 3 {
		return false, false
	}
	constOf := func(x ssa.Value) *ssa.Const {
		switch t := x.(type) {
		case *ssa.Const:
			return t
		case *ssa.Parameter:
			return e.consts[t]
		}
		return nil
	}
	switch x := v.(type) {
	case *ssa.Parameter:
		if c := e.consts[x]; c != nil && c.Value != nil && c.Value.Kind() == constant.Bool {
			return constant.BoolVal(c.Value), true
		}
	case *ssa.UnOp:
		if x.Op == token.NOT {
			b, ok := constCond(x.X, e, depth+1)
			return !b, ok
		}
	case *ssa.BinOp:
		if x.Op == token.EQL || x.Op == token.NEQ {
			a, b := constOf(x.X), constOf(x.Y)
			if a != nil && b != nil && a.Value != nil && b.Value != nil {
				eq := constant.Compare(a.Value, token.EQL, b.Value)
				if x.Op == token.NEQ {
					eq = !eq
				}
				return eq, true
			}
		}
	}
	return false, false
}

func funcish(t types.Type) bool {
	if _, ok := t.Underlying().(*types.Signature); ok {
		return true
	}
	if p, ok := t.Underlying().(*types.Pointer); ok {
		if _, ok := p.Elem().Underlying().(*types.Signature); ok {
			return true
		}
	}
	return false
}

func (L *LFacts) resolveFree(fv *ssa.FreeVar, b ssa.Value, parent *env, depth int) ([]*closure, bool) {
	if _, isPtr := fv.Type().Underlying().(*types.Pointer); isPtr {
		return L.resolveCell(b, parent, depth)
	}
	return L.resolve(b, parent, depth)
}

// resolve maps a function-typed value to the closures it may denote under env e; user reports
// that it (also) denotes an unbound parameter, i.e. a function supplied by the client.
func (L *LFacts) resolve(v ssa.Value, e *env, depth int) (out []*closure, user bool) {
	if depth > 10 || v == nil {
		return nil, false
	}
	switch v := v.(type) {
	case *ssa.Function:
		return []*closure{{fn: v, env: &env{fn: v}}}, false
	case *ssa.MakeClosure:
		fn := v.Fn.(*ssa.Function)
		ne := &env{fn: fn, free: map[*ssa.FreeVar]ssa.Value{}, parent: e}
		for i, b := range v.Bindings {
			ne.free[fn.FreeVars[i]] = b
		}
		return []*closure{{fn: fn, env: ne}}, false
	case *ssa.Parameter:
		if e != nil && e.params != nil {
			if cs, ok := e.params[v]; ok {
				return cs, false
			}
		}
		return nil, true
	case *ssa.FreeVar:
		if e != nil && e.free != nil {
			if b, ok := e.free[v]; ok {
				return L.resolve(b, e.parent, depth+1)
			}
		}
		return nil, false
	case *ssa.UnOp:
		if v.Op == token.MUL {
			return L.resolveCell(v.X, e, depth+1)
		}
	case *ssa.Phi:
		for _, x := range v.Edges {
			cs, u := L.resolve(x, e, depth+1)
			out = append(out, cs...)
			user = user || u
		}
		return
	case *ssa.ChangeType:
		return L.resolve(v.X, e, depth+1)
	case *ssa.MakeInterface:
		return L.resolve(v.X, e, depth+1)
	}
	return nil, false
}

// resolveCell resolves the contents of a variable cell (Alloc, or FreeVar pointing to one in an
// enclosing function).
func (L *LFacts) resolveCell(cell ssa.Value, e *env, depth int) (out []*closure, user bool) {
	if depth > 10 {
		return nil, false
	}
	switch c := cell.(type) {
	case *ssa.Alloc:
		for _, ref := range *c.Referrers() {
			if st, ok := ref.(*ssa.Store); ok && st.Addr == c {
				cs, u := L.resolve(st.Val, e, depth+1)
				out = append(out, cs...)
				user = user || u
			}
		}
		return
	case *ssa.FreeVar:
		if e != nil && e.free != nil {
			if b, ok := e.free[c]; ok {
				return L.resolveCell(b, e.parent, depth+1)
			}
		}
	}
	return nil, false
}

// interesting: instructions whose held sets are recorded for the rules.
func interesting(ins ssa.Instruction) bool {
	switch ins.(type) {
	case *ssa.Call, *ssa.Defer, *ssa.Go, *ssa.FieldAddr, *ssa.Field, *ssa.MapUpdate, *ssa.Lookup, *ssa.IndexAddr, *ssa.Store, *ssa.Index:
		return true
	}
	return false
}

func (L *LFacts) record(m map[ssa.Instruction][]LSite, ins ssa.Instruction, ctx *LCtx, h heldSet) {
	k := h.key()
	for _, s := range m[ins] {
		if s.Ctx == ctx && s.Held.key() == k {
			return
		}
	}
	m[ins] = append(m[ins], LSite{Ctx: ctx, Held: h.clone()})
}

// walk analyses fn under env e with entry held set; returns the context and whether it was a
// memo hit.
func (L *LFacts) walk(fn *ssa.Function, e *env, entry heldSet, parent *LCtx, depth int) (*LCtx, bool) {
	if fn.Blocks == nil {
		return nil, true
	}
	key := fn.String() + "|" + L.envKey(e, 0) + "|" + entry.key()
	if c := L.memo[key]; c != nil {
		if parent != nil {
			parent.Succ[c.ID] = true
		}
		return c, true
	}
	ctx := &LCtx{ID: len(L.Ctxs), Fn: fn, Entry: entry.clone(), Parent: parent, Succ: map[int]bool{}}
	if parent != nil {
		ctx.Root = parent.Root
		parent.Succ[ctx.ID] = true
	} else {
		ctx.Root = Short(originOf(fn).String())
		ctx.IsRoot = true
	}
	L.Ctxs = append(L.Ctxs, ctx)
	L.memo[key] = ctx
	L.walkCnt[fn]++
	if depth > 60 {
		return ctx, false
	}
	inLib := L.P.InLib(fn)

	// deferred unlocks run at the exits
	deferred := heldSet{}
	allInstrs(fn, func(ins ssa.Instruction) {
		if d, ok := ins.(*ssa.Defer); ok {
			if ops, ok := L.classifyLocks(&d.Call, fn); ok {
				for _, op := range ops {
					if !op.Acquire {
						deferred[op.Name+":"+string(op.Mode)] = true
					}
				}
			}
		}
	})

	in := make([]heldSet, len(fn.Blocks))
	in[0] = entry.clone()
	transfer := func(b *ssa.BasicBlock, h heldSet, visit bool) heldSet {
		h = h.clone()
		for _, ins := range b.Instrs {
			if visit && inLib && interesting(ins) {
				L.record(L.At, ins, ctx, h)
			}
			cc, isDefer, isGo := callCommon(ins)
			if cc == nil {
				if visit {
					if ret, ok := ins.(*ssa.Return); ok {
						end := h.clone()
						for k := range deferred {
							delete(end, k)
						}
						if end.key() != entry.key() && inLib {
							L.Unbal = append(L.Unbal, unbalanced{Ctx: ctx, Exit: ret, Entry: entry.key(), AtEnd: end.key()})
						}
					}
				}
				continue
			}
			if ops, ok := L.classifyLocks(cc, fn); ok {
				if isDefer {
					continue
				}
				for _, op := range ops {
					k := op.Name + ":" + string(op.Mode)
					if op.Acquire {
						if visit {
							for hk := range h {
								L.Acq = append(L.Acq, acqEdge{From: hk, To: k, Site: ins, Ctx: ctx})
							}
							if len(h) == 0 {
								L.Acq = append(L.Acq, acqEdge{From: "", To: k, Site: ins, Ctx: ctx})
							}
						}
						h[k] = true
					} else {
						delete(h, k)
					}
				}
				continue
			}
			if !visit {
				continue
			}
			hh := h
			if isGo {
				hh = heldSet{}
			}
			L.descend(ctx, fn, e, ins, cc, hh, depth)
		}
		return h
	}
	work := []*ssa.BasicBlock{fn.Blocks[0]}
	for len(work) > 0 {
		b := work[0]
		work = work[1:]
		out := transfer(b, in[b.Index], false)
		for i, s := range b.Succs {
			// a branch on a parameter that is a constant in this context has one feasible edge
			if iff, isIf := b.Instrs[len(b.Instrs)-1].(*ssa.If); isIf && len(b.Succs) == 2 {
				if val, known := constCond(iff.Cond, e, 0); known && (val != (i == 0)) {
					continue
				}
			}
			n := meetHeld(in[s.Index], out)
			if in[s.Index] == nil || n.key() != in[s.Index].key() {
				in[s.Index] = n
				work = append(work, s)
			}
		}
	}
	for _, b := range fn.Blocks {
		if in[b.Index] == nil {
			continue
		}
		transfer(b, in[b.Index], true)
	}
	return ctx, false
}

// descend resolves the callees of one call instruction and walks them.
func (L *LFacts) descend(ctx *LCtx, fn *ssa.Function, e *env, ins ssa.Instruction, cc *ssa.CallCommon, h heldSet, depth int) {
	var targets []*closure
	dynamic := false
	switch {
	case cc.IsInvoke() && !L.libIface(cc.Value.Type()):
		// Assumption A3: values of interface types declared outside the library (io.Writer,
		// io.Closer, encoding.BinaryMarshaler …) are supplied by the client and are not library
		// objects; the call is opaque. (CHA would otherwise resolve l.source.(io.Closer).Close()
		// inside (*Log).Close to (*Log).Close itself.)
	case cc.IsInvoke():
		if n := L.P.CHA.Nodes[fn]; n != nil {
			for _, ed := range n.Out {
				if ed.Site == ins && L.walkable(ed.Callee.Func) {
					targets = append(targets, &closure{fn: ed.Callee.Func, env: &env{fn: ed.Callee.Func}})
				}
			}
		}
	case cc.StaticCallee() != nil:
		if mc, ok := cc.Value.(*ssa.MakeClosure); ok {
			targets, _ = L.resolve(mc, e, 0)
		} else {
			sc := cc.StaticCallee()
			targets = []*closure{{fn: sc, env: &env{fn: sc}}}
		}
	default:
		if _, isBuiltin := cc.Value.(*ssa.Builtin); isBuiltin {
			return
		}
		dynamic = true
		cs, user := L.resolve(cc.Value, e, 0)
		targets = cs
		if user {
			L.record(L.UserCB, ins, ctx, h)
		}
		if len(cs) == 0 && !user {
			if n := L.P.VTA().Nodes[fn]; n != nil {
				for _, ed := range n.Out {
					if ed.Site == ins {
						targets = append(targets, &closure{fn: ed.Callee.Func, env: &env{fn: ed.Callee.Func}})
					}
				}
			}
			if len(targets) == 0 {
				L.Unres[ins] = true
			}
		}
	}
	_ = dynamic
	// function-typed arguments, resolved in the caller's environment
	type fnArg struct {
		idx  int
		cs   []*closure
		user bool
	}
	var fargs []fnArg
	for i, a := range cc.Args {
		if _, isFn := a.Type().Underlying().(*types.Signature); !isFn {
			continue
		}
		cs, user := L.resolve(a, e, 0)
		fargs = append(fargs, fnArg{i, cs, user})
	}
	walkedAny := false
	for _, t := range targets {
		if !L.walkable(t.fn) {
			continue
		}
		walkedAny = true
		te := t.env
		ne := &env{fn: t.fn, params: map[*ssa.Parameter][]*closure{}, free: te.free, parent: te.parent}
		off := 0
		if cc.IsInvoke() {
			off = 1 // receiver is a parameter of the callee but not in Args
		}
		for _, fa := range fargs {
			pi := fa.idx + off
			if pi >= len(t.fn.Params) {
				continue
			}
			if fa.user {
				continue // stays unbound: a client function all the way down
			}
			ne.params[t.fn.Params[pi]] = fa.cs
		}
		// constant (boolean, integer) arguments of library callees
		if L.P.InLib(t.fn) {
			for i, a := range cc.Args {
				pi := i + off
				if pi >= len(t.fn.Params) {
					break
				}
				var c *ssa.Const
				switch x := a.(type) {
				case *ssa.Const:
					c = x
				case *ssa.Parameter:
					if e != nil {
						c = e.consts[x]
					}
				}
				if c == nil || c.Value == nil || (c.Value.Kind() != constant.Bool && c.Value.Kind() != constant.Int) {
					continue
				}
				if ne.consts == nil {
					ne.consts = map[*ssa.Parameter]*ssa.Const{}
				}
				ne.consts[t.fn.Params[pi]] = c
			}
		}
		before := map[*ssa.Function]int{}
		for _, fa := range fargs {
			for _, c := range fa.cs {
				before[c.fn] = L.walkCnt[c.fn]
			}
		}
		_, hit := L.walk(t.fn, ne, h, ctx, depth+1)
		if !hit && !L.P.InLib(t.fn) {
			// A dependency body that neither invokes nor forwards its callback in a way the
			// environment can follow (bitmap.Filter re-types it through unsafe.Pointer): assume
			// it is invoked with the caller's held set.
			for _, fa := range fargs {
				for _, c := range fa.cs {
					if L.walkCnt[c.fn] == before[c.fn] {
						L.walk(c.fn, c.env, h, ctx, depth+1)
					}
				}
			}
		}
	}
	if !walkedAny {
		// opaque callee (standard library etc.): it may call the functions it is given
		for _, fa := range fargs {
			for _, c := range fa.cs {
				if L.walkable(c.fn) {
					L.walk(c.fn, c.env, h, ctx, depth+1)
				}
			}
		}
	}
}

// libIface: the interface type is declared in one of the library packages.
func (L *LFacts) libIface(t types.Type) bool {
	n, ok := t.(*types.Named)
	if !ok {
		if a, ok := t.(*types.Alias); ok {
			return L.libIface(types.Unalias(a))
		}
		return false
	}
	if n.Obj().Pkg() == nil {
		return false
	}
	pp := n.Obj().Pkg().Path()
	return pp == ModPath || pp == CommitPath
}

// computeMayLatch: functions that (transitively through static callees and nested closures)
// acquire the block latch.
func (L *LFacts) computeMayLatch() {
	L.mayLatch = map[*ssa.Function]bool{}
	direct := map[*ssa.Function][]*ssa.Function{}
	for fn := range L.P.All {
		if !L.walkable(fn) {
			continue
		}
		allInstrs(fn, func(ins ssa.Instruction) {
			if cc, _, _ := callCommon(ins); cc != nil {
				if op, ok := L.classifyLock(cc, fn); ok && op.Name == "latch" && op.Acquire {
					L.mayLatch[fn] = true
				}
				if sc := cc.StaticCallee(); sc != nil {
					direct[fn] = append(direct[fn], sc)
					// inside a generic body the callee is an instantiation over the body's own type
					// parameters, which stands for its origin
					if o := originOf(sc); o != sc {
						direct[fn] = append(direct[fn], o)
					}
				}
			}
			if mc, ok := ins.(*ssa.MakeClosure); ok {
				direct[fn] = append(direct[fn], mc.Fn.(*ssa.Function))
			}
		})
	}
	for changed := true; changed; {
		changed = false
		for fn, cs := range direct {
			if L.mayLatch[fn] {
				continue
			}
			for _, c := range cs {
				if L.mayLatch[c] {
					L.mayLatch[fn] = true
					changed = true
					break
				}
			}
		}
	}
}

// accessorTypes: Row plus the struct types exported Txn/Row methods hand out, and what they
// embed or contain by value (rwTTL contains rwInt64).
func (L *LFacts) computeAccessorTypes() {
	L.accessor = map[*types.Named]bool{}
	var add func(t types.Type)
	add = func(t types.Type) {
		n, ok := t.(*types.Named)
		if !ok {
			return
		}
		if n.Obj().Pkg() == nil || n.Obj().Pkg().Path() != ModPath {
			return
		}
		st, ok := n.Underlying().(*types.Struct)
		if !ok {
			return
		}
		if n.Obj().Name() == "Txn" || n.Obj().Name() == "Collection" {
			return
		}
		o := n.Origin()
		if L.accessor[o] {
			return
		}
		L.accessor[o] = true
		for i := 0; i < st.NumFields(); i++ {
			f := st.Field(i)
			ft := f.Type()
			if _, isPtr := ft.(*types.Pointer); isPtr {
				continue
			}
			add(ft)
		}
	}
	for _, tn := range []string{"Txn", "Row"} {
		n := L.P.NamedType("column", tn)
		if n == nil {
			continue
		}
		if tn == "Row" {
			add(n)
		}
		for _, recv := range []types.Type{n, types.NewPointer(n)} {
			ms := types.NewMethodSet(recv)
			for i := 0; i < ms.Len(); i++ {
				m := ms.At(i).Obj().(*types.Func)
				if !m.Exported() {
					continue
				}
				res := m.Type().(*types.Signature).Results()
				for j := 0; j < res.Len(); j++ {
					add(res.At(j).Type())
				}
			}
		}
	}
}

func recvNamed(fn *ssa.Function) *types.Named {
	if fn.Signature.Recv() == nil {
		return nil
	}
	t := fn.Signature.Recv().Type()
	if p, ok := t.(*types.Pointer); ok {
		t = p.Elem()
	}
	n, _ := t.(*types.Named)
	return n
}

// isColumnImplMethod: fn is method `name` of a library type that implements column.Column.
func (p *Prog) columnIface() *types.Interface {
	n := p.NamedType("column", "Column")
	if n == nil {
		return nil
	}
	i, _ := n.Underlying().(*types.Interface)
	return i
}

// RunLockset performs the whole-program walk.
func RunLockset(p *Prog) *LFacts {
	L := &LFacts{P: p, At: map[ssa.Instruction][]LSite{}, UserCB: map[ssa.Instruction][]LSite{},
		memo: map[string]*LCtx{}, walkCnt: map[*ssa.Function]int{}, Unres: map[ssa.Instruction]bool{},
		// commit.Log.lock is one abstract lock for two disjoint roles (DESIGN.md L8)
		roleSplit: map[string]map[string]string{"commit.Log.lock": {
			"(*commit.Log).Range": "reader", "(*commit.Log).Copy": "reader",
			"(*commit.Log).Append": "writer", "(*commit.Log).Close": "writer"}},
	}
	L.computeMayLatch()
	L.computeAccessorTypes()
	iface := p.columnIface()

	type root struct {
		fn    *ssa.Function
		entry heldSet
	}
	var roots []root
	for fn := range p.All {
		if fn.Blocks == nil || fn.Parent() != nil || !p.InLib(fn) {
			continue
		}
		if fn.Synthetic != "" && !strings.HasPrefix(fn.Synthetic, "instance of") {
			continue
		}
		obj := fn.Object()
		if obj == nil || !obj.Exported() {
			continue
		}
		rn := recvNamed(fn)
		switch {
		case rn == nil:
			roots = append(roots, root{fn, heldSet{}})
		case L.accessor[rn.Origin()]:
			// assumption A1: accessors run inside a callback the library invoked with the cursor
			// positioned under the block latch — unless they take the latch themselves.
			if L.mayLatch[fn] || L.mayLatch[originOf(fn)] {
				roots = append(roots, root{fn, heldSet{}})
			} else {
				roots = append(roots, root{fn, heldSet{"latch:R": true}})
			}
		case rn.Obj().Exported():
			// assumption A1, continued: a method of Txn that works at the cursor — it reads
			// Txn.cursor, takes no callback and does not latch by itself — is an accessor in all
			// but its receiver type (Txn.Index(), a presence test at the cursor): it runs inside a
			// callback the library invoked under the block latch
			if rn.Obj().Name() == "Txn" && !L.mayLatch[fn] && !L.mayLatch[originOf(fn)] && readsCursorOnly(L.P, fn) {
				roots = append(roots, root{fn, heldSet{"latch:R": true}})
			} else {
				roots = append(roots, root{fn, heldSet{}})
			}
		default:
			// Value/Contains of the library's own Column implementations: accessor context
			if iface != nil && (fn.Name() == "Value" || fn.Name() == "Contains") &&
				(types.Implements(types.NewPointer(rn), iface) || types.Implements(rn, iface)) {
				roots = append(roots, root{fn, heldSet{"latch:R": true}})
			}
		}
	}
	sort.Slice(roots, func(i, j int) bool { return roots[i].fn.String() < roots[j].fn.String() })
	for _, r := range roots {
		c, _ := L.walk(r.fn, &env{fn: r.fn, params: map[*ssa.Parameter][]*closure{}}, r.entry, nil, 0)
		if c != nil {
			c.IsRoot = true
			L.Roots = append(L.Roots, c)
		}
	}
	L.NCtx = len(L.Ctxs)
	return L
}

// readsCursorOnly: fn (and the library functions it calls directly) loads Txn.cursor, never stores
// it, and fn has no function-typed parameter.
func readsCursorOnly(p *Prog, fn *ssa.Function) bool {
	for _, par := range fn.Params {
		if _, isFn := par.Type().Underlying().(*types.Signature); isFn {
			return false
		}
	}
	reads, writes := false, false
	seen := map[*ssa.Function]bool{}
	var visit func(f *ssa.Function, depth int)
	visit = func(f *ssa.Function, depth int) {
		if f == nil || f.Blocks == nil || seen[f] || depth > 2 || !p.InLib(f) {
			return
		}
		seen[f] = true
		allInstrs(f, func(ins ssa.Instruction) {
			if fa, ok := ins.(*ssa.FieldAddr); ok {
				if fr, ok := fieldOf(fa); ok && fr.Struct == "column.Txn" && fr.Field == "cursor" {
					if fieldAddrIsWrite(fa) {
						writes = true
					} else {
						reads = true
					}
				}
			}
			if cc, _, _ := callCommon(ins); cc != nil {
				if sc := cc.StaticCallee(); sc != nil {
					visit(sc, depth+1)
				}
			}
		})
	}
	visit(fn, 0)
	return reads && !writes
}

// ReachAvoiding: can a context of function `target` (any env/held) be reached from any root
// context without passing through a context whose function satisfies avoid? Returns a witness.
func (L *LFacts) ReachAvoiding(from []*LCtx, isTarget func(*LCtx) bool, avoid func(*ssa.Function) bool) *LCtx {
	seen := map[int]bool{}
	prev := map[int]*LCtx{}
	var work []*LCtx
	for _, r := range from {
		if avoid != nil && avoid(r.Fn) {
			continue
		}
		if !seen[r.ID] {
			seen[r.ID] = true
			work = append(work, r)
		}
	}
	for len(work) > 0 {
		c := work[0]
		work = work[1:]
		if isTarget(c) {
			return c
		}
		ids := make([]int, 0, len(c.Succ))
		for id := range c.Succ {
			ids = append(ids, id)
		}
		sort.Ints(ids)
		for _, id := range ids {
			if seen[id] {
				continue
			}
			seen[id] = true
			n := L.Ctxs[id]
			if avoid != nil && avoid(n.Fn) {
				continue
			}
			prev[id] = c
			work = append(work, n)
		}
	}
	return nil
}

// SitesOf collects recorded sites for instructions selected by pred, over all library functions.
func (L *LFacts) SitesOf(pred func(ssa.Instruction) bool) map[ssa.Instruction][]LSite {
	out := map[ssa.Instruction][]LSite{}
	for ins, ss := range L.At {
		if pred(ins) {
			out[ins] = ss
		}
	}
	return out
}

// ReachFrom returns, for one root context, every reachable context with its BFS predecessor.
func (L *LFacts) ReachFrom(root *LCtx) map[int]int { return L.ReachFromAvoiding(root, nil) }

// ReachFromAvoiding: like ReachFrom, but contexts for which stop returns true are not expanded
// (they are reached, what lies below them only through other paths).
func (L *LFacts) ReachFromAvoiding(root *LCtx, stop func(*LCtx) bool) map[int]int {
	prev := map[int]int{root.ID: -1}
	work := []*LCtx{root}
	for len(work) > 0 {
		c := work[0]
		work = work[1:]
		if stop != nil && c != root && stop(c) {
			continue
		}
		ids := make([]int, 0, len(c.Succ))
		for id := range c.Succ {
			ids = append(ids, id)
		}
		sort.Ints(ids)
		for _, id := range ids {
			if _, ok := prev[id]; ok {
				continue
			}
			prev[id] = c.ID
			work = append(work, L.Ctxs[id])
		}
	}
	return prev
}

// PathIn renders the BFS path root → ctx from a ReachFrom result.
func (L *LFacts) PathIn(prev map[int]int, id int) []string {
	var rev []string
	for x := id; x >= 0; x = prev[x] {
		rev = append(rev, fnName(L.Ctxs[x].Fn))
		if prev[x] < 0 {
			break
		}
	}
	for i, j := 0, len(rev)-1; i < j; i, j = i+1, j-1 {
		rev[i], rev[j] = rev[j], rev[i]
	}
	return rev
}

// RootsOf: the names of all roots from which ctx is reachable in the context graph (ctx.Root is
// only the first discoverer).
func (L *LFacts) RootsOf(ctx *LCtx) []string {
	if L.rootsOf == nil {
		L.rootsOf = map[int]map[string]bool{}
		byID := map[int]*LCtx{}
		for _, c := range L.Ctxs {
			byID[c.ID] = c
		}
		for _, rt := range L.Roots {
			name := fnName(rt.Fn)
			seen := map[int]bool{rt.ID: true}
			work := []*LCtx{rt}
			for len(work) > 0 {
				c := work[len(work)-1]
				work = work[:len(work)-1]
				m := L.rootsOf[c.ID]
				if m == nil {
					m = map[string]bool{}
					L.rootsOf[c.ID] = m
				}
				m[name] = true
				for id := range c.Succ {
					if !seen[id] && byID[id] != nil {
						seen[id] = true
						work = append(work, byID[id])
					}
				}
			}
		}
	}
	return sortedKeys(L.rootsOf[ctx.ID])
}

// wrapSummary: a lock wrapper — an unexported, straight-line library helper that performs exactly
// one lock operation on a lock reached from its parameters and otherwise only computes (conversions,
// commit.ChunkAt, field loads). The operation's receiver and shard are named by parameter index so
// that a call of the wrapper can be read as the operation itself.
type wrapSummary struct {
	fn              *ssa.Function
	op              lockOp
	recvParam       int
	shardParam      int
	shardViaChunkAt bool           // shard = commit.ChunkAt(param)
	returnsShard    bool           // … and the wrapper returns that block number as its only result
	more            []*wrapSummary // further operations of the same helper, in order (lockChunk: latch, then mutex)
}

// mapped: the operation of summary o (w itself or one of w.more) as seen at the call cc in function in.
func (w *wrapSummary) mapped(o *wrapSummary, cc *ssa.CallCommon, in *ssa.Function) (lockOp, bool) {
	op := o.op
	op.Recv, op.Shard = nil, nil
	if o.recvParam >= 0 && o.recvParam < len(cc.Args) {
		op.Recv = cc.Args[o.recvParam]
	}
	switch {
	case o.shardParam >= 0 && o.shardParam < len(cc.Args) && !o.shardViaChunkAt:
		op.Shard = cc.Args[o.shardParam]
	case o.shardParam >= 0 && o.shardViaChunkAt && o.returnsShard:
		op.Shard = w.callValue(cc, in)
	}
	if op.Name == "latch" && op.Shard == nil {
		return lockOp{}, false // a latch operation whose shard cannot be named in the caller
	}
	return op, true
}

// classifyLocks: the lock operations a call stands for, in order — one for a lock method or a
// one-operation wrapper, several for a straight-line helper that operates several locks
// (lockChunk: latch then mutex).
func (L *LFacts) classifyLocks(cc *ssa.CallCommon, in *ssa.Function) ([]lockOp, bool) {
	if op, ok := L.classifyLock(cc, in); ok {
		return []lockOp{op}, true
	}
	sc := cc.StaticCallee()
	if sc == nil || cc.IsInvoke() {
		return nil, false
	}
	w := L.lockWrapper(sc)
	if w == nil || len(w.more) == 0 {
		return nil, false
	}
	var out []lockOp
	for _, o := range append([]*wrapSummary{w}, w.more...) {
		op, ok := w.mapped(o, cc, in)
		if !ok {
			return nil, false
		}
		out = append(out, op)
	}
	return out, true
}

// callValue: the call instruction (as a value) in function `in` whose CallCommon is cc.
func (w *wrapSummary) callValue(cc *ssa.CallCommon, in *ssa.Function) ssa.Value {
	var out ssa.Value
	if in == nil {
		return nil
	}
	allInstrs(in, func(ins ssa.Instruction) {
		if c, ok := ins.(*ssa.Call); ok && &c.Call == cc {
			out = c
		}
	})
	return out
}

func (L *LFacts) lockWrapper(fn *ssa.Function) *wrapSummary {
	fn = originOf(fn)
	if L.wrappers == nil {
		L.wrappers = map[*ssa.Function]*wrapSummary{}
	}
	if w, done := L.wrappers[fn]; done {
		return w
	}
	L.wrappers[fn] = nil // in progress / not a wrapper
	if !isHelper(fn) || len(fn.Blocks) != 1 || len(fn.AnonFuncs) > 0 {
		return nil
	}
	paramIdx := func(v ssa.Value) int {
		for i, p := range fn.Params {
			if p == v {
				return i
			}
		}
		return -1
	}
	// base parameter of an expression built from field addresses, loads and conversions
	var baseParam func(v ssa.Value, depth int) int
	baseParam = func(v ssa.Value, depth int) int {
		if depth > 6 {
			return -1
		}
		v = strip(v)
		if i := paramIdx(v); i >= 0 {
			return i
		}
		switch x := v.(type) {
		case *ssa.UnOp:
			if x.Op == token.MUL {
				return baseParam(x.X, depth+1)
			}
		case *ssa.FieldAddr:
			return baseParam(x.X, depth+1)
		case *ssa.Field:
			return baseParam(x.X, depth+1)
		}
		return -1
	}
	var inners []lockOp
	var chunkAt []*ssa.Call
	ok := true
	for _, ins := range fn.Blocks[0].Instrs {
		switch x := ins.(type) {
		case *ssa.Call:
			if op, isL := L.classifyLock(&x.Call, fn); isL {
				inners = append(inners, op)
				continue
			}
			if calleeIs(&x.Call, "commit.ChunkAt") {
				chunkAt = append(chunkAt, x)
				continue
			}
			ok = false
		case *ssa.Convert, *ssa.ChangeType, *ssa.FieldAddr, *ssa.Field, *ssa.Return, *ssa.DebugRef:
		case *ssa.UnOp:
			if x.Op != token.MUL {
				ok = false
			}
		default:
			ok = false
		}
	}
	if !ok || len(inners) == 0 || len(inners) > 3 {
		return nil
	}
	var all []*wrapSummary
	for k := range inners {
		inner := &inners[k]
		w := &wrapSummary{fn: fn, op: *inner, recvParam: -1, shardParam: -1}
		if inner.Recv != nil {
			w.recvParam = baseParam(inner.Recv, 0)
		}
		if inner.Shard != nil {
			sh := strip(inner.Shard)
			if i := paramIdx(sh); i >= 0 {
				w.shardParam = i
			} else if c, isC := sh.(*ssa.Call); isC && calleeIs(&c.Call, "commit.ChunkAt") {
				if i := paramIdx(strip(c.Call.Args[0])); i >= 0 {
					w.shardParam, w.shardViaChunkAt = i, true
					ret, _ := fn.Blocks[0].Instrs[len(fn.Blocks[0].Instrs)-1].(*ssa.Return)
					w.returnsShard = ret != nil && len(ret.Results) == 1 && strip(ret.Results[0]) == sh
				}
			}
		}
		if w.op.Name == "latch" && w.shardParam < 0 {
			return nil
		}
		all = append(all, w)
	}
	// one helper either acquires or releases: a helper that does both is an ordinary (balanced or
	// unbalanced) function and is walked
	for _, w := range all[1:] {
		if w.op.Acquire != all[0].op.Acquire {
			return nil
		}
	}
	all[0].more = all[1:]
	L.wrappers[fn] = all[0]
	return all[0]
}
