package colvet

import (
	"fmt"
	"go/token"
	"go/types"
	"sort"
	"strings"

	"golang.org/x/tools/go/ssa"
)

// Rules added after seed round 4.

// collectionWrites: the fields of column.Collection that fn writes — stores, sync/atomic
// stores/adds, mutating bitmap methods — in fn itself, its closures and the helpers it calls.
func collectionWrites(fn *ssa.Function) map[string]ssa.Instruction {
	out := map[string]ssa.Instruction{}
	add := func(v ssa.Value, ins ssa.Instruction) {
		if fr, ok := fieldOf(v); ok && fr.Struct == "column.Collection" && libStateField(fr) {
			if _, seen := out[fr.Field]; !seen {
				out[fr.Field] = ins
			}
		}
	}
	for _, f := range deepFuncs(fn) {
		allInstrs(f, func(ins ssa.Instruction) {
			switch x := ins.(type) {
			case *ssa.Store:
				add(x.Addr, ins)
				if ia, ok := x.Addr.(*ssa.IndexAddr); ok {
					if fr, ok := sliceOfField(ia.X); ok && fr.Struct == "column.Collection" {
						if _, seen := out[fr.Field]; !seen {
							out[fr.Field] = ins
						}
					}
				}
			case *ssa.Call:
				cc := &x.Call
				sc := cc.StaticCallee()
				if sc == nil || len(cc.Args) == 0 {
					return
				}
				n := Short(originOf(sc).String())
				if strings.HasPrefix(n, "sync/atomic.Store") || strings.HasPrefix(n, "sync/atomic.Add") || strings.HasPrefix(n, "sync/atomic.Swap") || strings.HasPrefix(n, "sync/atomic.CompareAndSwap") {
					add(cc.Args[0], ins)
				}
				if sc.Signature.Recv() != nil && isBitmap(sc.Signature.Recv().Type()) && bitmapMutators[baseName(sc)] {
					add(cc.Args[0], ins)
					if fr, ok := sliceOfField(bitmapRecv(cc.Args[0])); ok && fr.Struct == "column.Collection" {
						if _, seen := out[fr.Field]; !seen {
							out[fr.Field] = ins
						}
					}
				}
			}
		})
	}
	return out
}

// clearsFillBit: fn (deep) calls Bitmap.Remove on the collection's fill list.
func clearsFillBit(fn *ssa.Function) ssa.Instruction {
	var hit ssa.Instruction
	for _, f := range deepFuncs(fn) {
		allInstrs(f, func(ins ssa.Instruction) {
			cc, _, _ := callCommon(ins)
			if cc == nil || !methodOn(cc, "github.com/kelindar/bitmap", "Bitmap", "Remove") {
				return
			}
			if fr, ok := fieldOf(cc.Args[0]); ok && fr.Struct == "column.Collection" && fr.Field == "fill" {
				hit = ins
			}
		})
	}
	return hit
}

// ruleFillSiblings (C11.siblings): the functions that release a row offset — clear a bit of the
// collection's fill list — are siblings: commit of a Delete marker, rollback of a reserved insert,
// release after a failed insert. Whatever bookkeeping of the collection one of them maintains
// (the row counter today; a free-slot hint, a high-water mark tomorrow) all of them must maintain,
// or the allocator's picture of the free offsets goes wrong on the path through the odd one.
func ruleFillSiblings(r *Report) {
	defer ruleRecountAfterChange(r)
	h := r.Rule("C11.siblings", "S (sibling agreement)", "every function that clears a bit of the collection's fill list (commit of a Delete marker, rollback, release after a failed insert) writes the same set of Collection fields: allocator bookkeeping maintained by one releaser is maintained by all", 3)
	type sib struct {
		fn     *ssa.Function
		at     ssa.Instruction
		writes map[string]ssa.Instruction
	}
	var sibs []sib
	var fns []*ssa.Function
	for fn := range r.P.modFunc {
		if fn.Parent() != nil || fn.Origin() != nil || fn.Synthetic != "" || !r.P.inColumnPkg(fn) || isHelper(fn) {
			continue
		}
		fns = append(fns, fn)
	}
	sort.Slice(fns, func(i, j int) bool { return fnName(fns[i]) < fnName(fns[j]) })
	for _, fn := range fns {
		// only the function that contains the clearing (deep through helpers), not its callers
		if at := clearsFillBit(fn); at != nil {
			sibs = append(sibs, sib{fn, at, collectionWrites(fn)})
		}
	}
	union := map[string]string{}
	for _, s := range sibs {
		for f := range s.writes {
			if _, ok := union[f]; !ok {
				union[f] = fnName(s.fn)
			}
		}
	}
	for _, s := range sibs {
		var missing []string
		for f, who := range union {
			if _, ok := s.writes[f]; !ok {
				missing = append(missing, fmt.Sprintf("Collection.%s (maintained by %s)", f, who))
			}
		}
		sort.Strings(missing)
		h.Check(len(missing) == 0, fnName(s.fn), r.P.InstrPos(s.at), fmt.Sprintf("writes %v like its siblings", sortedKeys(s.writes)), "releases a row offset without maintaining "+strings.Join(missing, ", ")+": the allocator's bookkeeping disagrees with the fill list after this path")
	}
}

// ruleValueFilterOp (C04.ops/…WithValue/op): WithValue narrows the selection through the predicate
// over Value() alone. Its per-block step applies Bitmap.Filter to the selection slice and nothing
// else: intersecting with column.Index(chunk) first ("quick elimination", as the typed filters do
// with the presence bitmap) is wrong for computed columns, whose Index() is the set of rows where
// the rule is true while Value() is defined for every row.
func ruleValueFilterOp(r *Report) {
	h := r.Rule("C04.ops", "def-use", "", 10)
	fn := r.Anchor("(*column.Txn).WithValue")
	if fn == nil {
		return
	}
	var ops []string
	n := 0
	for _, c := range callsToDeep(fn, false, "(*column.Txn).rangeRead") {
		cc, _, _ := callCommon(c.Inner)
		fv, _ := normE(cc.Args[1], c.Env, false)
		body := asFunc(fv)
		if body == nil {
			continue
		}
		sel := cbParam(body, 1)
		if sel == nil {
			continue
		}
		n++
		deepVisitFrom(body, c.Env, func(ins, _ ssa.Instruction, env *venv) {
			call, _, _ := callCommon(ins)
			if call == nil {
				return
			}
			sc := call.StaticCallee()
			if sc == nil || sc.Signature.Recv() == nil || !isBitmap(sc.Signature.Recv().Type()) || !bitmapMutators[baseName(sc)] {
				return
			}
			recv, _ := normE(bitmapRecv(call.Args[0]), env, false)
			if sameExpr(recv, sel) || isLoadOf(recv, sel) || sameE(bitmapRecv(call.Args[0]), env, sel, nil, 0) {
				ops = append(ops, baseName(sc))
			}
		})
	}
	sort.Strings(ops)
	h.Check(n == 1 && strings.Join(ops, ",") == "Filter", "(*column.Txn).WithValue/op", r.P.Pos(fn.Pos()), "selection narrowed by Filter(predicate over Value) only", fmt.Sprintf("the per-block step of WithValue applies %v to the selection — expected exactly [Filter]: a column whose Index() is not its set of valued rows (a bitmap index: Value is defined for every row, Index only where the rule holds) loses the rows the predicate would accept", ops))
}

// ruleRestorePropagates (C13.propagate): a failure to read the state section is a failure of
// Restore. On every path of Restore on which readState returned a non-nil error, the value returned
// is that error (or something computed from it) — never nil, and never an error of a later step
// that may itself be nil. (A torn tail of the log section may be tolerated: whole commits before it
// were replayed. A torn state section may not: blocks are missing.)
func ruleRestorePropagates(r *Report) {
	h := r.Rule("C13.propagate", "P+X", "Restore fails whenever reading the state section failed: on every path on which readState returned a non-nil error, Restore returns that error", 1)
	fn := r.Anchor("(*column.Collection).Restore")
	if fn == nil {
		return
	}
	isStateErr := func(v ssa.Value) bool {
		ex, ok := v.(*ssa.Extract)
		if !ok {
			return false
		}
		c, ok := ex.Tuple.(*ssa.Call)
		return ok && calleeIs(&c.Call, "(*column.Collection).readState") && isErrorType(ex.Type())
	}
	found := false
	allInstrs(fn, func(ins ssa.Instruction) {
		if v, ok := ins.(ssa.Value); ok && isStateErr(v) {
			found = true
		}
	})
	if !found {
		for _, f := range deepFuncs(fn) {
			allInstrs(f, func(ins ssa.Instruction) {
				if v, ok := ins.(ssa.Value); ok && isStateErr(v) {
					found = true
				}
			})
		}
		if !found {
			h.Unknown("(*column.Collection).Restore/state-error", r.P.Pos(fn.Pos()), "the error result of readState is not visible in Restore")
			return
		}
	}
	var resolve func(ssa.Value) ssa.Value
	cfg := pathCfg{names: []string{"stateErr"}, leaf: func(c ssa.Value) (string, bool, bool) {
		if x, nonNil, ok := nilTest(c); ok && isStateErr(norm(x)) {
			return "stateErr", !nonNil, true
		}
		return "", false, false
	}, classify: func(ssa.Instruction) string { return "" },
		withResolve: func(f func(ssa.Value) ssa.Value) { resolve = f }}
	why := ""
	ok, w := evalPathsDeep(fn, cfg, func(as map[string]bool, _ []pathEvent, ret *ssa.Return) bool {
		if !as["stateErr"] || ret == nil || len(ret.Results) == 0 {
			return true
		}
		res := ret.Results[len(ret.Results)-1]
		if _, isLd := res.(*ssa.UnOp); isLd {
			if vals := cellStoresBefore(ret); len(vals) == len(ret.Results) {
				res = vals[len(vals)-1]
			}
		}
		v := res
		if resolve != nil {
			v = resolve(res)
		}
		if isStateErr(v) || dependsOn(v, isStateErr, 6) {
			return true
		}
		why = fmt.Sprintf("a path on which readState failed returns %s at %s", valueDesc(v), r.P.InstrPos(ret))
		return false
	})
	if why == "" {
		why = w
	}
	h.Check(ok, "(*column.Collection).Restore", r.P.Pos(fn.Pos()), "state error ⇒ returned", "Restore can return without the error of readState after reading the state section failed ("+why+"): a snapshot truncated inside the state section restores the blocks read so far and reports success")
}

func isErrorType(t interface{ String() string }) bool { return t.String() == "error" }

func valueDesc(v ssa.Value) string {
	if c, ok := v.(*ssa.Const); ok {
		if c.Value == nil {
			return "nil"
		}
		return c.Value.String()
	}
	return v.String()
}

// ruleFileHandles (C14.fd): every file the library opens is closed on every path, or handed on. For
// each call of an os opener (Open, OpenFile, Create, CreateTemp) in library code the *os.File
// either escapes — returned, stored, or passed to a library function, which then owns it (openFile
// stores it in the Log, whose Close closes it) — or, on every path on which the open succeeded,
// Close is called on it (directly or deferred) before the function returns. Passing the file to a
// function outside the library (io.Copy, io.LimitReader, bufio.NewReader) does not hand it on.
func ruleFileHandles(r *Report) {
	h := r.Rule("C14.fd", "P (typestate)", "every file opened by the library (os.Open/OpenFile/Create/CreateTemp) is closed on every path on which the open succeeded, unless it is returned, stored or passed to a library function that takes it over", 2)
	openers := map[string]bool{"os.Open": true, "os.OpenFile": true, "os.Create": true, "os.CreateTemp": true, "io/ioutil.TempFile": true}
	var fns []*ssa.Function
	for fn := range r.P.modFunc {
		if fn.Origin() == nil && r.P.InLib(fn) && fn.Blocks != nil {
			fns = append(fns, fn)
		}
	}
	sort.Slice(fns, func(i, j int) bool { return fnName(fns[i]) < fnName(fns[j]) })
	for _, fn := range fns {
		k := 0
		allInstrs(fn, func(ins ssa.Instruction) {
			call, ok := ins.(*ssa.Call)
			if !ok || !openers[calleeShort(&call.Call)] {
				return
			}
			k++
			key := fmt.Sprintf("%s/%s#%d", fnName(fn), calleeShort(&call.Call), k)
			// the tuple handed on as a whole: openFile(os.OpenFile(…))
			var file, errv ssa.Value
			escapes := false
			for _, ref := range *call.Referrers() {
				switch x := ref.(type) {
				case *ssa.Extract:
					if x.Index == 0 {
						file = x
					} else {
						errv = x
					}
				case *ssa.DebugRef:
				default:
					if cc, _, _ := callCommon(ref); cc != nil {
						if sc := cc.StaticCallee(); sc != nil && r.P.InLib(sc) {
							escapes = true
						}
					}
					if _, isRet := ref.(*ssa.Return); isRet {
						escapes = true
					}
				}
			}
			if file != nil && !escapes {
				escapes = fileEscapes(r.P, file, 0)
			}
			if escapes {
				h.OK(key, r.P.InstrPos(ins), "handed on (returned, stored or passed to a library function)")
				return
			}
			if file == nil {
				h.Bad(key, r.P.InstrPos(ins), "the opened file is dropped at once")
				return
			}
			isClose := func(i2 ssa.Instruction) bool {
				cc, _, isGo := callCommon(i2)
				if cc == nil || isGo || len(cc.Args) == 0 || !calleeIs(cc, "(*os.File).Close") {
					return false
				}
				return sameExpr(cc.Args[0], file)
			}
			cfg := pathCfg{names: []string{"failed"}, leaf: func(c ssa.Value) (string, bool, bool) {
				if x, nonNil, ok := nilTest(c); ok && errv != nil && norm(x) == errv {
					return "failed", !nonNil, true
				}
				return "", false, false
			}, classify: func(i2 ssa.Instruction) string {
				switch {
				case i2 == ins:
					return "open"
				case isClose(i2):
					return "close"
				}
				return ""
			}}
			where := ""
			ok2, why := evalPathsDeep(fn, cfg, func(as map[string]bool, ev []pathEvent, ret *ssa.Return) bool {
				if as["failed"] {
					return true
				}
				opened := false
				for _, e := range ev {
					switch e.Name {
					case "open":
						opened = true
					case "close":
						if opened {
							return true
						}
					}
				}
				if opened && ret != nil {
					where = r.P.InstrPos(ret)
				}
				return !opened
			})
			if where == "" {
				where = why
			}
			h.Check(ok2, key, r.P.InstrPos(ins), "closed on every path on which the open succeeded", "a file opened here is neither handed on nor closed on every path (exit at "+where+"): each pass through that path leaves an open descriptor behind")
		})
	}
}

// fileEscapes: the file value is returned, stored into memory other than a local variable, sent,
// captured by a closure or passed to a library function.
func fileEscapes(p *Prog, v ssa.Value, depth int) bool {
	if depth > 4 || v.Referrers() == nil {
		return false
	}
	for _, ref := range *v.Referrers() {
		switch x := ref.(type) {
		case *ssa.Return, *ssa.Send, *ssa.MakeClosure, *ssa.MapUpdate:
			return true
		case *ssa.Store:
			if x.Val == v {
				if al, isAl := x.Addr.(*ssa.Alloc); isAl && !al.Heap {
					continue
				}
				return true
			}
		case *ssa.MakeInterface, *ssa.ChangeInterface, *ssa.ChangeType, *ssa.Phi:
			if fileEscapes(p, x.(ssa.Value), depth+1) {
				return true
			}
		case *ssa.Call, *ssa.Defer, *ssa.Go:
			cc, _, _ := callCommon(ref)
			if sc := cc.StaticCallee(); sc != nil && p.InLib(sc) {
				return true
			}
		}
	}
	return false
}

// rulePeriodicCleanup (C17.periodic): the cleanup loop wakes up again after every pass, for ever.
// The loop of vacuum waits in a select for a time channel. A time.Ticker (or time.Tick, or a
// time.After evaluated anew in every iteration) fires periodically by itself; a time.Timer fires
// once and must be re-armed: then every path from the select back to the select — every way of
// completing an iteration — has to pass timer.Reset, or the first iteration that takes the other
// path parks the goroutine for good and no row of the collection expires any more.
func rulePeriodicCleanup(r *Report) {
	h := r.Rule("C17.periodic", "P", "the cleanup goroutine waits on a time source that fires again after every iteration of its loop: a Ticker, or a Timer that is Reset on every path from the select back to the select", 1)
	fn := r.Anchor("(*column.Collection).vacuum")
	if fn == nil {
		return
	}
	n := 0
	for _, f := range deepFuncs(fn) {
		allInstrs(f, func(ins ssa.Instruction) {
			sel, ok := ins.(*ssa.Select)
			if !ok {
				return
			}
			for _, st := range sel.States {
				ch := norm(st.Chan)
				kind, src := timeSource(ch)
				if kind == "" {
					continue
				}
				n++
				key := "(*column.Collection).vacuum/" + kind
				switch kind {
				case "Ticker", "Tick":
					h.OK(key, r.P.InstrPos(ins), "periodic by itself")
				case "After":
					// evaluated inside the loop: a fresh channel per iteration
					c := src.(*ssa.Call)
					inLoop := reachAvoiding(c.Block(), c.Block(), nil, nil) || c.Block() == sel.Block()
					h.Check(inLoop, key, r.P.InstrPos(ins), "time.After evaluated in every iteration", "the cleanup waits on a time.After channel created once outside its loop: it fires once")
				case "Timer":
					S := sel.Block()
					hasReset := func(b *ssa.BasicBlock) bool {
						hit := false
						for _, i2 := range b.Instrs {
							if cc, _, isGo := callCommon(i2); cc != nil && !isGo && calleeIs(cc, "(*time.Timer).Reset") && len(cc.Args) > 0 && sameExpr(cc.Args[0], src) {
								hit = true
							}
						}
						return hit
					}
					// an iteration that comes back to the select without passing Reset
					leak := false
					if !hasReset(S) {
						leak = reachAvoiding(S, S, func(b *ssa.BasicBlock) bool { return hasReset(b) }, nil)
					}
					h.Check(!leak, key, r.P.InstrPos(ins), "Timer re-armed on every path back to the select", "the cleanup waits on a time.Timer that is not Reset on every path from the select back to the select (a `continue`, an early branch): after the first iteration that takes such a path the timer never fires again and no row of the collection is ever expired")
				}
			}
		})
	}
	if n == 0 {
		h.Unknown("(*column.Collection).vacuum/source", r.P.Pos(fn.Pos()), "no select on a time channel recognised in the cleanup loop")
	}
}

// timeSource classifies a channel a select waits on: the C field of a *time.Ticker / *time.Timer,
// or the result of time.Tick / time.After.
func timeSource(ch ssa.Value) (string, ssa.Value) {
	if c, ok := ch.(*ssa.Call); ok {
		switch calleeShort(&c.Call) {
		case "time.Tick":
			return "Tick", c
		case "time.After":
			return "After", c
		}
		return "", nil
	}
	if fr, ok := loadedField(ch); ok && fr.Field == "C" {
		switch fr.Struct {
		case "time.Ticker":
			return "Ticker", fr.X
		case "time.Timer":
			return "Timer", fr.X
		}
	}
	return "", nil
}

// ---------------------------------------------------------------------------------------------
// Rules added after seed round 6 (changes that add no state).

// rulePairLoopCallsBack (C04.blocks/…rangeReadPair/every-block): rangeReadPair hands every block to
// its callback. Its callbacks are not all narrowing: Union joins (dst.Or(src)), so a block whose
// selection is empty *now* is exactly where rows have to be added; a fast path that skips such
// blocks is equivalent for With/Without and wrong for Union.
func rulePairLoopCallsBack(r *Report) {
	h := r.Rule("C04.blocks", "P", "", 3)
	fn := r.Anchor("(*column.Txn).rangeReadPair")
	if fn == nil {
		return
	}
	if len(callsToDeep(fn, false, "(*column.Txn).rangeRead")) > 0 {
		return // delegates the iteration: nothing of its own to skip
	}
	loops := pairLoops(r)
	pl := loops["(*column.Txn).rangeReadPair"]
	h.Check(pl != nil && pl.Calls > 0 && !pl.Skips, "(*column.Txn).rangeReadPair/every-block", r.P.Pos(fn.Pos()), "the callback is invoked in every iteration of the block loop", "an iteration of rangeReadPair's block loop can complete without invoking the callback (a `continue` for blocks whose selection is empty, say): Union, which adds rows through this loop, loses the rows of those blocks")
	// siblings found by shape: one that skips blocks does so on a test of the selection's block only
	// (that it is used for narrowing steps only is C04.ops)
	for _, n := range pairLoopNames(r) {
		if n == "(*column.Txn).rangeReadPair" {
			continue
		}
		sib := loops[n]
		h.Check(!sib.Skips || sib.SkipSel, n+"/every-block", r.P.Pos(sib.Fn.Pos()), "the callback is invoked in every iteration, or skipped on a test of the selection's block alone", "the block loop skips iterations on a condition that is not a test of the selection's block: blocks are left unfiltered")
	}
}

// ruleSerialisersReadOnly (C05.readonly): WriteTo does not write what it serialises. Neither
// Commit.WriteTo nor Buffer.WriteTo (helpers and closures included) stores into a field of the
// receiver, into an element of a slice held in such a field, or appends onto a reslice of one
// (`c.Updates[:0]` shares the backing array with the caller's slice: the transaction hands the same
// Updates slice to the logger once per block).
func ruleSerialisersReadOnly(r *Report) {
	h := r.Rule("C05.readonly", "def-use", "serialising leaves the value unchanged: WriteTo neither stores into the receiver's fields, nor into elements of its slices, nor appends onto a reslice of one of them", 2)
	for _, name := range []string{"(*commit.Commit).WriteTo", "(*commit.Buffer).WriteTo"} {
		fn := r.Anchor(name)
		if fn == nil || len(fn.Params) == 0 {
			continue
		}
		typ := "commit.Commit"
		if strings.Contains(name, "Buffer") {
			typ = "commit.Buffer"
		}
		bad := ""
		// slices that share memory with a field of the value being written
		fromField := func(v ssa.Value) bool {
			return dependsOnSlice(v, func(x ssa.Value) bool {
				fr, ok := loadedField(x)
				return ok && fr.Struct == typ
			}, 6)
		}
		for _, f := range deepFuncs(fn) {
			allInstrs(f, func(ins ssa.Instruction) {
				switch x := ins.(type) {
				case *ssa.Store:
					if fr, ok := fieldOf(x.Addr); ok && fr.Struct == typ {
						bad = fmt.Sprintf("%s stores into %s.%s", r.P.InstrPos(ins), typ, fr.Field)
					}
					if ia, ok := x.Addr.(*ssa.IndexAddr); ok && fromField(ia.X) {
						bad = fmt.Sprintf("%s stores into an element of a slice of the value", r.P.InstrPos(ins))
					}
				case *ssa.Call:
					if b, ok := x.Call.Value.(*ssa.Builtin); ok && b.Name() == "append" && len(x.Call.Args) > 0 && fromField(x.Call.Args[0]) {
						bad = fmt.Sprintf("%s appends onto (a reslice of) a slice of the value", r.P.InstrPos(ins))
					}
				}
			})
		}
		h.Check(bad == "", name, r.P.Pos(fn.Pos()), "the value is only read", "serialising modifies the value it serialises ("+bad+"): the caller's slice — shared between the per-block commits of one transaction — is rewritten while it is still in use")
	}
}

// dependsOnSlice: v is a slice value that shares its backing array with a value accepted by pred:
// the value itself, a reslice of it, a φ of such, or a local variable holding one.
func dependsOnSlice(v ssa.Value, pred func(ssa.Value) bool, depth int) bool {
	if depth < 0 || v == nil {
		return false
	}
	if pred(v) {
		return true
	}
	switch x := v.(type) {
	case *ssa.Slice:
		return dependsOnSlice(x.X, pred, depth-1)
	case *ssa.ChangeType:
		return dependsOnSlice(x.X, pred, depth-1)
	case *ssa.Phi:
		for _, e := range x.Edges {
			if e != v && dependsOnSlice(e, pred, depth-1) {
				return true
			}
		}
	case *ssa.Call:
		// append(s, …) shares with s while capacity lasts
		if b, ok := x.Call.Value.(*ssa.Builtin); ok && b.Name() == "append" && len(x.Call.Args) > 0 {
			return dependsOnSlice(x.Call.Args[0], pred, depth-1)
		}
	case *ssa.UnOp:
		if n := norm1(x); n != nil {
			return dependsOnSlice(n, pred, depth-1)
		}
		// a variable assigned several times (captured by a closure, so kept in a cell): any of the
		// values stored into it
		if x.Op == token.MUL {
			var cell ssa.Value
			switch a := x.X.(type) {
			case *ssa.Alloc:
				cell = a
			case *ssa.FreeVar:
				cell = freeVarValue1(a)
			}
			if al, ok := cell.(*ssa.Alloc); ok {
				for _, ref := range *al.Referrers() {
					if st, isSt := ref.(*ssa.Store); isSt && st.Addr == ssa.Value(al) && dependsOnSlice(st.Val, pred, depth-2) {
						return true
					}
				}
			}
		}
	}
	return false
}

// ruleVacuumVisitsEveryRow (C17.guard/…/every-row): the cleanup decides for every row it is handed
// whether the row is due: the per-row callback evaluates the expiry test on every path (no budget,
// counter or other early exit in front of it). The converse of C17.guard's "deletes only what is
// due": what is due is deleted, however many rows come before it.
func ruleVacuumVisitsEveryRow(r *Report) {
	h := r.Rule("C17.guard", "P", "", 4)
	vac := r.Anchor("(*column.Collection).vacuum")
	if vac == nil {
		return
	}
	var rowFn *ssa.Function
	var test ssa.Instruction
	for _, f := range deepFuncs(vac) {
		for _, c := range callsTo(f, false, "(column.rwTTL).ExpiresAt", "(column.rwTTL).TTL") {
			rowFn, test = f, c
		}
	}
	if rowFn == nil {
		h.Unknown("(*column.Collection).vacuum/every-row", r.P.Pos(vac.Pos()), "the expiry test of the cleanup's per-row callback was not found")
		return
	}
	// no return of the per-row function is reachable from its entry without passing the test
	ok := true
	var exit ssa.Instruction
	if test.Block() != rowFn.Blocks[0] {
		for _, ret := range returnsOf(rowFn) {
			if ret.Block() == rowFn.Blocks[0] || reachAvoiding(rowFn.Blocks[0], ret.Block(), func(x *ssa.BasicBlock) bool { return x == test.Block() }, nil) {
				ok, exit = false, ret
			}
		}
	}
	pos := r.P.InstrPos(test)
	if exit != nil {
		pos = r.P.InstrPos(exit)
	}
	h.Check(ok, "(*column.Collection).vacuum/every-row", pos, "the expiry test is evaluated for every row the cleanup visits", "the cleanup's per-row callback can return before it has tested whether the row is due (a budget, a counter, an early exit): rows behind the point where it starts doing so are never examined and never expire")
}

// ruleSnapshotComplete (C07.complete): a column's Snapshot writes every row that is present in the
// block. In each Snapshot implementation that iterates the block's presence bitmap, the per-row
// callback writes to the destination buffer on every path: presence and value are both rebuilt
// from this Put stream on restore (and by the back-fill of an index created later), so a row that
// is skipped because of its *value* — a zero, an empty string — comes back absent.
func ruleSnapshotComplete(r *Report) {
	h := r.Rule("C07.complete", "P", "every Snapshot implementation that iterates the presence bitmap of the block writes one operation for every present row: the per-row callback reaches a write to the destination buffer on every path (no value-dependent skip)", 3)
	var fns []*ssa.Function
	for fn := range r.P.modFunc {
		if fn.Origin() != nil || fn.Parent() != nil || fn.Synthetic != "" || fn.Name() != "Snapshot" || !r.P.inColumnPkg(fn) {
			continue
		}
		if fn.Signature.Recv() == nil || len(fn.Params) != 3 || !isNamed(fn.Params[2].Type(), CommitPath, "Buffer") {
			continue
		}
		fns = append(fns, fn)
	}
	sort.Slice(fns, func(i, j int) bool { return fnName(fns[i]) < fnName(fns[j]) })
	isWrite := func(ins ssa.Instruction) bool {
		cc, _, isGo := callCommon(ins)
		if cc == nil || isGo {
			return false
		}
		if sc := cc.StaticCallee(); sc != nil {
			if sc.Signature.Recv() != nil && isNamed(sc.Signature.Recv().Type(), CommitPath, "Buffer") && strings.HasPrefix(sc.Name(), "Put") {
				return true
			}
			return false
		}
		// the numeric kinds write through the function stored in the column (c.write(dst, idx, v))
		if fr, ok := loadedField(cc.Value); ok && fr.Field == "write" {
			return true
		}
		return false
	}
	putVal, _ := r.P.ConstVal("commit", "Put")
	for _, fn := range fns {
		// what a Snapshot writes is restored (and back-filled into a late index) by Apply: it is a Put
		var badOp ssa.Instruction
		nOp := 0
		for _, g := range deepFuncs(fn) { // closures handed to bitmap.Range included
			allInstrs(g, func(ins ssa.Instruction) {
				cc, _, _ := callCommon(ins)
				if cc == nil || len(cc.Args) < 2 || !isWrite(ins) || cc.StaticCallee() == nil || !isNamed(cc.Args[1].Type(), CommitPath, "OpType") {
					return
				}
				if k, isC := norm(cc.Args[1]).(*ssa.Const); isC && k.Value != nil {
					nOp++
					if k.Value.String() != putVal {
						badOp = ins
					}
				}
			})
		}
		if nOp > 0 {
			h.Check(badOp == nil, fnName(fn)+"/op", r.P.InstrPos(badOp), "the snapshot consists of Put operations", "this Snapshot writes an operation type other than Put: on restore the value goes through the column's merge function (or is deleted) instead of being stored")
		}
		for _, g := range deepFuncs(fn) {
			for _, rc := range callsWhere(g, func(_ ssa.Instruction, cc *ssa.CallCommon) bool {
				if !methodOn(cc, "github.com/kelindar/bitmap", "Bitmap", "Range") || len(cc.Args) != 2 {
					return false
				}
				if isStorageFill(cc.Args[0]) {
					return true
				}
				// a shared helper that is handed the presence bitmap by every caller
				if par, isPar := strip(cc.Args[0]).(*ssa.Parameter); isPar && par.Parent() != nil && isHelper(par.Parent()) {
					hf := originOf(par.Parent())
					uniqueCallOf(hf)
					idx := -1
					for i, q := range hf.Params {
						if q == par {
							idx = i
						}
					}
					sites := curProg.uniq[hf]
					all := idx >= 0 && len(sites) > 0
					for _, ci := range sites {
						if idx >= len(ci.Common().Args) || !isStorageFill(ci.Common().Args[idx]) {
							all = false
						}
					}
					return all
				}
				return false
			}) {
				cc, _, _ := callCommon(rc)
				row := asFunc(norm(cc.Args[1]))
				if row == nil || row.Blocks == nil {
					h.Unknown(fnName(fn)+"/rows", r.P.InstrPos(rc), "per-row callback of the presence iteration not recognised")
					continue
				}
				row = originOf(row)
				ok, exit := mustPassToReturn(row.Blocks[0], 0, isWrite)
				pos := r.P.InstrPos(rc)
				if exit != nil {
					pos = r.P.InstrPos(exit)
				}
				h.Check(ok, fnName(fn)+"/rows", pos, "one operation written for every present row", "the per-row callback of this Snapshot can return without writing the row to the destination buffer (a value-dependent skip): on restore — and when an index is back-filled — such rows come back without their presence bit and without their value")
			}
		}
	}
}

// ruleExtremeFold (C04.fold): Min and Max fold the per-block extremes of the blocks that *have* one.
// bitmap.Min/Max return (value, hit); whatever the aggregate remembers from that call — the value,
// the hit flag — is stored only on the path where hit is true: a block in which no selected row
// holds a value yields (0, false), and 0 is not a candidate.
func ruleExtremeFold(r *Report) {
	h := r.Rule("C04.fold", "P", "Min and Max take a block's result into account only when the block had one: every store of a value that comes from bitmap.Min/Max's results is on the path where its hit flag is true", 2)
	for _, agg := range []string{"Min", "Max"} {
		name := "(column.rdNumber[T])." + agg
		fn := r.Anchor(name)
		if fn == nil {
			continue
		}
		n, ok := 0, true
		var bad ssa.Instruction
		foldWhy := ""
		deepVisitC(fn, func(c ssa.Instruction, env *venv) {
			cc, _, _ := callCommon(c)
			if cc == nil {
				return
			}
			if nm := calleeNameE(cc, env); nm != "bitmap.Min" && nm != "bitmap.Max" {
				return
			}
			call, isCall := c.(*ssa.Call)
			if !isCall {
				return
			}
			n++
			var hit ssa.Value
			fromCall := func(v ssa.Value) bool {
				ex, isEx := v.(*ssa.Extract)
				return isEx && ex.Tuple == ssa.Value(call)
			}
			for _, ref := range *call.Referrers() {
				if ex, isEx := ref.(*ssa.Extract); isEx && ex.Index == 1 {
					hit = ex
				}
			}
			allInstrs(c.Parent(), func(ins ssa.Instruction) {
				st, isSt := ins.(*ssa.Store)
				if !isSt || !(fromCall(st.Val) || dependsOn(st.Val, fromCall, 4)) {
					return
				}
				// a spill of the tuple components into locals of the same block is not the fold
				if al, isAl := st.Addr.(*ssa.Alloc); isAl && !al.Heap && st.Block() == call.Block() {
					return
				}
				guarded := hit != nil && edgeGuarded(st.Block(), func(cond ssa.Value) (bool, bool) {
					return norm(cond) == hit || cond == hit, true
				})
				if !guarded {
					ok, bad = false, ins
				}
				// the fold itself: the result is replaced exactly when the block had a value and that
				// value is better than the extreme so far or there is none so far — the truth table of
				// the store's reachability over (hit, better, found-so-far)
				if !fromCall(st.Val) || hit == nil {
					return
				}
				var cmp *ssa.BinOp
				allInstrs(c.Parent(), func(i2 ssa.Instruction) {
					if bo, isB := i2.(*ssa.BinOp); isB && (fromCall(bo.X) || fromCall(bo.Y)) {
						switch bo.Op {
						case token.LSS, token.GTR, token.LEQ, token.GEQ:
							cmp = bo
						}
					}
				})
				// the comparison is between the block's result and the extreme so far (the cell the
				// result is stored into): `v < v` or `min < min` decide nothing
				isBest := func(v ssa.Value) bool {
					ld, isLd := strip(v).(*ssa.UnOp)
					return isLd && ld.Op == token.MUL && sameExpr(ld.X, st.Addr)
				}
				var cmpBest *ssa.BinOp
				allInstrs(c.Parent(), func(i2 ssa.Instruction) {
					if bo, isB := i2.(*ssa.BinOp); isB && (isBest(bo.X) || isBest(bo.Y)) {
						switch bo.Op {
						case token.LSS, token.GTR, token.LEQ, token.GEQ:
							cmpBest = bo
						}
					}
				})
				if cmp == nil && cmpBest != nil {
					ok, bad = false, cmpBest // the extreme so far is compared, but not with the block's result
				}
				if cmp != nil && (fromCall(cmp.X) && fromCall(cmp.Y) || (cmpBest != nil && !isBest(cmp.X) && !isBest(cmp.Y))) {
					ok, bad = false, cmp // the block's result is compared, but not with the extreme so far
				}
				// with a result in this block and an extreme already found, whether the result replaces
				// the extreme depends on a third thing (the comparison, wherever it is made): the store
				// is reachable on some path and avoidable on another (`hit && !ok` never replaces it
				// again, plain `hit` always does)
				{
					isFoundCell := func(v ssa.Value) bool {
						ld, isLd := v.(*ssa.UnOp)
						if !isLd || ld.Op != token.MUL {
							return false
						}
						b, isB := ld.Type().Underlying().(*types.Basic)
						return isB && b.Kind() == types.Bool
					}
					reach, feas := feasibleUnder(c.Parent(), func(v ssa.Value) (bool, bool) {
						switch {
						case v == hit || norm(v) == hit:
							return true, true
						case isFoundCell(v):
							return true, true
						}
						return false, false
					})
					avoidable := false
					seen := map[*ssa.BasicBlock]bool{}
					var dfs func(b *ssa.BasicBlock)
					dfs = func(b *ssa.BasicBlock) {
						if seen[b] || b == st.Block() {
							return
						}
						seen[b] = true
						if len(b.Instrs) > 0 {
							if _, isRet := b.Instrs[len(b.Instrs)-1].(*ssa.Return); isRet {
								avoidable = true
							}
						}
						for _, s2 := range b.Succs {
							if feas[cfgEdge{b, s2}] {
								dfs(s2)
							}
						}
					}
					dfs(call.Block()) // from where the block's result is known
					if !reach[st.Block()] || !avoidable {
						ok, bad = false, ins
					}
				}
				if cmp == nil {
					return
				}
				// direction: Max replaces when best < v, Min when v < best
				op, x, _, _, _ := canonBin(cmp)
				if (op == token.LSS || op == token.LEQ) && fromCall(x) != (agg == "Min") {
					ok, bad = false, cmp
				}
				isFound := func(v ssa.Value) bool {
					ld, isLd := v.(*ssa.UnOp)
					if !isLd || ld.Op != token.MUL {
						return false
					}
					b, isB := ld.Type().Underlying().(*types.Basic)
					return isB && b.Kind() == types.Bool
				}
				for m := 0; m < 8; m++ {
					H, C, K := m&1 != 0, m&2 != 0, m&4 != 0
					reach, _ := feasibleUnder(c.Parent(), func(v ssa.Value) (bool, bool) {
						switch {
						case v == hit || norm(v) == hit:
							return H, true
						case v == ssa.Value(cmp):
							return C, true
						case isFound(v):
							return K, true
						}
						return false, false
					})
					if reach[st.Block()] != (H && (C || !K)) {
						ok, bad = false, ins
						foldWhy = fmt.Sprintf(" (with hit=%v, better=%v, found-so-far=%v the result is %sreplaced)", H, C, K, map[bool]string{true: "", false: "not "}[reach[st.Block()]])
					}
				}
			})
		})
		pos := r.P.Pos(fn.Pos())
		if bad != nil {
			pos = r.P.InstrPos(bad)
		}
		_ = foldWhy
		h.Check(ok && n > 0, name, pos, "results of bitmap."+agg+" used only where hit", "the aggregate stores a result of bitmap."+agg+" on a path where its hit flag may be false: a block without a selected value contributes (0, false), which replaces the extreme found so far whenever 0 compares better")
	}
}

// ruleAccumulatorsFromZero (C04.fold/…/from-zero): Sum and Avg accumulate per block into variables
// that the per-block closure adds to; those variables start at zero.
func ruleAccumulatorsFromZero(r *Report) {
	h := r.Rule("C04.fold", "P", "", 2)
	for _, agg := range []string{"Sum", "Avg"} {
		name := "(column.rdNumber[T])." + agg
		fn := r.Anchor(name)
		if fn == nil {
			continue
		}
		n, bad := 0, ""
		allInstrs(fn, func(ins ssa.Instruction) {
			al, ok := ins.(*ssa.Alloc)
			if !ok || !al.Heap {
				return
			}
			// accumulated somewhere (a closure stores cell + something into it)?
			acc := false
			var inits []*ssa.Store
			var visit func(v ssa.Value, depth int)
			visit = func(v ssa.Value, depth int) {
				if depth > 3 {
					return
				}
				for _, ref := range *v.Referrers() {
					switch x := ref.(type) {
					case *ssa.Store:
						if x.Addr != v {
							continue
						}
						if bo, isB := x.Val.(*ssa.BinOp); isB && bo.Op == token.ADD {
							acc = true
						} else if x.Parent() == fn {
							inits = append(inits, x)
						} else {
							// a per-block closure that assigns instead of adding keeps the last block only
							acc = true
							bad = r.P.InstrPos(x) + " (assigned per block, not accumulated)"
						}
					case *ssa.MakeClosure:
						for i, b := range x.Bindings {
							if b == v {
								visit(x.Fn.(*ssa.Function).FreeVars[i], depth+1)
							}
						}
					}
				}
			}
			visit(al, 0)
			if !acc {
				return
			}
			n++
			for _, st := range inits {
				val := st.Val
				for {
					if mc, isMC := val.(*ssa.MultiConvert); isMC {
						val = mc.X
						continue
					}
					if cv, isCv := val.(*ssa.Convert); isCv {
						val = cv.X
						continue
					}
					break
				}
				if k, isC := constInt(val); isC && k != 0 {
					bad = r.P.InstrPos(st)
				} else if c, isC := val.(*ssa.Const); isC && c.Value != nil && c.Value.String() != "0" {
					bad = r.P.InstrPos(st)
				}
			}
		})
		h.Check(bad == "" && n > 0, name+"/from-zero", r.P.Pos(fn.Pos()), fmt.Sprintf("%d accumulators start at zero", n), "an accumulator of the aggregate starts from a value other than zero ("+bad+"): every result is off by it")
	}
}

// ruleCommitWritesOwnChunk (C06.own-chunk): a commit is the changes of one block. The Updates of a
// Commit are the buffers of the whole transaction (the same slice is handed to the logger once per
// block), so Commit.WriteTo has to select the sections of its own block: it reaches a buffer's
// sections and bytes only through Reader.Range(buffer, c.Chunk, …), or, where it reads
// Buffer.chunks / Buffer.buffer itself, under a branch that compares with c.Chunk.
func ruleCommitWritesOwnChunk(r *Report) {
	h := r.Rule("C06.own-chunk", "def-use", "Commit.WriteTo serialises the sections of its own block only: what it writes of a buffer's sections and bytes is reached through Reader.Range(buffer, c.Chunk, …), or written under a comparison with c.Chunk, or computed from a selection made with c.Chunk", 1)
	fn := r.Anchor("(*commit.Commit).WriteTo")
	if fn == nil || len(fn.Params) == 0 {
		return
	}
	isOwnChunk := func(v ssa.Value) bool {
		return dependsOn(v, func(x ssa.Value) bool {
			fr, ok := loadedField(x)
			return ok && fr.Struct == "commit.Commit" && fr.Field == "Chunk"
		}, 12)
	}
	isRaw := func(v ssa.Value) bool {
		return dependsOn(v, func(x ssa.Value) bool {
			fr, ok := loadedField(x)
			return ok && fr.Struct == "commit.Buffer" && (fr.Field == "buffer" || fr.Field == "chunks")
		}, 12)
	}
	guarded := func(b *ssa.BasicBlock) bool {
		for d := b.Idom(); d != nil; d = d.Idom() {
			if iff, ok := d.Instrs[len(d.Instrs)-1].(*ssa.If); ok && isOwnChunk(iff.Cond) {
				return true
			}
		}
		return false
	}
	bad := ""
	ranges, writes := 0, 0
	for _, f := range deepFuncs(fn) {
		if f.Signature.Recv() != nil {
			if n := structName(f.Signature.Recv().Type()); n == "commit.Reader" || n == "commit.Buffer" {
				continue // the selecting reader itself
			}
		}
		if f.Pkg == nil || !strings.HasSuffix(f.Pkg.Pkg.Path(), "/commit") {
			continue
		}
		allInstrs(f, func(ins ssa.Instruction) {
			cc, _, _ := callCommon(ins)
			if cc == nil {
				return
			}
			if calleeIs(cc, "(*commit.Reader).Range") && len(cc.Args) > 2 {
				ranges++
				if !isOwnChunk(cc.Args[2]) {
					bad = fmt.Sprintf("%s ranges over a block other than c.Chunk", r.P.InstrPos(ins))
				}
				return
			}
			sc := cc.StaticCallee()
			if sc == nil || sc.Signature.Recv() == nil || !isNamed(sc.Signature.Recv().Type(), "github.com/kelindar/iostream", "Writer") || !strings.HasPrefix(sc.Name(), "Write") {
				return
			}
			for _, a := range cc.Args[1:] {
				if _, isFn := a.Type().Underlying().(*types.Signature); isFn {
					continue // the callback of WriteRange: its writes are visited as such
				}
				if !isRaw(a) {
					continue
				}
				writes++
				if !isOwnChunk(a) && !guarded(ins.Block()) {
					bad = fmt.Sprintf("%s writes sections or bytes of a transaction-wide buffer that were not selected by c.Chunk", r.P.InstrPos(ins))
				}
			}
		})
	}
	h.Check(bad == "" && ranges+writes > 0, "(*commit.Commit).WriteTo", r.P.Pos(fn.Pos()), fmt.Sprintf("%d Reader.Range(buffer, c.Chunk, …) selections, %d direct writes selected by c.Chunk", ranges, writes), "Commit.WriteTo writes sections that do not belong to its block ("+bad+"): a buffer touched in another block of the same transaction is serialised into this commit and the replica applies it to the wrong block")
}

// ruleRangeCountAgrees (C05.count): WriteRange(n, func(i, w)) announces n entries and calls back for
// i in [0, n). Where n is the length of a slice and the callback selects its entry by i, both have
// to be the same slice: a count taken from a filtered copy with entries taken from the original
// writes the wrong entries and drops the last ones without an error.
func ruleRangeCountAgrees(r *Report) {
	h := r.Rule("C05.count", "def-use", "a counted group announces the length of the slice its callback indexes: WriteRange(len(s), func(i, w)) selects s[i], not an element of another slice", 2)
	var all []*ssa.Function
	for fn := range r.P.modFunc {
		all = append(all, fn)
	}
	sort.Slice(all, func(i, j int) bool { return fnName(all[i]) < fnName(all[j]) })
	for _, f := range all {
		fn := f
		for fn.Parent() != nil {
			fn = fn.Parent()
		}
		{
			allInstrs(f, func(ins ssa.Instruction) {
				cc, _, _ := callCommon(ins)
				if cc == nil || !calleeIs(cc, "(*iostream.Writer).WriteRange") || len(cc.Args) < 3 {
					return
				}
				key := fnName(fn)
				ln, isCall := norm(cc.Args[1]).(*ssa.Call)
				if !isCall {
					h.OK(key, r.P.InstrPos(ins), "the count is not the length of a slice")
					return
				}
				b, isB := ln.Call.Value.(*ssa.Builtin)
				cb := asFunc(norm(cc.Args[2]))
				if !isB || b.Name() != "len" || cb == nil {
					h.OK(key, r.P.InstrPos(ins), "the count is not the length of a slice")
					return
				}
				idx := cbParam(cb, 0)
				n, bad := 0, ""
				for _, g := range deepFuncs(cb) {
					allInstrs(g, func(in2 ssa.Instruction) {
						ia, ok := in2.(*ssa.IndexAddr)
						if !ok || idx == nil || !sameExpr(ia.Index, idx) {
							return
						}
						n++
						if !sameExpr(ia.X, ln.Call.Args[0]) {
							bad = r.P.InstrPos(in2)
						}
					})
				}
				h.Check(bad == "", key, r.P.InstrPos(ins), fmt.Sprintf("%d selections by the callback index, all from the counted slice", n), "the group announces the length of one slice and its callback indexes another ("+bad+"): entries are written for the wrong elements and the tail of the indexed slice is dropped without an error")
			})
		}
	}
}

// equalEdge: b lies on the edge of a comparison accepted by isCmp on which its two operands are
// equal (true edge of ==, false edge of !=); unequalEdge the other one.
func onCmpEdge(b *ssa.BasicBlock, isCmp func(x, y ssa.Value) bool, equal bool) bool {
	return edgeGuarded(b, func(c ssa.Value) (bool, bool) {
		bo, ok := c.(*ssa.BinOp)
		if !ok || (bo.Op != token.EQL && bo.Op != token.NEQ) || !isCmp(bo.X, bo.Y) {
			return false, false
		}
		return true, (bo.Op == token.EQL) == equal
	})
}

// ruleDeleteIndexBody (C03.register/(*columns).DeleteIndex/filter): detaching a computed column
// rewrites the list of exactly the target column's entry to its main column plus every computed
// column other than the one being dropped.
func ruleDeleteIndexBody(r *Report) {
	h := r.Rule("C03.register", "S", "", 0)
	fn := r.Anchor("(*column.columns).DeleteIndex")
	if fn == nil || len(fn.Params) < 3 {
		return
	}
	key := "(*column.columns).DeleteIndex/filter"
	why := ""
	// the store of the new list into the entry
	var store *ssa.Store
	for _, g := range deepFuncs(fn) {
		allInstrs(g, func(ins ssa.Instruction) {
			if st, ok := ins.(*ssa.Store); ok {
				if fr, ok := fieldOf(st.Addr); ok && fr.Struct == "column.columnEntry" && fr.Field == "cols" {
					store = st
				}
			}
		})
	}
	// a value of a helper seen from the function that calls it
	resolve := func(v ssa.Value) ssa.Value {
		for i := 0; i < 4; i++ {
			n := norm(v)
			p, ok := n.(*ssa.Parameter)
			if !ok {
				return n
			}
			a := paramArg(p)
			if a == nil {
				return n
			}
			v = a
		}
		return norm(v)
	}
	if store == nil {
		h.Bad(key, r.P.Pos(fn.Pos()), "the filtered list is not stored back into the target column's entry: the computed column stays attached")
		return
	}
	isName := func(x, y ssa.Value) bool {
		nm := func(v ssa.Value) bool {
			fr, ok := loadedField(v)
			if ok && fr.Struct == "column.columnEntry" && fr.Field == "name" {
				return true
			}
			if f, ok := strip(v).(*ssa.Field); ok {
				if fr, ok := fieldOf(f); ok && fr.Field == "name" {
					return true
				}
			}
			return false
		}
		return (nm(x) && sameExpr(resolve(y), fn.Params[1])) || (nm(y) && sameExpr(resolve(x), fn.Params[1]))
	}
	if !onCmpEdge(store.Block(), isName, true) {
		why = "the list is rewritten for entries other than the target column's (the name test is missing or inverted)"
	}
	// entries that do not match are skipped, not the end of the search
	for _, b := range store.Parent().Blocks {
		iff, ok := b.Instrs[len(b.Instrs)-1].(*ssa.If)
		if !ok {
			continue
		}
		bo, ok := iff.Cond.(*ssa.BinOp)
		if !ok || (bo.Op != token.EQL && bo.Op != token.NEQ) || !isName(bo.X, bo.Y) {
			continue
		}
		ne := b.Succs[0]
		if bo.Op == token.EQL {
			ne = b.Succs[1]
		}
		if ne != b && !reachAvoiding(ne, b, nil, nil) {
			why = "the search for the target column's entry ends at the first entry with another name"
		}
	}
	// what is appended: element 0 unconditionally, the elements of [1:] unless equal to the dropped one
	main, rest := false, false
	var all []ssa.Instruction
	for _, g := range deepFuncs(fn) {
		allInstrs(g, func(ins ssa.Instruction) { all = append(all, ins) })
	}
	each := func(f func(ssa.Instruction)) {
		for _, ins := range all {
			f(ins)
		}
	}
	each(func(ins ssa.Instruction) {
		c, ok := ins.(*ssa.Call)
		if !ok {
			return
		}
		if b, isB := c.Call.Value.(*ssa.Builtin); !isB || b.Name() != "append" || len(c.Call.Args) < 2 {
			return
		}
		if !dependsOn(store.Val, func(z ssa.Value) bool { return z == ssa.Value(c) }, 8) {
			return
		}
		// the appended element(s): a one-element slice literal
		var elem ssa.Value
		dependsOn(c.Call.Args[1], func(z ssa.Value) bool {
			if st, ok := z.(*ssa.Alloc); ok {
				for _, ref := range *st.Referrers() {
					if ia, ok := ref.(*ssa.IndexAddr); ok {
						for _, r2 := range *ia.Referrers() {
							if s2, ok := r2.(*ssa.Store); ok && s2.Addr == ssa.Value(ia) {
								elem = s2.Val
							}
						}
					}
				}
			}
			return false
		}, 4)
		if elem == nil {
			return
		}
		ld, ok := strip(elem).(*ssa.UnOp)
		if !ok {
			return
		}
		ia, ok := ld.X.(*ssa.IndexAddr)
		if !ok {
			return
		}
		if k, isC := constInt(ia.Index); isC && k == 0 {
			main = true
			return
		}
		// an element of a reslice from 1
		if sl, ok := strip(ia.X).(*ssa.Slice); ok {
			if lo, isC := constInt(sl.Low); !isC || lo != 1 {
				why = "the list of computed columns is taken from an index other than 1: the main column is treated as a computed one (applied twice), or a computed column is lost"
			}
		}
		isDropped := func(x, y ssa.Value) bool {
			dr := func(v ssa.Value) bool {
				cl, ok := extractOf(resolve(v), 0)
				return ok && calleeIs(&cl.Call, "(*column.columns).Load") && sameExpr(cl.Call.Args[1], fn.Params[2])
			}
			return (dr(x) && sameExpr(y, elem)) || (dr(y) && sameExpr(x, elem))
		}
		if onCmpEdge(c.Block(), isDropped, false) {
			rest = true
		} else {
			why = "a computed column is kept on another condition than being different from the one that is dropped"
		}
	})
	if why == "" && !(main && rest) {
		why = "the new list is not the main column followed by the computed columns other than the dropped one"
	}
	h.Check(why == "", key, r.P.InstrPos(store), "entry[column].cols = [main] + [x in cols[1:] if x != dropped]", "detaching a computed column does not rewrite the target column's list as it should ("+why+"): the dropped index or trigger keeps receiving the column's updates, or another computed column stops receiving them")
}

// ruleTypedFilterScan (C04.ops/…/scan): a typed value filter hands every block of the selection to the
// column's filter of the matching type, with the block, the block's selection and the caller's predicate.
func ruleTypedFilterScan(r *Report) {
	h := r.Rule("C04.ops", "def-use", "", 10)
	want := map[string]string{
		"(*column.Txn).WithFloat":  "FilterFloat64",
		"(*column.Txn).WithInt":    "FilterInt64",
		"(*column.Txn).WithUint":   "FilterUint64",
		"(*column.Txn).WithString": "FilterString",
	}
	for _, name := range sortedKeys(want) {
		fn := r.Anchor(name)
		if fn == nil || len(fn.Params) < 3 {
			continue
		}
		ok := false
		for _, c := range callsToDeep(fn, false, "(*column.Txn).rangeRead") {
			cc, _, _ := callCommon(c.Inner)
			cb := asFunc(norm(cc.Args[1]))
			if cb == nil || cbParam(cb, 0) == nil || cbParam(cb, 1) == nil {
				continue
			}
			deepVisitFrom(cb, c.Env, func(ins, _ ssa.Instruction, env *venv) {
				c2, _, _ := callCommon(ins)
				if c2 == nil || len(c2.Args) < 3 {
					return
				}
				nm := ""
				if c2.IsInvoke() {
					nm = c2.Method.Name()
				} else if sc := c2.StaticCallee(); sc != nil {
					nm = baseName(sc)
				}
				if nm != want[name] {
					return
				}
				args := c2.Args
				if !c2.IsInvoke() {
					args = args[1:] // static call: the receiver comes first
				}
				if len(args) < 3 {
					return
				}
				if sameE(args[0], env, cbParam(cb, 0), nil, 0) && sameE(args[1], env, cbParam(cb, 1), nil, 0) && sameE(args[2], env, fn.Params[2], nil, 0) {
					ok = true
				}
			})
		}
		h.Check(ok, name+"/scan", r.P.Pos(fn.Pos()), "column."+want[name]+"(block, selection-of-block, predicate) for every block", "the filter does not hand each block's selection and the caller's predicate to the column's "+want[name]+": the selection is left as it was (the filter selects rows the predicate rejects)")
	}
}

// ruleInitializeFirst (C04.init): the selection of a transaction is created lazily (initialize()
// copies the fill list into Txn.index on first use); every exported operation that reads or narrows
// the selection calls initialize() before anything that touches Txn.index, else it works on the
// empty (or stale, pooled) index.
func ruleInitializeFirst(r *Report) {
	h := r.Rule("C04.init", "P", "every exported operation that touches the transaction's selection calls initialize() before the first access to it (directly, or by going through another exported operation that does)", 10)
	init := r.Anchor("(*column.Txn).initialize")
	if init == nil {
		return
	}
	touches := map[*ssa.Function]bool{}
	touchesIndex := func(f *ssa.Function) bool {
		if v, ok := touches[f]; ok {
			return v
		}
		touches[f] = false
		res := false
		for _, g := range deepFuncs(f) {
			if originOf(g) == init {
				continue
			}
			allInstrs(g, func(ins ssa.Instruction) {
				if fa, ok := ins.(*ssa.FieldAddr); ok {
					if fr, ok := fieldOf(fa); ok && fr.Struct == "column.Txn" && fr.Field == "index" {
						res = true
					}
				}
			})
		}
		touches[f] = res
		return res
	}
	var fns []*ssa.Function
	for fn := range r.P.modFunc {
		if fn.Parent() != nil || fn.Synthetic != "" || fn.Origin() != nil || !token.IsExported(fn.Name()) || fn == init {
			continue
		}
		if !r.P.inColumnPkg(fn) || fn.Signature.Recv() == nil {
			continue
		}
		if rn := structName(fn.Signature.Recv().Type()); rn == "column.Collection" {
			continue // goes through Query: the transaction's operations are the subjects
		}
		fns = append(fns, fn)
	}
	sort.Slice(fns, func(i, j int) bool { return fnName(fns[i]) < fnName(fns[j]) })
	subject := map[*ssa.Function]bool{}
	for _, fn := range fns {
		if touchesIndex(fn) {
			subject[fn] = true
		}
	}
	for _, fn := range fns {
		if !subject[fn] {
			continue
		}
		var inits, uses []ssa.Instruction
		allInstrs(fn, func(ins ssa.Instruction) {
			if fa, ok := ins.(*ssa.FieldAddr); ok {
				if fr, ok := fieldOf(fa); ok && fr.Struct == "column.Txn" && fr.Field == "index" {
					uses = append(uses, ins)
				}
				return
			}
			cc, _, _ := callCommon(ins)
			if cc == nil {
				// a closure that touches the selection counts where it is made
				if mc, ok := ins.(*ssa.MakeClosure); ok && touchesIndex(mc.Fn.(*ssa.Function)) {
					uses = append(uses, ins)
				}
				return
			}
			sc := cc.StaticCallee()
			if sc == nil {
				return
			}
			o := originOf(sc)
			switch {
			case o == init || initialisesAtEntry(o, init, 0):
				inits = append(inits, ins)
			case subject[o]:
				// goes through an exported operation that initialises itself
			case isHelper(sc) && touchesIndex(o):
				uses = append(uses, ins)
			}
		})
		ok := true
		var bad ssa.Instruction
		for _, u := range uses {
			dom := false
			for _, i := range inits {
				if precedes(i, u) {
					dom = true
				}
			}
			// … or on the edge on which the transaction's `setup` flag is already set
			if !dom && edgeGuarded(u.Block(), func(c ssa.Value) (bool, bool) {
				if fr, ok := loadedField(c); ok && fr.Struct == "column.Txn" && fr.Field == "setup" {
					return true, true
				}
				return false, false
			}) {
				dom = true
			}
			if !dom {
				ok, bad = false, u
			}
		}
		pos := r.P.Pos(fn.Pos())
		if bad != nil {
			pos = r.P.InstrPos(bad)
		}
		h.Check(ok, fnName(fn), pos, fmt.Sprintf("initialize() precedes %d uses of the selection", len(uses)), "the operation touches the transaction's selection before initialize() has created it: as the first operation of a transaction it works on an empty (or a pooled transaction's stale) selection")
	}
}

// ruleHeaderRecord (C05.header/record): the fixed-size record that Buffer.WriteTo writes per section
// header and readChunksFrom reads back: every field of `header` is encoded and decoded, at the same
// byte range on both sides, and the ranges do not overlap.
func ruleHeaderRecord(r *Report) {
	h := r.Rule("C05.header", "S", "", 0)
	wfn, rfn := r.Anchor("(*commit.Buffer).WriteTo"), r.Anchor("commit.readChunksFrom")
	if wfn == nil || rfn == nil {
		return
	}
	type rng struct{ lo, hi int64 }
	sliceRange := func(v ssa.Value) (rng, bool) {
		sl, ok := strip(v).(*ssa.Slice)
		if !ok {
			return rng{}, false
		}
		lo, hi := int64(0), int64(-1)
		if sl.Low != nil {
			k, isC := constInt(sl.Low)
			if !isC {
				return rng{}, false
			}
			lo = k
		}
		if sl.High != nil {
			k, isC := constInt(sl.High)
			if !isC {
				return rng{}, false
			}
			hi = k
		}
		// the bytes moved are the primitive's own width (Uint32/PutUint32: four) from the start of the
		// slice; an upper bound beyond that, or none, changes nothing
		if hi == -1 || hi >= lo+4 {
			hi = lo + 4
		}
		return rng{lo, hi}, true
	}
	headerField := func(v ssa.Value) string {
		name := ""
		dependsOn(v, func(z ssa.Value) bool {
			if fr, ok := loadedField(z); ok && fr.Struct == "commit.header" {
				name = fr.Field
				return true
			}
			if f, ok := z.(*ssa.Field); ok {
				if fr, ok := fieldOf(f); ok && fr.Struct == "commit.header" {
					name = fr.Field
					return true
				}
			}
			return false
		}, 5)
		return name
	}
	enc, dec := map[string]rng{}, map[string]rng{}
	for _, f := range deepFuncs(wfn) {
		allInstrs(f, func(ins ssa.Instruction) {
			cc, _, _ := callCommon(ins)
			if cc == nil || !strings.HasSuffix(calleeShort(cc), ".PutUint32") || len(cc.Args) < 3 {
				return
			}
			if rg, ok := sliceRange(cc.Args[1]); ok {
				if fld := headerField(cc.Args[2]); fld != "" {
					enc[fld] = rg
				}
			}
		})
	}
	for _, f := range deepFuncs(rfn) {
		allInstrs(f, func(ins ssa.Instruction) {
			st, ok := ins.(*ssa.Store)
			if !ok {
				return
			}
			fr, ok := fieldOf(st.Addr)
			if !ok || fr.Struct != "commit.header" {
				return
			}
			dependsOn(st.Val, func(z ssa.Value) bool {
				c, isC := z.(*ssa.Call)
				if !isC || !strings.HasSuffix(calleeShort(&c.Call), ".Uint32") || len(c.Call.Args) < 2 {
					return false
				}
				if rg, ok := sliceRange(c.Call.Args[1]); ok {
					dec[fr.Field] = rg
				}
				return true
			}, 4)
		})
	}
	why := ""
	var fields []string
	if nt := r.P.NamedType("commit", "header"); nt != nil {
		if st, ok := nt.Underlying().(*types.Struct); ok {
			for i := 0; i < st.NumFields(); i++ {
				fields = append(fields, st.Field(i).Name())
			}
		}
	}
	for _, f := range fields {
		e, okE := enc[f]
		d, okD := dec[f]
		switch {
		case !okE:
			why = "field " + f + " is not encoded"
		case !okD:
			why = "field " + f + " is not decoded"
		case e != d:
			why = fmt.Sprintf("field %s is encoded at bytes [%d:%d] and decoded from [%d:%d]", f, e.lo, e.hi, d.lo, d.hi)
		}
		for _, g := range fields {
			if g != f && okE && enc[g].lo < e.hi && e.lo < enc[g].hi {
				if _, ok := enc[g]; ok {
					why = "fields " + f + " and " + g + " are encoded at overlapping bytes"
				}
			}
		}
	}
	h.Check(why == "" && len(fields) > 0, "header-record", r.P.Pos(wfn.Pos()), fmt.Sprintf("%d fields encoded and decoded at matching byte ranges", len(fields)), "the per-section header record is not encoded and decoded field by field at matching byte ranges ("+why+"): a buffer with more than one section reads back with the wrong start or base offset")
}

// ruleRecorderInstalled (C14.pair/…recorderOpen/install, C14.fd/(*commit.Log).Close): the recorder is
// installed (the compare-and-swap on Collection.record) exactly when the temporary log was opened
// without error; Log.Close closes the underlying file when it is a Closer.
func ruleRecorderInstalled(r *Report) {
	h := r.Rule("C14.pair", "P", "", 0)
	if fn := r.Anchor("(*column.Collection).recorderOpen"); fn != nil {
		var cas ssa.Instruction
		allInstrs(fn, func(ins ssa.Instruction) {
			if cc, _, _ := callCommon(ins); cc != nil && strings.HasPrefix(calleeShort(cc), "sync/atomic.CompareAndSwap") {
				cas = ins
			}
		})
		ok := cas != nil && onCmpEdge(cas.Block(), func(x, y ssa.Value) bool {
			isErr := func(v ssa.Value) bool {
				cl, ok := extractOf(norm(v), 1)
				return ok && calleeIs(&cl.Call, "commit.OpenTemp")
			}
			return (isErr(x) && isConstNil(y)) || (isErr(y) && isConstNil(x))
		}, true)
		pos := r.P.Pos(fn.Pos())
		if cas != nil {
			pos = r.P.InstrPos(cas)
		}
		h.Check(ok, "(*column.Collection).recorderOpen/install", pos, "the recorder is installed on the edge on which OpenTemp returned no error", "the snapshot's recorder is not installed when the temporary log was opened successfully (or is installed when it was not): the commits applied while the snapshot runs are recorded nowhere and the snapshot reports success")
	}
	if fn := r.Anchor("(*commit.Log).Close"); fn != nil {
		ok := false
		allInstrs(fn, func(ins ssa.Instruction) {
			cc, _, _ := callCommon(ins)
			if cc == nil || !cc.IsInvoke() || cc.Method.Name() != "Close" {
				return
			}
			ok = edgeGuarded(ins.Block(), func(c ssa.Value) (bool, bool) {
				if ex, isEx := c.(*ssa.Extract); isEx && ex.Index == 1 {
					if _, isTA := ex.Tuple.(*ssa.TypeAssert); isTA {
						return true, true
					}
				}
				return false, false
			})
		})
		h.Check(ok, "(*commit.Log).Close", r.P.Pos(fn.Pos()), "closes the source when it is a Closer", "Log.Close does not close the underlying file: every snapshot leaves a descriptor open")
	}
}

// initialisesAtEntry: the helper calls init (or a helper that does) on every path, before anything
// else of its own that could matter: the call sits in a block that dominates every return and no
// access to Txn.index precedes it.
func initialisesAtEntry(f, init *ssa.Function, depth int) bool {
	if f == nil || len(f.Blocks) == 0 || depth > 2 || !isHelper(f) {
		return false
	}
	var site ssa.Instruction
	allInstrs(f, func(ins ssa.Instruction) {
		if site != nil {
			return
		}
		if cc, _, _ := callCommon(ins); cc != nil {
			if sc := cc.StaticCallee(); sc != nil {
				if o := originOf(sc); o == init || initialisesAtEntry(o, init, depth+1) {
					site = ins
				}
			}
		}
	})
	if site == nil {
		return false
	}
	for _, ret := range returnsOf(f) {
		if !precedes(site, ret) {
			return false
		}
	}
	ok := true
	allInstrs(f, func(ins ssa.Instruction) {
		if fa, isFA := ins.(*ssa.FieldAddr); isFA {
			if fr, isF := fieldOf(fa); isF && fr.Struct == "column.Txn" && fr.Field == "index" && !precedes(site, ins) {
				ok = false
			}
		}
	})
	return ok
}
