package colvet

import (
	"fmt"
	"sort"
	"strings"

	"golang.org/x/tools/go/ssa"
)

// Rules added after seed round 4.

// collectionWrites: the fields of column.Collection that fn writes — stores, sync/atomic
// stores/adds, mutating bitmap methods — in fn itself, its closures and the helpers it calls.
func collectionWrites(fn *ssa.Function) map[string]ssa.Instruction {
	out := map[string]ssa.Instruction{}
	add := func(v ssa.Value, ins ssa.Instruction) {
		if fr, ok := fieldOf(v); ok && fr.Struct == "column.Collection" && libStateField(fr) {
			if _, seen := out[fr.Field]; !seen {
				out[fr.Field] = ins
			}
		}
	}
	for _, f := range deepFuncs(fn) {
		allInstrs(f, func(ins ssa.Instruction) {
			switch x := ins.(type) {
			case *ssa.Store:
				add(x.Addr, ins)
				if ia, ok := x.Addr.(*ssa.IndexAddr); ok {
					if fr, ok := sliceOfField(ia.X); ok && fr.Struct == "column.Collection" {
						if _, seen := out[fr.Field]; !seen {
							out[fr.Field] = ins
						}
					}
				}
			case *ssa.Call:
				cc := &x.Call
				sc := cc.StaticCallee()
				if sc == nil || len(cc.Args) == 0 {
					return
				}
				n := Short(originOf(sc).String())
				if strings.HasPrefix(n, "sync/atomic.Store") || strings.HasPrefix(n, "sync/atomic.Add") || strings.HasPrefix(n, "sync/atomic.Swap") || strings.HasPrefix(n, "sync/atomic.CompareAndSwap") {
					add(cc.Args[0], ins)
				}
				if sc.Signature.Recv() != nil && isBitmap(sc.Signature.Recv().Type()) && bitmapMutators[baseName(sc)] {
					add(cc.Args[0], ins)
					if fr, ok := sliceOfField(bitmapRecv(cc.Args[0])); ok && fr.Struct == "column.Collection" {
						if _, seen := out[fr.Field]; !seen {
							out[fr.Field] = ins
						}
					}
				}
			}
		})
	}
	return out
}

// clearsFillBit: fn (deep) calls Bitmap.Remove on the collection's fill list.
func clearsFillBit(fn *ssa.Function) ssa.Instruction {
	var hit ssa.Instruction
	for _, f := range deepFuncs(fn) {
		allInstrs(f, func(ins ssa.Instruction) {
			cc, _, _ := callCommon(ins)
			if cc == nil || !methodOn(cc, "github.com/kelindar/bitmap", "Bitmap", "Remove") {
				return
			}
			if fr, ok := fieldOf(cc.Args[0]); ok && fr.Struct == "column.Collection" && fr.Field == "fill" {
				hit = ins
			}
		})
	}
	return hit
}

// ruleFillSiblings (C11.siblings): the functions that release a row offset — clear a bit of the
// collection's fill list — are siblings: commit of a Delete marker, rollback of a reserved insert,
// release after a failed insert. Whatever bookkeeping of the collection one of them maintains
// (the row counter today; a free-slot hint, a high-water mark tomorrow) all of them must maintain,
// or the allocator's picture of the free offsets goes wrong on the path through the odd one.
func ruleFillSiblings(r *Report) {
	h := r.Rule("C11.siblings", "S (sibling agreement)", "every function that clears a bit of the collection's fill list (commit of a Delete marker, rollback, release after a failed insert) writes the same set of Collection fields: allocator bookkeeping maintained by one releaser is maintained by all", 3)
	type sib struct {
		fn     *ssa.Function
		at     ssa.Instruction
		writes map[string]ssa.Instruction
	}
	var sibs []sib
	var fns []*ssa.Function
	for fn := range r.P.modFunc {
		if fn.Parent() != nil || fn.Origin() != nil || fn.Synthetic != "" || !r.P.inColumnPkg(fn) || isHelper(fn) {
			continue
		}
		fns = append(fns, fn)
	}
	sort.Slice(fns, func(i, j int) bool { return fnName(fns[i]) < fnName(fns[j]) })
	for _, fn := range fns {
		// only the function that contains the clearing (deep through helpers), not its callers
		if at := clearsFillBit(fn); at != nil {
			sibs = append(sibs, sib{fn, at, collectionWrites(fn)})
		}
	}
	union := map[string]string{}
	for _, s := range sibs {
		for f := range s.writes {
			if _, ok := union[f]; !ok {
				union[f] = fnName(s.fn)
			}
		}
	}
	for _, s := range sibs {
		var missing []string
		for f, who := range union {
			if _, ok := s.writes[f]; !ok {
				missing = append(missing, fmt.Sprintf("Collection.%s (maintained by %s)", f, who))
			}
		}
		sort.Strings(missing)
		h.Check(len(missing) == 0, fnName(s.fn), r.P.InstrPos(s.at), fmt.Sprintf("writes %v like its siblings", sortedKeys(s.writes)), "releases a row offset without maintaining "+strings.Join(missing, ", ")+": the allocator's bookkeeping disagrees with the fill list after this path")
	}
}

// ruleValueFilterOp (C04.ops/…WithValue/op): WithValue narrows the selection through the predicate
// over Value() alone. Its per-block step applies Bitmap.Filter to the selection slice and nothing
// else: intersecting with column.Index(chunk) first ("quick elimination", as the typed filters do
// with the presence bitmap) is wrong for computed columns, whose Index() is the set of rows where
// the rule is true while Value() is defined for every row.
func ruleValueFilterOp(r *Report) {
	h := r.Rule("C04.ops", "def-use", "", 10)
	fn := r.Anchor("(*column.Txn).WithValue")
	if fn == nil {
		return
	}
	var ops []string
	n := 0
	for _, c := range callsToDeep(fn, false, "(*column.Txn).rangeRead") {
		cc, _, _ := callCommon(c.Inner)
		fv, _ := normE(cc.Args[1], c.Env, false)
		body := asFunc(fv)
		if body == nil {
			continue
		}
		sel := cbParam(body, 1)
		if sel == nil {
			continue
		}
		n++
		deepVisitE(body, func(ins, _ ssa.Instruction, env *venv) {
			call, _, _ := callCommon(ins)
			if call == nil {
				return
			}
			sc := call.StaticCallee()
			if sc == nil || sc.Signature.Recv() == nil || !isBitmap(sc.Signature.Recv().Type()) || !bitmapMutators[baseName(sc)] {
				return
			}
			recv, _ := normE(bitmapRecv(call.Args[0]), env, false)
			if sameExpr(recv, sel) || isLoadOf(recv, sel) {
				ops = append(ops, baseName(sc))
			}
		})
	}
	sort.Strings(ops)
	h.Check(n == 1 && strings.Join(ops, ",") == "Filter", "(*column.Txn).WithValue/op", r.P.Pos(fn.Pos()), "selection narrowed by Filter(predicate over Value) only", fmt.Sprintf("the per-block step of WithValue applies %v to the selection — expected exactly [Filter]: a column whose Index() is not its set of valued rows (a bitmap index: Value is defined for every row, Index only where the rule holds) loses the rows the predicate would accept", ops))
}

// ruleRestorePropagates (C13.propagate): a failure to read the state section is a failure of
// Restore. On every path of Restore on which readState returned a non-nil error, the value returned
// is that error (or something computed from it) — never nil, and never an error of a later step
// that may itself be nil. (A torn tail of the log section may be tolerated: whole commits before it
// were replayed. A torn state section may not: blocks are missing.)
func ruleRestorePropagates(r *Report) {
	h := r.Rule("C13.propagate", "P+X", "Restore fails whenever reading the state section failed: on every path on which readState returned a non-nil error, Restore returns that error", 1)
	fn := r.Anchor("(*column.Collection).Restore")
	if fn == nil {
		return
	}
	isStateErr := func(v ssa.Value) bool {
		ex, ok := v.(*ssa.Extract)
		if !ok {
			return false
		}
		c, ok := ex.Tuple.(*ssa.Call)
		return ok && calleeIs(&c.Call, "(*column.Collection).readState") && isErrorType(ex.Type())
	}
	found := false
	allInstrs(fn, func(ins ssa.Instruction) {
		if v, ok := ins.(ssa.Value); ok && isStateErr(v) {
			found = true
		}
	})
	if !found {
		for _, f := range deepFuncs(fn) {
			allInstrs(f, func(ins ssa.Instruction) {
				if v, ok := ins.(ssa.Value); ok && isStateErr(v) {
					found = true
				}
			})
		}
		if !found {
			h.Unknown("(*column.Collection).Restore/state-error", r.P.Pos(fn.Pos()), "the error result of readState is not visible in Restore")
			return
		}
	}
	var resolve func(ssa.Value) ssa.Value
	cfg := pathCfg{names: []string{"stateErr"}, leaf: func(c ssa.Value) (string, bool, bool) {
		if x, nonNil, ok := nilTest(c); ok && isStateErr(norm(x)) {
			return "stateErr", !nonNil, true
		}
		return "", false, false
	}, classify: func(ssa.Instruction) string { return "" },
		withResolve: func(f func(ssa.Value) ssa.Value) { resolve = f }}
	why := ""
	ok, w := evalPathsDeep(fn, cfg, func(as map[string]bool, _ []pathEvent, ret *ssa.Return) bool {
		if !as["stateErr"] || ret == nil || len(ret.Results) == 0 {
			return true
		}
		res := ret.Results[len(ret.Results)-1]
		if _, isLd := res.(*ssa.UnOp); isLd {
			if vals := cellStoresBefore(ret); len(vals) == len(ret.Results) {
				res = vals[len(vals)-1]
			}
		}
		v := res
		if resolve != nil {
			v = resolve(res)
		}
		if isStateErr(v) || dependsOn(v, isStateErr, 6) {
			return true
		}
		why = fmt.Sprintf("a path on which readState failed returns %s at %s", valueDesc(v), r.P.InstrPos(ret))
		return false
	})
	if why == "" {
		why = w
	}
	h.Check(ok, "(*column.Collection).Restore", r.P.Pos(fn.Pos()), "state error ⇒ returned", "Restore can return without the error of readState after reading the state section failed ("+why+"): a snapshot truncated inside the state section restores the blocks read so far and reports success")
}

func isErrorType(t interface{ String() string }) bool { return t.String() == "error" }

func valueDesc(v ssa.Value) string {
	if c, ok := v.(*ssa.Const); ok {
		if c.Value == nil {
			return "nil"
		}
		return c.Value.String()
	}
	return v.String()
}

// ruleFileHandles (C14.fd): every file the library opens is closed on every path, or handed on. For
// each call of an os opener (Open, OpenFile, Create, CreateTemp) in library code the *os.File
// either escapes — returned, stored, or passed to a library function, which then owns it (openFile
// stores it in the Log, whose Close closes it) — or, on every path on which the open succeeded,
// Close is called on it (directly or deferred) before the function returns. Passing the file to a
// function outside the library (io.Copy, io.LimitReader, bufio.NewReader) does not hand it on.
func ruleFileHandles(r *Report) {
	h := r.Rule("C14.fd", "P (typestate)", "every file opened by the library (os.Open/OpenFile/Create/CreateTemp) is closed on every path on which the open succeeded, unless it is returned, stored or passed to a library function that takes it over", 2)
	openers := map[string]bool{"os.Open": true, "os.OpenFile": true, "os.Create": true, "os.CreateTemp": true, "io/ioutil.TempFile": true}
	var fns []*ssa.Function
	for fn := range r.P.modFunc {
		if fn.Origin() == nil && r.P.InLib(fn) && fn.Blocks != nil {
			fns = append(fns, fn)
		}
	}
	sort.Slice(fns, func(i, j int) bool { return fnName(fns[i]) < fnName(fns[j]) })
	for _, fn := range fns {
		k := 0
		allInstrs(fn, func(ins ssa.Instruction) {
			call, ok := ins.(*ssa.Call)
			if !ok || !openers[calleeShort(&call.Call)] {
				return
			}
			k++
			key := fmt.Sprintf("%s/%s#%d", fnName(fn), calleeShort(&call.Call), k)
			// the tuple handed on as a whole: openFile(os.OpenFile(…))
			var file, errv ssa.Value
			escapes := false
			for _, ref := range *call.Referrers() {
				switch x := ref.(type) {
				case *ssa.Extract:
					if x.Index == 0 {
						file = x
					} else {
						errv = x
					}
				case *ssa.DebugRef:
				default:
					if cc, _, _ := callCommon(ref); cc != nil {
						if sc := cc.StaticCallee(); sc != nil && r.P.InLib(sc) {
							escapes = true
						}
					}
					if _, isRet := ref.(*ssa.Return); isRet {
						escapes = true
					}
				}
			}
			if file != nil && !escapes {
				escapes = fileEscapes(r.P, file, 0)
			}
			if escapes {
				h.OK(key, r.P.InstrPos(ins), "handed on (returned, stored or passed to a library function)")
				return
			}
			if file == nil {
				h.Bad(key, r.P.InstrPos(ins), "the opened file is dropped at once")
				return
			}
			isClose := func(i2 ssa.Instruction) bool {
				cc, _, isGo := callCommon(i2)
				if cc == nil || isGo || len(cc.Args) == 0 || !calleeIs(cc, "(*os.File).Close") {
					return false
				}
				return sameExpr(cc.Args[0], file)
			}
			cfg := pathCfg{names: []string{"failed"}, leaf: func(c ssa.Value) (string, bool, bool) {
				if x, nonNil, ok := nilTest(c); ok && errv != nil && norm(x) == errv {
					return "failed", !nonNil, true
				}
				return "", false, false
			}, classify: func(i2 ssa.Instruction) string {
				switch {
				case i2 == ins:
					return "open"
				case isClose(i2):
					return "close"
				}
				return ""
			}}
			where := ""
			ok2, why := evalPathsDeep(fn, cfg, func(as map[string]bool, ev []pathEvent, ret *ssa.Return) bool {
				if as["failed"] {
					return true
				}
				opened := false
				for _, e := range ev {
					switch e.Name {
					case "open":
						opened = true
					case "close":
						if opened {
							return true
						}
					}
				}
				if opened && ret != nil {
					where = r.P.InstrPos(ret)
				}
				return !opened
			})
			if where == "" {
				where = why
			}
			h.Check(ok2, key, r.P.InstrPos(ins), "closed on every path on which the open succeeded", "a file opened here is neither handed on nor closed on every path (exit at "+where+"): each pass through that path leaves an open descriptor behind")
		})
	}
}

// fileEscapes: the file value is returned, stored into memory other than a local variable, sent,
// captured by a closure or passed to a library function.
func fileEscapes(p *Prog, v ssa.Value, depth int) bool {
	if depth > 4 || v.Referrers() == nil {
		return false
	}
	for _, ref := range *v.Referrers() {
		switch x := ref.(type) {
		case *ssa.Return, *ssa.Send, *ssa.MakeClosure, *ssa.MapUpdate:
			return true
		case *ssa.Store:
			if x.Val == v {
				if al, isAl := x.Addr.(*ssa.Alloc); isAl && !al.Heap {
					continue
				}
				return true
			}
		case *ssa.MakeInterface, *ssa.ChangeInterface, *ssa.ChangeType, *ssa.Phi:
			if fileEscapes(p, x.(ssa.Value), depth+1) {
				return true
			}
		case *ssa.Call, *ssa.Defer, *ssa.Go:
			cc, _, _ := callCommon(ref)
			if sc := cc.StaticCallee(); sc != nil && p.InLib(sc) {
				return true
			}
		}
	}
	return false
}

// rulePeriodicCleanup (C17.periodic): the cleanup loop wakes up again after every pass, for ever.
// The loop of vacuum waits in a select for a time channel. A time.Ticker (or time.Tick, or a
// time.After evaluated anew in every iteration) fires periodically by itself; a time.Timer fires
// once and must be re-armed: then every path from the select back to the select — every way of
// completing an iteration — has to pass timer.Reset, or the first iteration that takes the other
// path parks the goroutine for good and no row of the collection expires any more.
func rulePeriodicCleanup(r *Report) {
	h := r.Rule("C17.periodic", "P", "the cleanup goroutine waits on a time source that fires again after every iteration of its loop: a Ticker, or a Timer that is Reset on every path from the select back to the select", 1)
	fn := r.Anchor("(*column.Collection).vacuum")
	if fn == nil {
		return
	}
	n := 0
	for _, f := range deepFuncs(fn) {
		allInstrs(f, func(ins ssa.Instruction) {
			sel, ok := ins.(*ssa.Select)
			if !ok {
				return
			}
			for _, st := range sel.States {
				ch := norm(st.Chan)
				kind, src := timeSource(ch)
				if kind == "" {
					continue
				}
				n++
				key := "(*column.Collection).vacuum/" + kind
				switch kind {
				case "Ticker", "Tick":
					h.OK(key, r.P.InstrPos(ins), "periodic by itself")
				case "After":
					// evaluated inside the loop: a fresh channel per iteration
					c := src.(*ssa.Call)
					inLoop := reachAvoiding(c.Block(), c.Block(), nil, nil) || c.Block() == sel.Block()
					h.Check(inLoop, key, r.P.InstrPos(ins), "time.After evaluated in every iteration", "the cleanup waits on a time.After channel created once outside its loop: it fires once")
				case "Timer":
					S := sel.Block()
					hasReset := func(b *ssa.BasicBlock) bool {
						hit := false
						for _, i2 := range b.Instrs {
							if cc, _, isGo := callCommon(i2); cc != nil && !isGo && calleeIs(cc, "(*time.Timer).Reset") && len(cc.Args) > 0 && sameExpr(cc.Args[0], src) {
								hit = true
							}
						}
						return hit
					}
					// an iteration that comes back to the select without passing Reset
					leak := false
					if !hasReset(S) {
						leak = reachAvoiding(S, S, func(b *ssa.BasicBlock) bool { return hasReset(b) }, nil)
					}
					h.Check(!leak, key, r.P.InstrPos(ins), "Timer re-armed on every path back to the select", "the cleanup waits on a time.Timer that is not Reset on every path from the select back to the select (a `continue`, an early branch): after the first iteration that takes such a path the timer never fires again and no row of the collection is ever expired")
				}
			}
		})
	}
	if n == 0 {
		h.Unknown("(*column.Collection).vacuum/source", r.P.Pos(fn.Pos()), "no select on a time channel recognised in the cleanup loop")
	}
}

// timeSource classifies a channel a select waits on: the C field of a *time.Ticker / *time.Timer,
// or the result of time.Tick / time.After.
func timeSource(ch ssa.Value) (string, ssa.Value) {
	if c, ok := ch.(*ssa.Call); ok {
		switch calleeShort(&c.Call) {
		case "time.Tick":
			return "Tick", c
		case "time.After":
			return "After", c
		}
		return "", nil
	}
	if fr, ok := loadedField(ch); ok && fr.Field == "C" {
		switch fr.Struct {
		case "time.Ticker":
			return "Ticker", fr.X
		case "time.Timer":
			return "Timer", fr.X
		}
	}
	return "", nil
}
