package colvet

import (
	"fmt"
	"go/token"
	"go/types"
	"strings"

	"golang.org/x/tools/go/ssa"
)

// Rules added after seed round 8 (changes of at most six lines in one function).

// inCycle: the block can reach itself.
func inCycle(b *ssa.BasicBlock) bool { return reachAvoiding(b, b, nil, nil) }

// ruleRangeHeaderSnapshot (C03.order/…Range/headers-as-on-entry): Reader.Range visits the section
// headers the buffer had when it was called. Its callback may append to the buffer (SwapBytes
// re-appends a merge result of another size, with a header of its own when the transaction has
// moved on to another block): a loop bound that is re-read every iteration visits that header too
// and replays the appended Put after the rest of the section, over later writes to the row.
func ruleRangeHeaderSnapshot(r *Report) {
	h := r.Rule("C03.order", "who-may-call", "", 10)
	fn := r.Anchor("(*commit.Reader).Range")
	if fn == nil {
		return
	}
	bad := ""
	n := 0
	for _, f := range deepFuncs(fn) {
		for _, b := range f.Blocks {
			iff, ok := b.Instrs[len(b.Instrs)-1].(*ssa.If)
			if !ok || !inCycle(b) {
				continue
			}
			bo, ok := iff.Cond.(*ssa.BinOp)
			if !ok {
				continue
			}
			// a loop-exit test: one successor leaves the cycle
			leaves := false
			for _, s := range b.Succs {
				if !reachAvoiding(s, b, nil, nil) {
					leaves = true
				}
			}
			if !leaves {
				continue
			}
			for _, opd := range []ssa.Value{bo.X, bo.Y} {
				c, isC := strip(opd).(*ssa.Call)
				if !isC {
					continue
				}
				bi, isB := c.Call.Value.(*ssa.Builtin)
				if !isB || bi.Name() != "len" {
					continue
				}
				if fr, isF := loadedField(c.Call.Args[0]); isF && fr.Struct == "commit.Buffer" && fr.Field == "chunks" {
					n++
					if inCycle(c.Block()) {
						bad = r.P.InstrPos(c)
					}
				}
			}
		}
	}
	_ = n
	h.Check(bad == "", "(*commit.Reader).Range/headers-as-on-entry", r.P.Pos(fn.Pos()), "the number of headers to visit is fixed before the first callback", "the header loop of Reader.Range re-reads len(buf.chunks) every iteration ("+bad+"): a header appended by the callback (a merge result of another size is re-appended, with its own header once the transaction has written another block) is visited as well and its Put is replayed after the rest of the section")
}

// ruleBufferLoopNoExit (C03.twopass/no-exit): commitUpdates visits every queued buffer: a buffer that
// is skipped (empty, the row markers, a column that is not registered any more) is passed over, it
// does not end the loop.
func ruleBufferLoopNoExit(r *Report) {
	h := r.Rule("C03.twopass", "P", "", 5)
	cu := r.Anchor("(*column.Txn).commitUpdates")
	if cu == nil {
		return
	}
	bad := ""
	loops := 0
	for _, f := range deepFuncs(cu) {
		if f.Parent() != nil {
			continue
		}
		for _, b := range f.Blocks {
			// the head of a loop over txn.updates: its exit test compares with len(txn.updates)
			iff, ok := b.Instrs[len(b.Instrs)-1].(*ssa.If)
			if !ok || !inCycle(b) {
				continue
			}
			over := dependsOn(iff.Cond, func(z ssa.Value) bool {
				c, isC := z.(*ssa.Call)
				if !isC || len(c.Call.Args) != 1 {
					return false
				}
				if bi, isB := c.Call.Value.(*ssa.Builtin); !isB || bi.Name() != "len" {
					return false
				}
				fr, isF := loadedField(c.Call.Args[0])
				return isF && fr.Struct == "column.Txn" && fr.Field == "updates"
			}, 4)
			if !over {
				continue
			}
			loops++
			// every other block of the cycle stays in the cycle (or panics)
			for _, x := range f.Blocks {
				if x == b || !reachAvoiding(b, x, nil, nil) || !reachAvoiding(x, b, nil, nil) {
					continue
				}
				for _, s := range x.Succs {
					if !reachAvoiding(s, b, nil, nil) && s != b {
						if _, isPanic := s.Instrs[len(s.Instrs)-1].(*ssa.Panic); !isPanic {
							bad = r.P.InstrPos(x.Instrs[len(x.Instrs)-1])
						}
					}
				}
			}
		}
	}
	h.Check(bad == "" && loops > 0, "no-exit", r.P.Pos(cu.Pos()), "the buffer loop is left only when the buffers are exhausted", "the loop over the transaction's buffers can be left before the last buffer ("+bad+": a `break` or `return` where a buffer is only to be skipped): the buffers after it — other columns' writes and merges of the same transaction — are not applied, in every block")
}

// ruleFreeBitNonZero (C11.free/…findFreeIndex/nonzero): bits.TrailingZeros64(x) names a bit of x only
// when x ≠ 0 (for 0 it answers 64: the first offset of the next word, untested). Every use in
// findFreeIndex sits on an edge that establishes x ≠ 0: `x != 0` itself, or, for x = ^w,
// `w != all-ones`.
func ruleFreeBitNonZero(r *Report) {
	h := r.Rule("C11.free", "P", "findFreeIndex takes the position of a zero bit with TrailingZeros64 only from a word that is known to have one: the argument is non-zero on that edge (x != 0, or x = ^w under w != ^0)", 1)
	fn := r.Anchor("(*column.Collection).findFreeIndex")
	if fn == nil {
		return
	}
	n, bad := 0, ""
	for _, f := range deepFuncs(fn) {
		allInstrs(f, func(ins ssa.Instruction) {
			c, ok := ins.(*ssa.Call)
			if ok && !calleeIs(&c.Call, "math/bits.TrailingZeros64") {
				// the position of a *zero* bit is TrailingZeros64(^word) (or MinZero); any other bit
				// arithmetic (Len64: one past the highest set bit) names a position nobody tested
				if sc := c.Call.StaticCallee(); sc != nil && sc.Pkg != nil && sc.Pkg.Pkg.Path() == "math/bits" {
					bad = r.P.InstrPos(ins) + " (bits." + sc.Name() + " does not find a zero bit)"
				}
				// … and of the bitmap's own searches only MinZero finds a zero bit (Max, Min, MaxZero
				// name a set bit or the last clear one)
				if methodOn(&c.Call, "github.com/kelindar/bitmap", "Bitmap", "Min", "Max", "MaxZero") {
					if v, isV := ins.(ssa.Value); isV {
						for _, ret := range returnsOf(fn) {
							if len(ret.Results) == 1 && dependsOn(ret.Results[0], func(z ssa.Value) bool { return z == v }, 6) {
								bad = r.P.InstrPos(ins) + " (Bitmap." + c.Call.StaticCallee().Name() + " does not find a free offset)"
							}
						}
					}
				}
				return
			}
			if !ok {
				return
			}
			n++
			x := strip(c.Call.Args[0])
			var w ssa.Value // x = ^w
			if u, isU := x.(*ssa.UnOp); isU && u.Op == token.XOR {
				w = u.X
			}
			isAllOnes := func(v ssa.Value) bool {
				k, isC := strip(v).(*ssa.Const)
				return isC && k.Value != nil && (k.Value.String() == "18446744073709551615" || k.Value.String() == "-1")
			}
			isZero := func(v ssa.Value) bool {
				k, isC := constInt(v)
				return isC && k == 0
			}
			ok2 := onCmpEdge(c.Block(), func(a, b ssa.Value) bool {
				for _, p := range [][2]ssa.Value{{a, b}, {b, a}} {
					if sameExpr(p[0], x) && isZero(p[1]) {
						return true
					}
					if w != nil && sameExpr(p[0], w) && isAllOnes(p[1]) {
						return true
					}
				}
				return false
			}, false)
			if !ok2 {
				bad = r.P.InstrPos(ins)
			}
		})
	}
	h.Check(bad == "" && n > 0, "(*column.Collection).findFreeIndex/nonzero", r.P.Pos(fn.Pos()), fmt.Sprintf("%d uses of TrailingZeros64, each on an edge where its argument is non-zero", n), "findFreeIndex takes TrailingZeros64 of a word that may be zero on that path ("+bad+"): for zero it answers 64, i.e. the first offset of the next word, which is handed out without being tested — an offset held by a live row or another in-flight insert")
}

// ruleErrNotOverwritten (X, clause of C14.err): an error a call returned is looked at before the
// variable is assigned again: on no path from the call to a return is the value dead (neither
// tested, returned, passed on nor merged into the returned value) while another error takes its
// place.
func ruleErrNotOverwritten(r *Report, id string, fns []string) {
	h := r.Rule(id, "X", "", 0)
	done := map[*ssa.Function]bool{}
	for _, name := range fns {
		top := r.Anchor(name)
		if top == nil {
			continue
		}
		for _, f := range deepFuncs(top) {
			if done[f] {
				continue
			}
			done[f] = true
			var bad ssa.Instruction
			allInstrs(f, func(ins ssa.Instruction) {
				v, ok := ins.(ssa.Value)
				if !ok {
					return
				}
				var ev ssa.Value
				switch x := ins.(type) {
				case *ssa.Extract:
					if _, isCall := x.Tuple.(*ssa.Call); isCall && isErrorType(x.Type()) {
						ev = v
					}
				case *ssa.Call:
					if isErrorType(x.Type()) {
						ev = v
					}
				}
				if ev == nil {
					return
				}
				refs := ev.Referrers()
				if refs == nil || len(*refs) == 0 {
					return // dropped altogether: errorDropped's business
				}
				// the value only flows into φ-nodes (it is what the variable holds on those edges); every
				// other edge out of the paths from its definition means the variable was assigned again
				type edge struct{ from, to *ssa.BasicBlock }
				used := map[edge]bool{}
				for _, ref := range *refs {
					phi, isPhi := ref.(*ssa.Phi)
					if !isPhi {
						return // tested, returned or handed on somewhere: the usual `if err != nil` forms
					}
					for i, e := range phi.Edges {
						if e == ev {
							used[edge{phi.Block().Preds[i], phi.Block()}] = true
						}
					}
				}
				start := ins.Block()
				seen := map[*ssa.BasicBlock]bool{start: true}
				work := []*ssa.BasicBlock{start}
				for len(work) > 0 {
					b := work[len(work)-1]
					work = work[:len(work)-1]
					if _, isRet := b.Instrs[len(b.Instrs)-1].(*ssa.Return); isRet {
						bad = ins
						return
					}
					for _, s := range b.Succs {
						if used[edge{b, s}] || seen[s] {
							continue
						}
						seen[s] = true
						work = append(work, s)
					}
				}
			})
			if bad != nil {
				h.Bad(fnName(f)+"/overwritten", r.P.InstrPos(bad), "the error returned here is replaced by a later assignment on a path on which nobody has looked at it: a failure is reported as success")
			}
		}
	}
}

// ruleLogWriterLocked (L10): the log's stream writer and reader are not safe for concurrent use (an
// s2 writer behind an iostream writer); every use of Log.writer / Log.reader after construction
// holds the log's mutex exclusively — the flush included.
func ruleLogWriterLocked(r *Report) {
	L := r.Shared.Lockset()
	h := r.Rule("L10", "L", "every use of the commit log's stream writer and reader (Log.writer, Log.reader) after construction holds the log's mutex exclusively: writing a commit and flushing it are one critical section", 2)
	type acc struct {
		n   int
		bad ssa.Instruction
		w   *LSite
	}
	per := map[string]*acc{}
	for ins, ss := range L.At {
		fa, ok := ins.(*ssa.FieldAddr)
		if !ok {
			continue
		}
		fr, _ := fieldOf(fa)
		if fr.Struct != "commit.Log" || (fr.Field != "writer" && fr.Field != "reader" && fr.Field != "source") {
			continue
		}
		// a store of the field is construction
		isStore := false
		for _, ref := range *fa.Referrers() {
			if st, isSt := ref.(*ssa.Store); isSt && st.Addr == ssa.Value(fa) {
				isStore = true
			}
		}
		if isStore {
			continue
		}
		if fr.Field == "source" {
			// the field is set at construction and never reassigned: what needs the mutex is I/O on it
			// (Seek, Read/Write through io.Copy, Close), not asking the file for its name
			io := false
			for _, ref := range *fa.Referrers() {
				ld, isLd := ref.(*ssa.UnOp)
				if !isLd {
					continue
				}
				dependsOnUse(ld, func(u ssa.Instruction) {
					if cc, _, _ := callCommon(u); cc != nil {
						if cc.IsInvoke() {
							switch cc.Method.Name() {
							case "Seek", "Read", "Write", "Close", "Sync", "Truncate":
								io = true
							}
						} else if sc := cc.StaticCallee(); sc != nil && sc.Pkg != nil && sc.Pkg.Pkg.Path() == "io" {
							io = true
						}
					}
				}, 4)
			}
			if !io {
				continue
			}
		}
		key := "commit.Log." + fr.Field + "/" + fnName(topFn(ins.Parent()))
		a := per[key]
		if a == nil {
			a = &acc{}
			per[key] = a
		}
		for i := range ss {
			s := &ss[i]
			if constructorCtx(s.Ctx) {
				continue
			}
			a.n++
			held := false
			for k := range s.Held {
				if strings.HasPrefix(k, "commit.Log.lock") && strings.HasSuffix(k, ":W") {
					held = true
				}
			}
			if !held && a.bad == nil {
				a.bad, a.w = ins, s
			}
		}
	}
	for _, k := range sortedKeys(per) {
		a := per[k]
		if a.n == 0 {
			continue
		}
		if a.bad != nil {
			o := h.Bad(k, r.P.InstrPos(a.bad), "the log's stream is used without the log's mutex: two commits of different blocks interleave in the compressing writer (a torn log) — Append's flush belongs to the same critical section as the write")
			setWitness(o, a.w)
		} else {
			h.OK(k, "-", fmt.Sprintf("%d contexts hold commit.Log.lock:W", a.n))
		}
	}
}

// ruleSwapInPlaceSameSize (C05.swap/SwapBytes/in-place): a variable-size value is overwritten in
// place only when the new value has exactly the size of the old one (the length prefix in front of
// it is not rewritten); any other size goes through the re-append branch.
func ruleSwapInPlaceSameSize(r *Report) {
	h := r.Rule("C05.swap", "P", "Reader.SwapBytes overwrites a variable-size value in place only on the edge on which old and new size are equal (the 2-byte length in front is not rewritten)", 1)
	fn := r.Anchor("(*commit.Reader).SwapBytes")
	if fn == nil || len(fn.Params) < 2 {
		return
	}
	// after the value was appended to the parent buffer (which may have been re-allocated) the reader
	// takes its window again: the same window Range gave it, parent.buffer[x0:x1]
	allInstrs(fn, func(ins ssa.Instruction) {
		st, ok := ins.(*ssa.Store)
		if !ok {
			return
		}
		fr, isF := fieldOf(st.Addr)
		if !isF || fr.Struct != "commit.Reader" || fr.Field != "buffer" {
			return
		}
		sl, isSl := strip(st.Val).(*ssa.Slice)
		okW := isSl
		if isSl {
			lo, okLo := loadedField(sl.Low)
			hi, okHi := loadedField(sl.High)
			okW = sl.Low != nil && sl.High != nil && okLo && okHi && lo.Field == "x0" && hi.Field == "x1"
		}
		h.Check(okW, "(*commit.Reader).SwapBytes/window", r.P.InstrPos(ins), "buffer := parent.buffer[x0:x1]", "after appending the rewritten value SwapBytes does not take the section's window parent.buffer[x0:x1] again: the rest of the section is read at the wrong positions")
	})
	n, bad := 0, ""
	allInstrs(fn, func(ins ssa.Instruction) {
		c, ok := ins.(*ssa.Call)
		if !ok {
			return
		}
		bi, isB := c.Call.Value.(*ssa.Builtin)
		if !isB || bi.Name() != "copy" || len(c.Call.Args) != 2 || !sameExpr(c.Call.Args[1], fn.Params[1]) {
			return
		}
		// destination: a slice of Reader.buffer
		dst, _ := normE(c.Call.Args[0], nil, true) // r.Bytes() ≡ r.buffer[r.i0:r.i1]
		if !dependsOnSlice(dst, func(z ssa.Value) bool {
			fr, ok := loadedField(z)
			return ok && fr.Struct == "commit.Reader" && fr.Field == "buffer"
		}, 4) {
			return
		}
		n++
		isLen := func(v ssa.Value) bool {
			cl, ok := strip(v).(*ssa.Call)
			if !ok || len(cl.Call.Args) != 1 {
				return false
			}
			b2, ok := cl.Call.Value.(*ssa.Builtin)
			return ok && b2.Name() == "len" && sameExpr(cl.Call.Args[0], fn.Params[1])
		}
		isSpan := func(v ssa.Value) bool {
			bo, ok := strip(v).(*ssa.BinOp)
			if !ok || bo.Op != token.SUB {
				return false
			}
			f1, ok1 := loadedField(bo.X)
			f0, ok0 := loadedField(bo.Y)
			return ok1 && ok0 && f1.Field == "i1" && f0.Field == "i0"
		}
		if !onCmpEdge(ins.Block(), func(a, b ssa.Value) bool {
			return (isLen(a) && isSpan(b)) || (isLen(b) && isSpan(a))
		}, true) {
			bad = r.P.InstrPos(ins)
		}
	})
	h.Check(bad == "" && n > 0, "(*commit.Reader).SwapBytes/in-place", r.P.Pos(fn.Pos()), "in place only when i1-i0 == len(v)", "SwapBytes overwrites the value in place on an edge where the sizes may differ ("+bad+"): the length prefix keeps the old size, so every later reader of the buffer — the index pass, the log, the replica — decodes the new value followed by the tail of the old one")
}

// dependsOnUse visits the instructions that use v, directly or through conversions, type assertions
// and tuple extractions (forward def-use, bounded).
func dependsOnUse(v ssa.Value, visit func(ssa.Instruction), depth int) {
	if depth < 0 || v.Referrers() == nil {
		return
	}
	for _, ref := range *v.Referrers() {
		visit(ref)
		switch x := ref.(type) {
		case *ssa.TypeAssert, *ssa.Extract, *ssa.ChangeInterface, *ssa.MakeInterface, *ssa.Convert, *ssa.ChangeType, *ssa.Phi:
			dependsOnUse(x.(ssa.Value), visit, depth-1)
		}
	}
}

// ruleLookupUnderLatch (C03.twopass/lookup-under-latch): the list of computed columns that a commit
// applies a buffer to is looked up while the block's exclusive latch is held. CreateIndex/CreateTrigger
// and DropIndex/DropTrigger return once the registry is changed; a commit that resolved the list
// before taking the latch applies stores after a trigger was created without telling it, or keeps
// calling a trigger after it was dropped.
func ruleLookupUnderLatch(r *Report) {
	L := r.Shared.Lockset()
	h := r.Rule("C03.twopass", "P", "", 5)
	n := 0
	var bad ssa.Instruction
	var w *LSite
	for ins, ss := range L.At {
		cc, _, _ := callCommon(ins)
		if cc == nil || !calleeIs(cc, "(*column.columns).LoadWithIndex") {
			continue
		}
		for i := range ss {
			s := &ss[i]
			if !pathHas(s.Ctx, "(*column.Txn).commit") {
				continue
			}
			n++
			if !s.Held.hasW("latch") && bad == nil {
				bad, w = ins, s
			}
		}
	}
	if n == 0 {
		return
	}
	if bad != nil {
		o := h.Bad("lookup-under-latch", r.P.InstrPos(bad), "the commit looks the column's list of indexes and triggers up before it holds the block's exclusive latch: a trigger or index created (dropped) by another goroutine in between misses (still receives) the stores this commit applies after the creation (the drop) returned")
		setWitness(o, w)
	} else {
		h.OK("lookup-under-latch", "-", fmt.Sprintf("%d lookups below commit hold the block latch", n))
	}
}

// rulePoolRelease (L11): an object handed back to a sync.Pool belongs to whoever Gets it next. No
// library function returns an object it also Puts (a deferred Put runs before the caller sees the
// result), and none uses it after a Put that is not deferred.
func rulePoolRelease(r *Report) {
	h := r.Rule("L11", "typestate", "an object put back into a sync.Pool is not used afterwards: no function returns (or stores) an object it also Puts — a deferred Put releases it before the caller sees it — and no use follows a Put on the same path", 1)
	var fns []*ssa.Function
	for fn := range r.P.modFunc {
		fns = append(fns, fn)
	}
	sortFuncs(fns)
	n := 0
	for _, fn := range fns {
		var puts []ssa.Instruction
		allInstrs(fn, func(ins ssa.Instruction) {
			if cc, _, _ := callCommon(ins); cc != nil && calleeIs(cc, "(*sync.Pool).Put") && len(cc.Args) == 2 {
				puts = append(puts, ins)
			}
		})
		if len(puts) == 0 {
			continue
		}
		n++
		bad := ""
		for _, p := range puts {
			cc, isDefer, _ := callCommon(p)
			obj := cc.Args[1]
			for {
				if mi, ok := obj.(*ssa.MakeInterface); ok {
					obj = mi.X
					continue
				}
				break
			}
			origin := norm(obj) // a variable assigned once (a named result): the value it was given
			cellOf := func(v ssa.Value) *ssa.Alloc {
				if ld, ok := v.(*ssa.UnOp); ok && ld.Op == token.MUL {
					if al, ok := ld.X.(*ssa.Alloc); ok {
						return al
					}
				}
				return nil
			}
			same := func(v ssa.Value) bool {
				// two loads of one local variable (a named result is spilled and re-loaded round the
				// deferred calls)
				if c1, c2 := cellOf(obj), cellOf(v); c1 != nil && c1 == c2 {
					return true
				}
				if nv := norm(v); nv == origin && nv != nil {
					return true
				}
				return dependsOn(v, func(z ssa.Value) bool { return z == obj || (z == origin && origin != nil) }, 3)
			}
			// returned?
			for _, ret := range returnsOf(fn) {
				for _, res := range ret.Results {
					if same(res) && (isDefer || canReach(p, ret)) {
						bad = r.P.InstrPos(p) + ": the object is returned to the caller although it was put back into the pool"
					}
				}
			}
			// used after a direct Put?
			if !isDefer && obj.Referrers() != nil {
				for _, ref := range *obj.Referrers() {
					if ref != p && ref.Block() != nil && canReach(p, ref) && !(ref.Block() == p.Block() && instrIndex(ref) < instrIndex(p)) {
						if _, isDbg := ref.(*ssa.DebugRef); !isDbg {
							bad = r.P.InstrPos(ref) + ": used after it was put back into the pool"
						}
					}
				}
			}
		}
		// put back twice: the pool hands the same object to two users
		putObj := func(p ssa.Instruction) ssa.Value {
			cc, _, _ := callCommon(p)
			obj := cc.Args[1]
			for {
				if mi, ok := obj.(*ssa.MakeInterface); ok {
					obj = mi.X
					continue
				}
				break
			}
			return norm(obj)
		}
		for i, p1 := range puts {
			for _, p2 := range puts[i+1:] {
				o1, o2 := putObj(p1), putObj(p2)
				if o1 != nil && o1 == o2 && (canReach(p1, p2) || canReach(p2, p1)) {
					bad = r.P.InstrPos(p2) + ": the object is put back into the pool twice"
				}
			}
		}
		h.Check(bad == "", fnName(fn), r.P.Pos(fn.Pos()), "pooled objects are not used after their release", "a pooled object is used after it was released ("+bad+"): the next Get — another goroutine merging in another block — receives the same object while this one still reads or writes it")
	}
	_ = n
}

func sortFuncs(fns []*ssa.Function) {
	for i := 1; i < len(fns); i++ {
		for j := i; j > 0 && fnName(fns[j]) < fnName(fns[j-1]); j-- {
			fns[j], fns[j-1] = fns[j-1], fns[j]
		}
	}
}

// ruleRecountAfterChange (C11.siblings/…/recount-after): a function that changes the fill list and
// refreshes the row counter from it counts after the change: every Count() of Collection.fill whose
// result is stored into Collection.count is preceded by the Set/Remove of the same function.
func ruleRecountAfterChange(r *Report) {
	h := r.Rule("C11.siblings", "S", "", 0)
	isFill := func(v ssa.Value) bool {
		fr, ok := fieldOf(bitmapRecvAddr(v))
		return ok && fr.Struct == "column.Collection" && fr.Field == "fill"
	}
	var fns []*ssa.Function
	for fn := range r.P.modFunc {
		fns = append(fns, fn)
	}
	sortFuncs(fns)
	for _, fn := range fns {
		var changes, counts []ssa.Instruction
		allInstrs(fn, func(ins ssa.Instruction) {
			cc, _, _ := callCommon(ins)
			if cc == nil || len(cc.Args) == 0 {
				return
			}
			switch {
			case methodOn(cc, "github.com/kelindar/bitmap", "Bitmap", "Remove", "Set") && isFill(cc.Args[0]):
				changes = append(changes, ins)
			case methodOn(cc, "github.com/kelindar/bitmap", "Bitmap", "Count") && isFill(cc.Args[0]):
				if v, ok := ins.(ssa.Value); ok {
					for _, ref := range *v.Referrers() {
						_ = ref
					}
					counts = append(counts, ins)
				}
			}
		})
		if len(changes) == 0 || len(counts) == 0 {
			continue
		}
		ok := true
		for _, c := range counts {
			for _, ch := range changes {
				// a change in a loop before the count (rollback) dominates it through the loop's exit
				if !precedes(ch, c) && !(inCycle(ch.Block()) && !inCycle(c.Block()) && reachAvoiding(ch.Block(), c.Block(), nil, nil) && !reachAvoiding(c.Block(), ch.Block(), nil, nil)) {
					ok = false
				}
			}
		}
		h.Check(ok, fnName(fn)+"/recount-after", r.P.InstrPos(counts[0]), "the fill list is counted after it was changed", "the row counter is refreshed from the fill list before the list is changed in the same function: Count() stays off by the change until some later transaction recounts")
	}
}

// bitmapRecvAddr: the address a bitmap method's receiver was loaded from (or the value itself).
func bitmapRecvAddr(v ssa.Value) ssa.Value {
	v = strip(v)
	if ld, ok := v.(*ssa.UnOp); ok && ld.Op == token.MUL {
		return ld.X
	}
	return v
}

// ruleRegistryWritersSerial (L9.serial): the registry's writers are load-modify-store sequences on an
// atomic.Value (a function that both Loads and Stores `columns.cols`); two of them side by side lose
// one update and — because Store edits the loaded entries in place (KF8) — write the same slice
// element unsynchronised. The creators the property names ("index creation": CreateIndex,
// CreateSortIndex, and CreateTrigger which shares their shape) call them under the exclusive
// collection mutex; the rule demands that of every caller except the frozen list below.
//
// Not claimed (frozen, one reason each): CreateColumn, DropColumn, DropIndex, DropTrigger store
// into the registry without the mutex on the pinned tree; column creation and drops are not in the
// mix C18 quantifies over, so the rule does not speak about them.
var registryWriterNotClaimed = map[string]string{
	"(*column.Collection).CreateColumn":    "column creation is not in C18's mix; unserialised on the pinned tree",
	"(*column.Collection).CreateColumnsOf": "column creation is not in C18's mix; unserialised on the pinned tree",
	"(*column.Collection).DropColumn":      "drops are not in C18's mix; unserialised on the pinned tree",
	"(*column.Collection).DropIndex":       "drops are not in C18's mix; unserialised on the pinned tree",
	"(*column.Collection).DropTrigger":     "drops are not in C18's mix; unserialised on the pinned tree",
	"column.NewCollection":                 "the collection is under construction and not shared yet",
}

func ruleRegistryWritersSerial(r *Report) {
	L := r.Shared.Lockset()
	h := r.Rule("L9.serial", "L", "the load-modify-store writers of the column registry are called under the exclusive collection mutex by the index/trigger creators (two creators side by side would lose one update and write the same entry unsynchronised)", 3)
	// writers by shape
	writers := map[*ssa.Function]bool{}
	publishers := registryPublishers(r.P)
	for fn := range r.P.modFunc {
		loads, stores := false, false
		allInstrs(fn, func(ins ssa.Instruction) {
			cc, _, _ := callCommon(ins)
			if cc == nil || len(cc.Args) == 0 {
				return
			}
			if sc := cc.StaticCallee(); sc != nil && publishers[sc] {
				loads = true // through an accessor that hands out the loaded registry
			}
			fr, ok := fieldOf(cc.Args[0])
			if !ok {
				fr, ok = loadedField(cc.Args[0])
			}
			if !ok || fr.Struct != "column.columns" || fr.Field != "cols" {
				return
			}
			if methodOn(cc, "sync/atomic", "Value", "Load") {
				loads = true
			}
			if methodOn(cc, "sync/atomic", "Value", "Store") {
				stores = true
			}
		})
		if loads && stores {
			writers[fn] = true
		}
	}
	type agg struct {
		n   int
		bad *LSite
		ins ssa.Instruction
	}
	by := map[string]*agg{}
	for ins, ss := range L.At {
		cc, _, _ := callCommon(ins)
		if cc == nil {
			continue
		}
		sc := cc.StaticCallee()
		if sc == nil || !(writers[sc] || (sc.Origin() != nil && writers[sc.Origin()])) {
			continue
		}
		if writers[ins.Parent()] {
			continue // a writer delegating to a writer: judged at the outer call
		}
		// one obligation per entry point (public API) from which the writer is reached
		for i := range ss {
			for _, n := range L.RootsOf(ss[i].Ctx) {
				a := by[n]
				if a == nil {
					a = &agg{}
					by[n] = a
				}
				a.n++
				if !ss[i].Held.hasW("Collection.lock") && a.bad == nil {
					a.bad, a.ins = &ss[i], ins
				}
			}
		}
	}
	for _, n := range sortedKeys(by) {
		a := by[n]
		switch {
		case a.bad == nil:
			h.OK(n, "-", fmt.Sprintf("%d calls of a registry writer, all under the exclusive collection mutex", a.n))
		case registryWriterNotClaimed[n] != "":
			h.OK(n+"/not-claimed", r.P.InstrPos(a.ins), "not claimed: "+registryWriterNotClaimed[n])
		default:
			o := h.Bad(n, r.P.InstrPos(a.ins), "a load-modify-store writer of the column registry is called without the exclusive collection mutex: two index or trigger creations side by side lose one of the updates and write the same registry entry unsynchronised")
			setWitness(o, a.bad)
		}
	}
}

// ruleRecordMerge (C09.record): the merge the library installs in a record column decodes the stored
// bytes into one scratch record and the delta's bytes into another, and hands (stored, delta) to the
// user's strategy in that order.
func ruleRecordMerge(r *Report) {
	h := r.Rule("C09.record", "def-use", "the record column's merge decodes the stored value (its first argument) and the delta (its second) into two different scratch records and calls the merge strategy with (stored, delta)", 1)
	fn := r.Anchor("column.ForRecord")
	if fn == nil {
		return
	}
	var done bool
	// the merge function is found by shape wherever it lives (a closure of ForRecord, a method of a
	// merger type, a closure returned by a generic helper): (…, stored string, delta string) string
	// that decodes both with UnmarshalBinary
	var cands []*ssa.Function
	for f := range r.P.modFunc {
		if f.Origin() == nil && r.P.inColumnPkg(f) {
			cands = append(cands, f)
		}
	}
	sortFuncs(cands)
	for _, f := range cands {
		if done || f == fn || len(f.Params) < 2 || f.Signature.Results().Len() != 1 {
			continue
		}
		isStr := func(t types.Type) bool {
			b, ok := t.Underlying().(*types.Basic)
			return ok && b.Kind() == types.String
		}
		pv, pd := f.Params[len(f.Params)-2], f.Params[len(f.Params)-1]
		if !isStr(pv.Type()) || !isStr(pd.Type()) || !isStr(f.Signature.Results().At(0).Type()) {
			continue
		}
		type dec struct {
			recv ssa.Value
			ins  ssa.Instruction
		}
		var fromV, fromD []dec
		var strat []ssa.Instruction
		deepVisit(f, func(ins, _ ssa.Instruction) {
			cc, _, _ := callCommon(ins)
			if cc == nil {
				return
			}
			if cc.IsInvoke() && cc.Method.Name() == "UnmarshalBinary" && len(cc.Args) == 1 && ins.Parent() == f {
				isP := func(p *ssa.Parameter) func(ssa.Value) bool {
					return func(z ssa.Value) bool { return z == ssa.Value(p) }
				}
				if dependsOn(cc.Args[0], isP(pv), 8) {
					fromV = append(fromV, dec{norm(cc.Value), ins})
				}
				if dependsOn(cc.Args[0], isP(pd), 8) {
					fromD = append(fromD, dec{norm(cc.Value), ins})
				}
			}
			// the strategy: a call of a captured function value with two arguments
			if !cc.IsInvoke() && cc.StaticCallee() == nil && len(cc.Args) == 2 && ins.Parent() == f {
				if _, isBuiltin := cc.Value.(*ssa.Builtin); !isBuiltin {
					strat = append(strat, ins)
				}
			}
		})
		if len(fromV)+len(fromD) == 0 {
			continue // not the merge function
		}
		done = true
		ok := len(fromV) == 1 && len(fromD) == 1 && len(strat) == 1
		why := "the stored value and the delta are not decoded exactly once each, or the strategy is not called exactly once"
		pos := r.P.Pos(f.Pos())
		if ok {
			sv, sd := fromV[0].recv, fromD[0].recv
			cc, _, _ := callCommon(strat[0])
			pos = r.P.InstrPos(strat[0])
			switch {
			case sv == sd:
				ok, why = false, "the stored value and the delta are decoded into the same scratch record"
			case norm(cc.Args[0]) != sv || norm(cc.Args[1]) != sd:
				ok, why = false, "the strategy is not called with (decoded stored value, decoded delta)"
			case !(precedes(fromV[0].ins, strat[0]) && precedes(fromD[0].ins, strat[0])):
				ok, why = false, "the strategy is called before both records were decoded"
			}
		}
		h.Check(ok, "column.ForRecord/merge", pos, "decode(stored) → a, decode(delta) → b, strategy(a, b)", "the record merge is mis-wired: "+why+" — a merged record is computed from the wrong inputs")
	}
	if !done {
		h.Unknown("column.ForRecord/merge", r.P.Pos(fn.Pos()), "the merge closure of the record column was not recognised")
	}
}

// ruleFilterCacheKey (C04.cache): the enum filter remembers the verdict of the last string it looked
// at; the remembered key is the one the verdict was computed for — the value stored into the key cell
// is the value the cell is compared with.
func ruleFilterCacheKey(r *Report) {
	h := r.Rule("C04.cache", "def-use", "a one-entry verdict cache in a filter is keyed by what the verdict was computed from: the value stored into the key cell is the value the cell is compared with", 1)
	fn := r.Anchor("(*column.columnEnum).FilterString")
	if fn == nil {
		return
	}
	n := 0
	var bad ssa.Instruction
	for _, g := range deepFuncs(fn) {
		type cmp struct {
			addr, other ssa.Value
		}
		var cmps []cmp
		allInstrs(g, func(ins ssa.Instruction) {
			bo, ok := ins.(*ssa.BinOp)
			if !ok || (bo.Op != token.EQL && bo.Op != token.NEQ) {
				return
			}
			for _, pr := range [][2]ssa.Value{{bo.X, bo.Y}, {bo.Y, bo.X}} {
				ld, isLd := strip(pr[0]).(*ssa.UnOp)
				if !isLd || ld.Op != token.MUL {
					continue
				}
				if _, isFA := ld.X.(*ssa.FieldAddr); !isFA {
					continue
				}
				if _, isC := strip(pr[1]).(*ssa.Const); isC {
					continue
				}
				cmps = append(cmps, cmp{ld.X, pr[1]})
			}
		})
		allInstrs(g, func(ins ssa.Instruction) {
			st, ok := ins.(*ssa.Store)
			if !ok {
				return
			}
			for _, c := range cmps {
				if sameExpr(st.Addr, c.addr) {
					n++
					if !sameExpr(st.Val, c.other) {
						bad = ins
					}
				}
			}
		})
	}
	if n == 0 {
		h.OK("(*column.columnEnum).FilterString", r.P.Pos(fn.Pos()), "no verdict cache")
		return
	}
	h.Check(bad == nil, "(*column.columnEnum).FilterString", r.P.InstrPos(bad), "the cache key stored is the key compared", "the filter's verdict cache is keyed by a value other than the one it is compared with: a later row whose string location happens to equal the stored key gets another string's verdict")
}
