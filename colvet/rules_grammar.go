package colvet

import (
	"fmt"
	"go/token"
	"sort"
	"strings"

	"golang.org/x/tools/go/ssa"
)

// Analysis G: wire grammar. For a serialiser / deserialiser pair the sequence of stream tokens on
// every path that does not fail is computed (path enumeration of patheval.go with every error
// test answered "no error", callees inlined, callbacks and loops summarised as starred groups) and
// brought to a canonical form over primitives:
//
//	Uvarint → V        String, Bytes → V R*        Range(f) → V (G(f))*        raw Write/ReadFull → R
//	fixed-width values keep their name (Uint32, Int32 …)        a loop or per-item callback → (…)*
//
// The frame of a path is its sequence of variable-length integers outside the starred groups: the
// lengths and counts a record contains whatever its data. A reader has no way of knowing which
// path the writer took, so
//
//	(1) all non-failing paths of the writer (and of each of its per-item callbacks) have the same frame,
//	(2) so have all non-failing paths of the reader,
//	(3) the two frames are equal, and
//	(4) the full canonical sequences (with fixed-width values and starred groups) of the richest
//	    paths are equal.
//
// A writer fast path that omits a length ("nothing to write for this block") breaks (1); a field
// added on one side breaks (3) or (4); a group written per block and read per buffer breaks (4).

type wtok struct {
	s    string
	star bool
}

const iostreamPath = "github.com/kelindar/iostream"

// streamToken: the canonical tokens of a call on an iostream.Writer / iostream.Reader (nil if the
// call is none); a callback argument is summarised recursively.
func (g *grammar) streamToken(ins ssa.Instruction) []wtok {
	cc, isDefer, isGo := callCommon(ins)
	if cc == nil || isDefer || isGo {
		return nil
	}
	sc := cc.StaticCallee()
	if sc == nil {
		return nil
	}
	name := ""
	if sc.Signature.Recv() != nil && (isNamed(sc.Signature.Recv().Type(), iostreamPath, "Writer") || isNamed(sc.Signature.Recv().Type(), iostreamPath, "Reader")) {
		name = strings.TrimPrefix(strings.TrimPrefix(sc.Name(), "Write"), "Read")
		if sc.Name() == "Write" || sc.Name() == "Read" {
			name = "Raw"
		}
		switch sc.Name() {
		case "Offset", "Flush", "Close", "Reset":
			return nil
		}
	} else if n := calleeShort(cc); (n == "io.ReadFull" || n == "io.ReadAtLeast") && len(cc.Args) > 0 {
		if mi, ok := cc.Args[0].(*ssa.MakeInterface); ok && isNamed(mi.X.Type(), iostreamPath, "Reader") {
			name = "Raw"
		}
	}
	if name == "" {
		return nil
	}
	switch name {
	case "Uvarint", "Uint":
		return []wtok{{"V", false}}
	case "Varint", "Int":
		return []wtok{{"Z", false}}
	case "String", "Bytes", "Binary", "Text":
		return []wtok{{"V", false}, {"R", true}}
	case "Raw":
		return []wtok{{"R", false}}
	case "Range":
		body := ""
		if f := asFunc(cc.Args[len(cc.Args)-1]); f != nil {
			body = g.of(originOf(f)).rich
		} else {
			body = "?"
		}
		return []wtok{{"V", false}, {body, true}}
	}
	return []wtok{{name, false}}
}

// loopToken: a call outside the stream API that takes a callback whose body carries stream tokens
// (reader.Range(buffer, chunk, func(r) { w.Write(…) })): a starred group.
func (g *grammar) loopToken(ins ssa.Instruction) []wtok {
	cc, isDefer, isGo := callCommon(ins)
	if cc == nil || isDefer || isGo {
		return nil
	}
	if sc := cc.StaticCallee(); sc != nil && sc.Signature.Recv() != nil && (isNamed(sc.Signature.Recv().Type(), iostreamPath, "Writer") || isNamed(sc.Signature.Recv().Type(), iostreamPath, "Reader")) {
		return nil
	}
	var out []wtok
	for _, a := range cc.Args {
		f := asFunc(a)
		if f == nil || f.Blocks == nil || curProg == nil || !curProg.InLib(f) {
			continue
		}
		if body := g.of(originOf(f)).rich; body != "" {
			out = append(out, wtok{body, true})
		}
	}
	return out
}

type gram struct {
	mandatory []string // distinct mandatory sequences over the non-failing paths
	rich      string   // the longest full canonical sequence
	paths     int
	unknown   string
}

type grammar struct {
	memo map[*ssa.Function]*gram
	busy map[*ssa.Function]bool
}

func canonTokens(ts []wtok) (full, mand string) {
	var f, m []string
	for _, t := range ts {
		if t.s == "" {
			continue
		}
		if t.star {
			s := "(" + t.s + ")*"
			// R* R* ≡ R*; a group repeated right after itself adds nothing
			if len(f) > 0 && f[len(f)-1] == s {
				continue
			}
			f = append(f, s)
		} else {
			f = append(f, t.s)
			// the frame of a record: its lengths and counts. A fixed-width value written once on
			// one path and as the single item of a counted group on another is the same bytes, so
			// only the variable-length integers take part in the comparison between paths.
			if t.s == "V" || t.s == "Z" || t.s == "Self" {
				m = append(m, t.s)
			}
		}
	}
	return strings.Join(f, " "), strings.Join(m, " ")
}

func (g *grammar) of(fn *ssa.Function) *gram {
	if r, ok := g.memo[fn]; ok {
		return r
	}
	if g.busy[fn] {
		return &gram{unknown: "recursion"}
	}
	g.busy[fn] = true
	defer delete(g.busy, fn)
	res := &gram{}
	tokens := map[ssa.Instruction][]wtok{}
	tokOf := func(ins ssa.Instruction) []wtok {
		if t, ok := tokens[ins]; ok {
			return t
		}
		t := g.streamToken(ins)
		if t == nil {
			t = g.loopToken(ins)
		}
		tokens[ins] = t
		return t
	}
	inLoop := map[*ssa.BasicBlock]bool{}
	loopOf := func(b *ssa.BasicBlock) bool {
		if v, ok := inLoop[b]; ok {
			return v
		}
		v := reachAvoiding(b, b, nil, nil)
		inLoop[b] = v
		return v
	}
	cfg := pathCfg{names: []string{"err"}, inlineAll: true, starLoops: true,
		valid: func(as map[string]bool) bool { return !as["err"] },
		leaf: func(c ssa.Value) (string, bool, bool) {
			if x, nonNil, ok := nilTest(c); ok && x.Type().String() == "error" {
				return "err", !nonNil, true
			}
			return "", false, false
		},
		classify: func(ins ssa.Instruction) string {
			if len(tokOf(ins)) > 0 {
				return "tok"
			}
			return ""
		}}
	// a loop with a constant trip count (over a small literal table) is its body, N times
	trips := map[*ssa.BasicBlock]int{}
	tripOf := func(b *ssa.BasicBlock) int {
		if n, ok := trips[b]; ok {
			return n
		}
		n := 0
		for _, hd := range b.Parent().Blocks {
			if len(hd.Instrs) == 0 {
				continue
			}
			iff, isIf := hd.Instrs[len(hd.Instrs)-1].(*ssa.If)
			if !isIf {
				continue
			}
			cmp, isCmp := iff.Cond.(*ssa.BinOp)
			if !isCmp || cmp.Op != token.LSS {
				continue
			}
			lim, isC := constInt(cmp.Y)
			if !isC || lim < 1 || lim > 8 {
				continue
			}
			start, okStart := int64(0), false
			switch x := cmp.X.(type) {
			case *ssa.Phi: // for i := 0; i < N; i++
				for _, e := range x.Edges {
					if c, isK := constInt(e); isK {
						start, okStart = c, true
					}
				}
			case *ssa.BinOp: // range over an array: i = φ(-1, i) + 1
				if phi, isPhi := x.X.(*ssa.Phi); isPhi && x.Op == token.ADD {
					if one, isOne := constInt(x.Y); isOne && one == 1 {
						for _, e := range phi.Edges {
							if c, isK := constInt(e); isK {
								start, okStart = c+1, true
							}
						}
					}
				}
			}
			if !okStart || start != 0 {
				continue
			}
			if (hd == b || reachAvoiding(hd.Succs[0], b, func(x *ssa.BasicBlock) bool { return x == hd }, nil) || hd.Succs[0] == b) && reachAvoiding(b, hd, nil, nil) {
				n = int(lim)
			}
		}
		trips[b] = n
		return n
	}
	mand := map[string]bool{}
	ok, why := evalPathsDeep(fn, cfg, func(_ map[string]bool, ev []pathEvent, ret *ssa.Return) bool {
		if ret == nil {
			return true // a path cut at the second pass through a loop: its first pass is accounted for
		}
		var ts []wtok
		for _, e := range ev {
			star := loopOf(e.Ins.Block())
			reps := 1
			if star {
				if n := tripOf(e.Ins.Block()); n > 0 {
					star, reps = false, n
				}
			}
			for i := 0; i < reps; i++ {
				for _, t := range tokOf(e.Ins) {
					if star && !t.star {
						t = wtok{t.s, true}
					}
					ts = append(ts, t)
				}
			}
		}
		// consecutive starred primitives of one loop body form one group
		var grouped []wtok
		for i := 0; i < len(ts); i++ {
			if ts[i].star && !strings.ContainsAny(ts[i].s, "(") && i+1 < len(ts) && ts[i+1].star && !strings.ContainsAny(ts[i+1].s, "(") {
				j := i
				var parts []string
				for j < len(ts) && ts[j].star && !strings.ContainsAny(ts[j].s, "(") {
					parts = append(parts, ts[j].s)
					j++
				}
				grouped = append(grouped, wtok{strings.Join(parts, " "), true})
				i = j - 1
				continue
			}
			grouped = append(grouped, ts[i])
		}
		full, m := canonTokens(grouped)
		mand[m] = true
		res.paths++
		if len(full) > len(res.rich) {
			res.rich = full
		}
		return true
	})
	if !ok {
		res.unknown = why
	}
	for m := range mand {
		res.mandatory = append(res.mandatory, m)
	}
	sort.Strings(res.mandatory)
	g.memo[fn] = res
	return res
}

type nestedGram struct {
	fn *ssa.Function
	g  *gram
}

// inconsistent: the functions summarised since `before` whose non-failing paths disagree on their
// mandatory tokens.
func (g *grammar) inconsistent(before map[*ssa.Function]bool) []nestedGram {
	var out []nestedGram
	for f, gr := range g.memo {
		if !before[f] && len(gr.mandatory) > 1 {
			out = append(out, nestedGram{f, gr})
		}
	}
	sort.Slice(out, func(i, j int) bool { return fnName(out[i].fn) < fnName(out[j].fn) })
	return out
}

// ruleWireGrammar: C05.grammar
func ruleWireGrammar(r *Report) {
	h := r.Rule("C05.grammar", "G (wire grammar)", "for each serialiser/deserialiser pair: every non-failing path of the writer emits the same frame (the lengths and counts a record contains whatever its data), every non-failing path of the reader consumes the same one, the two are equal, and the full sequences with their repeated groups agree — a reader cannot know which path the writer took", 8)
	g := &grammar{memo: map[*ssa.Function]*gram{}, busy: map[*ssa.Function]bool{}}
	type pair struct{ name, w, r string }
	for _, p := range []pair{
		{"Commit", "(*commit.Commit).WriteTo", "(*commit.Commit).ReadFrom"},
		{"Buffer", "(*commit.Buffer).WriteTo", "(*commit.Buffer).ReadFrom"},
	} {
		wf, rf := r.Anchor(p.w), r.Anchor(p.r)
		if wf == nil || rf == nil {
			continue
		}
		before := map[*ssa.Function]bool{}
		for f := range g.memo {
			before[f] = true
		}
		gw := g.of(wf)
		nestedW := g.inconsistent(before)
		for f := range g.memo {
			before[f] = true
		}
		gr := g.of(rf)
		nestedR := g.inconsistent(before)
		if gw.unknown != "" || gr.unknown != "" || gw.paths == 0 || gr.paths == 0 {
			h.Unknown(p.name+"/paths", r.P.Pos(wf.Pos()), fmt.Sprintf("token sequences not computable (writer: %s, %d paths; reader: %s, %d paths)", gw.unknown, gw.paths, gr.unknown, gr.paths))
			continue
		}
		wm, rm := gw.mandatory, gr.mandatory
		wWhere, rWhere := p.w, p.r
		if len(wm) == 1 && len(nestedW) > 0 {
			wm, wWhere = nestedW[0].g.mandatory, fnName(nestedW[0].fn)+" (the per-item callback of "+p.w+")"
		}
		if len(rm) == 1 && len(nestedR) > 0 {
			rm, rWhere = nestedR[0].g.mandatory, fnName(nestedR[0].fn)+" (the per-item callback of "+p.r+")"
		}
		h.Check(len(wm) == 1, p.name+"/writer-paths-agree", r.P.Pos(wf.Pos()), fmt.Sprintf("%d non-failing paths, frame: %s", gw.paths, strings.Join(gw.mandatory, " | ")), fmt.Sprintf("the non-failing paths of %s do not emit the same frame of lengths and counts (%s): a path that omits a length or a field produces a record the reader misparses, together with everything that follows it in the stream", wWhere, strings.Join(wm, "  |  ")))
		h.Check(len(rm) == 1, p.name+"/reader-paths-agree", r.P.Pos(rf.Pos()), fmt.Sprintf("%d non-failing paths, frame: %s", gr.paths, strings.Join(gr.mandatory, " | ")), fmt.Sprintf("the non-failing paths of %s do not consume the same frame of lengths and counts (%s)", rWhere, strings.Join(rm, "  |  ")))
		if len(gw.mandatory) >= 1 && len(gr.mandatory) >= 1 {
			h.Check(gw.mandatory[len(gw.mandatory)-1] == gr.mandatory[len(gr.mandatory)-1] && len(gw.mandatory) == len(gr.mandatory), p.name+"/mandatory", r.P.Pos(wf.Pos()), "writer and reader agree on the mandatory tokens", fmt.Sprintf("writer and reader disagree on the tokens every record contains: writer [%s], reader [%s]", strings.Join(gw.mandatory, " | "), strings.Join(gr.mandatory, " | ")))
		}
		h.Check(gw.rich == gr.rich, p.name+"/groups", r.P.Pos(wf.Pos()), "full sequence: "+gw.rich, fmt.Sprintf("writer and reader disagree on the record layout: writer [%s], reader [%s]", gw.rich, gr.rich))
	}
}
