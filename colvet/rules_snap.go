package colvet

import (
	"fmt"
	"go/token"
	"go/types"
	"strings"

	"golang.org/x/tools/go/ssa"
)

// isCallOrDefer matches a (possibly deferred) call of one of the named functions.
func isCallOrDefer(names ...string) func(ssa.Instruction) bool {
	return func(ins ssa.Instruction) bool {
		cc, _, isGo := callCommon(ins)
		return cc != nil && !isGo && calleeIs(cc, names...)
	}
}

// ---------------------------------------------------------------------------------------------
// C08

func ruleSnapshotOrder(r *Report) {
	h := r.Rule("C08.order", "P", "Snapshot opens the recorder before it reads the first block and copies the recorded log behind the state: recorderOpen ≺ writeState ≺ Log.Copy of the recorder into the same destination", 2)
	fn := r.Anchor("(*column.Collection).Snapshot")
	if fn == nil {
		return
	}
	// each stage may sit in an unexported helper (recordState: writeState, then uninstall)
	open := callsToDeep(fn, false, "(*column.Collection).recorderOpen")
	ws := callsToDeep(fn, false, "(*column.Collection).writeState")
	cp := callsToDeep(fn, false, "(*commit.Log).Copy")
	if len(open) != 1 || len(ws) != 1 || len(cp) != 1 {
		h.Bad("(*column.Collection).Snapshot/order", r.P.Pos(fn.Pos()), "recorderOpen / writeState / Log.Copy not found exactly once")
		return
	}
	// a ≺ b: where they stand if that is one function, at their sites in Snapshot otherwise
	before := func(a, b deepCall) bool {
		if a.Inner.Parent() == b.Inner.Parent() {
			return precedes(a.Inner, b.Inner)
		}
		return a.Site != b.Site && precedes(a.Site, b.Site)
	}
	ok := before(open[0], ws[0]) && before(ws[0], cp[0])
	h.Check(ok, "(*column.Collection).Snapshot/order", r.P.InstrPos(ws[0].Inner), "open ≺ state ≺ copy", "the recorder is not opened before the state is written, or the recorded log is not copied after the state: commits applied while the state is written are lost or precede the state in the stream")
	// the recorder stays installed while the state is written: no uninstall before writeState returned
	early := false
	for _, c := range callsToDeep(fn, false, "(*column.Collection).recorderClose") {
		if !before(ws[0], c) {
			early = true
		}
	}
	h.Check(!early, "(*column.Collection).Snapshot/recording-while-writing", r.P.InstrPos(ws[0].Inner), "the recorder is uninstalled only after the state was written", "the recorder is uninstalled before (or on a path that does not pass) writeState: the commits applied while the blocks are being written are recorded nowhere")
	cc, _, _ := callCommon(cp[0].Inner)
	same := false
	if oc, isCall := open[0].Inner.(*ssa.Call); isCall && open[0].Inner.Parent() == fn && cp[0].Inner.Parent() == fn {
		rec, isEx := extractOf(cc.Args[0], 0)
		same = isEx && rec == oc && sameExpr(cc.Args[1], fn.Params[1])
	}
	// the state goes to the same destination (through the s2 writer)
	wcc, _, _ := callCommon(ws[0].Inner)
	fromDst := func(v ssa.Value) bool {
		if v == ssa.Value(fn.Params[1]) {
			return true
		}
		// the helper's parameter that Snapshot binds to its destination
		if p, isP := v.(*ssa.Parameter); isP && p.Parent() != fn {
			if a := paramArg(p); a != nil {
				return dependsOn(a, func(z ssa.Value) bool { return z == ssa.Value(fn.Params[1]) }, 6)
			}
		}
		return false
	}
	dstOK := dependsOn(wcc.Args[1], fromDst, 6)
	h.Check(same && dstOK, "(*column.Collection).Snapshot/stream", r.P.InstrPos(cp[0].Inner), "state and recorded log go to the caller's writer", "the log copied is not the recorder opened for this snapshot, or state and log do not go to the same destination")
}

func ruleRestoreGuard(r *Report) {
	h := r.Rule("C08.replay", "P", "Restore replays a logged commit only when its id is not below the id stored for the commit's own block (unknown blocks count as 0); it replays through Collection.Replay", 2)
	fn := r.Anchor("(*column.Collection).Restore")
	if fn == nil {
		return
	}
	var cb *ssa.Function
	for _, c := range callsTo(fn, false, "(*commit.Log).Range") {
		cc, _, _ := callCommon(c)
		cb = asFunc(cc.Args[1])
	}
	if cb == nil {
		h.Unknown("(*column.Collection).Restore/callback", r.P.Pos(fn.Pos()), "callback of Log.Range not recognised")
		return
	}
	repsD := callsToDeep(cb, false, "(*column.Collection).Replay")
	if len(repsD) != 1 {
		h.Bad("(*column.Collection).Restore/guard", r.P.Pos(cb.Pos()), "Replay not called exactly once in the log callback")
		return
	}
	reps := []ssa.Instruction{repsD[0].Inner}
	isID := func(v ssa.Value) bool {
		fr, ok := loadedField(v)
		return ok && fr.Struct == "commit.Commit" && fr.Field == "ID"
	}
	isStored := func(v ssa.Value) bool {
		v = norm(v)
		var lk *ssa.Lookup
		switch x := v.(type) {
		case *ssa.Lookup:
			lk = x
		case *ssa.Extract:
			lk, _ = x.Tuple.(*ssa.Lookup)
		}
		if lk == nil {
			return false
		}
		fr, ok := loadedField(lk.Index)
		if !ok || fr.Struct != "commit.Commit" || fr.Field != "Chunk" {
			return false
		}
		// the map is the one readState returned
		m := freeVarValue(norm(lk.X))
		cl, isEx := extractOf(m, 0)
		return isEx && calleeIs(&cl.Call, "(*column.Collection).readState")
	}
	ok := edgeGuarded(reps[0].Block(), func(c ssa.Value) (bool, bool) {
		// c ≡ (x < y) xor neg
		x, y, neg, isCmp := lessThan(c)
		if !isCmp {
			return false, false
		}
		switch {
		case isStored(x) && isID(y): // stored < id (or its negation id <= stored): replay where it holds
			return true, !neg
		case isID(x) && isStored(y): // id < stored (or its negation id >= stored): replay where it does not hold
			return true, neg
		}
		return false, false
	})
	// the commit replayed is the one tested
	rc, _, _ := callCommon(reps[0])
	same := sameExpr(rc.Args[1], cbParam(cb, 0)) || sameE(rc.Args[1], repsD[0].Env, cbParam(cb, 0), nil, 0) || isLoadOfSpill(rc.Args[1], repsD[0].Env, cbParam(cb, 0))
	if ld, isLd := rc.Args[1].(*ssa.UnOp); isLd {
		if al, isAl := ld.X.(*ssa.Alloc); isAl {
			for _, ref := range *al.Referrers() {
				if st, isSt := ref.(*ssa.Store); isSt && st.Addr == al && st.Val == ssa.Value(cbParam(cb, 0)) {
					same = true
				}
			}
		}
	}
	h.Check(ok && same, "(*column.Collection).Restore/guard", r.P.InstrPos(reps[0]), "Replay(commit) ⇐ commit.ID ≥/> stored[commit.Chunk]", "the replay of a logged commit is not guarded by a comparison of its id with the id stored for its own block that excludes older commits: commits already contained in the block state are applied twice, or newer ones are skipped")
	// state first, error stops
	rs := callsTo(fn, false, "(*column.Collection).readState")
	lr := callsTo(fn, false, "(*commit.Log).Range")
	ok2 := len(rs) == 1 && len(lr) == 1 && edgeGuarded(lr[0].Block(), func(c ssa.Value) (bool, bool) {
		x, nonNil, isN := nilTest(c)
		if !isN {
			return false, false
		}
		if cl, isEx := extractOf(x, 1); isEx && cl == rs[0].(*ssa.Call) {
			return true, !nonNil
		}
		return false, false
	})
	h.Check(ok2, "(*column.Collection).Restore/state-first", r.P.Pos(fn.Pos()), "log replayed only after the state was read without error", "Restore touches the commit log although reading the state failed (or before reading it)")
}

// isLoadOfSpill: v (read in the scope env) is the struct-typed callback parameter par, possibly
// after being handed by value to a helper and spilled to a local on each side.
func isLoadOfSpill(v ssa.Value, env *venv, par *ssa.Parameter) bool {
	if par == nil {
		return false
	}
	for i := 0; i < 4; i++ {
		n, e := normE(v, env, false)
		if n == ssa.Value(par) {
			return true
		}
		ld, ok := n.(*ssa.UnOp)
		if !ok || ld.Op != token.MUL {
			return false
		}
		al, ok := ld.X.(*ssa.Alloc)
		if !ok {
			return false
		}
		var stored ssa.Value
		cnt := 0
		for _, ref := range *al.Referrers() {
			if st, isSt := ref.(*ssa.Store); isSt && st.Addr == ssa.Value(al) {
				stored = st.Val
				cnt++
			}
		}
		if cnt != 1 {
			return false
		}
		v, env = stored, e
	}
	return false
}

func ruleReadChunk(r *Report) {
	L := r.Shared.Lockset()
	h := r.Rule("C08.read", "L", "the snapshot reads a block's last commit id and fill slice, and snapshots every column of the block, while holding the block's latch and the collection mutex", 2)
	fn := r.Anchor("(*column.Collection).readChunk")
	if fn == nil {
		return
	}
	for _, c := range userCallIn(fn) {
		ss := L.UserCB[c]
		if len(ss) == 0 {
			ss = L.At[c]
		}
		bad := worstSite(ss, func(h heldSet) bool { return h.has("latch") && h.has("Collection.lock") })
		if len(ss) == 0 {
			h.Unknown("(*column.Collection).readChunk/callback", r.P.InstrPos(c), "callback invocation was not reached by the lockset walk")
		} else if bad != nil {
			o := h.Bad("(*column.Collection).readChunk/callback", r.P.InstrPos(c), "the per-block snapshot callback runs without the block latch and the collection mutex: the block state written is not a state between two commits")
			setWitness(o, bad)
		} else {
			h.OK("(*column.Collection).readChunk/callback", r.P.InstrPos(c), "under latch + Collection.lock")
		}
		// arguments: commits[chunk], chunk, OfBitmap(fill) — evaluated under the locks
		argsOK := len(c.Call.Args) == 3
		if argsOK {
			// commits[block], or 0 for a block the table does not cover yet (`last := 0; if block <
			// len(commits) { last = commits[block] }`)
			id := c.Call.Args[0]
			idx := ssa.Value(fn.Params[1])
			if hc, isCall := id.(*ssa.Call); isCall && hc.Call.StaticCallee() != nil && isHelper(hc.Call.StaticCallee()) {
				// lastCommitOf(block): a helper with two returns, 0 and commits[its parameter], called with the block
				g := originOf(hc.Call.StaticCallee())
				var ld ssa.Value
				zero, other := false, false
				for _, ret := range returnsOf(g) {
					if len(ret.Results) != 1 {
						other = true
						continue
					}
					if k, isC := constInt(ret.Results[0]); isC && k == 0 {
						zero = true
					} else if ld == nil {
						ld = ret.Results[0]
					} else {
						other = true
					}
				}
				if ld != nil && !other && (zero || len(returnsOf(g)) == 1) {
					for i, p := range g.Params {
						if i < len(hc.Call.Args) && sameExpr(hc.Call.Args[i], fn.Params[1]) && isNamed(p.Type(), CommitPath, "Chunk") {
							id, idx = ld, p
						}
					}
				}
			}
			if phi, isPhi := id.(*ssa.Phi); isPhi {
				var ld ssa.Value
				zero := false
				for _, e := range phi.Edges {
					if k, isC := constInt(e); isC && k == 0 {
						zero = true
					} else {
						ld = e
					}
				}
				if zero && ld != nil {
					id = ld
				}
			}
			ld, isLd := id.(*ssa.UnOp)
			if !isLd {
				argsOK = false
			} else if ia, isIA := ld.X.(*ssa.IndexAddr); !isIA {
				argsOK = false
			} else if fr, isF := loadedField(ia.X); !isF || fr.Field != "commits" || !sameExpr(ia.Index, idx) {
				argsOK = false
			}
			if !sameExpr(c.Call.Args[1], fn.Params[1]) {
				argsOK = false
			}
			if ob, isC := c.Call.Args[2].(*ssa.Call); !isC || !calleeIs(&ob.Call, "(commit.Chunk).OfBitmap") || !sameExpr(ob.Call.Args[0], fn.Params[1]) {
				argsOK = false
			} else if fr, isF := loadedField(ob.Call.Args[1]); !isF || fr.Field != "fill" {
				argsOK = false
			}
		}
		h.Check(argsOK, "(*column.Collection).readChunk/args", r.P.InstrPos(c), "callback(commits[block], block, fill-of-block)", "readChunk does not hand the block's own commit id and fill slice to the callback")
	}
	// the table of commit ids is grown at commit time, the fill list when an offset is reserved: a
	// block of the fill list may not be covered by the table yet (a transaction that has not committed
	// holds an offset in it), so the snapshot's index into the table is tested against its length
	for _, g := range deepFuncs(fn) {
		allInstrs(g, func(ins ssa.Instruction) {
			ia, isIA := ins.(*ssa.IndexAddr)
			if !isIA {
				return
			}
			fr, isF := loadedField(ia.X)
			if !isF || fr.Struct != "column.Collection" || fr.Field != "commits" {
				return
			}
			ok := edgeGuarded(ia.Block(), func(c ssa.Value) (bool, bool) {
				bo, isB := strip(c).(*ssa.BinOp)
				if !isB {
					return false, false
				}
				op, x, y, _, _ := canonBin(bo)
				isLen := func(v ssa.Value) bool {
					return dependsOn(v, func(z ssa.Value) bool {
						cl, isC := z.(*ssa.Call)
						if !isC || len(cl.Call.Args) != 1 {
							return false
						}
						b, isBI := cl.Call.Value.(*ssa.Builtin)
						if !isBI || b.Name() != "len" {
							return false
						}
						f2, isF2 := loadedField(cl.Call.Args[0])
						return isF2 && f2.Field == "commits"
					}, 4)
				}
				isIdx := func(v ssa.Value) bool {
					return dependsOn(v, func(z ssa.Value) bool { return sameExpr(z, ia.Index) }, 4)
				}
				switch {
				case op == token.LSS && isIdx(x) && isLen(y): // idx < len
					return true, true
				case op == token.LEQ && isLen(x) && isIdx(y): // len <= idx
					return true, false
				}
				return false, false
			})
			h.Check(ok, "(*column.Collection).readChunk/commits-in-range", r.P.InstrPos(ins), "the index into the commit-id table is tested against its length", "the snapshot indexes the commit-id table with a block of the fill list without testing it against the table's length: the table is grown at commit time, the fill list when an offset is reserved, so Snapshot panics (index out of range) beside a transaction that holds a reserved offset in a block no commit has created yet")
		})
	}
	// the number of blocks a snapshot (and an index back-fill) visits is bounded by the blocks a commit has
	// reached: the fill list also holds the offsets open transactions have reserved, and the columns
	// are grown to a block only when the first commit reaches it
	if cf := r.Anchor("(*column.Collection).chunks"); cf != nil {
		ok, n := true, 0
		for _, ret := range returnsOf(cf) {
			if len(ret.Results) != 1 {
				continue
			}
			if k, isC := constInt(ret.Results[0]); isC && k == 0 {
				continue
			}
			n++
			isLenCommits := func(z ssa.Value) bool {
				cl, isC := z.(*ssa.Call)
				if !isC || len(cl.Call.Args) != 1 {
					return false
				}
				b, isBI := cl.Call.Value.(*ssa.Builtin)
				if !isBI || b.Name() != "len" {
					return false
				}
				f2, isF2 := loadedField(cl.Call.Args[0])
				return isF2 && f2.Struct == "column.Collection" && f2.Field == "commits"
			}
			if !boundedBy(ret, ret.Results[0], isLenCommits, 6) {
				ok = false
			}
			// where the bound enters through `if chunks > len(commits) { chunks = len(commits) }` the
			// branch has the polarity of a minimum: the table's length is taken when it is the smaller one
			rv := ret.Results[0]
			if ld, isLd := rv.(*ssa.UnOp); isLd && ld.Op == token.MUL {
				if vals := cellStoresBefore(ret); len(vals) == 1 {
					rv = vals[0] // spilled round the deferred unlock
				}
			}
			if phi, isPhi := strip(rv).(*ssa.Phi); isPhi && len(phi.Edges) == 2 {
				for i, e := range phi.Edges {
					if dependsOn(e, isLenCommits, 4) && !dependsOn(phi.Edges[1-i], isLenCommits, 4) && clampPolarity(phi, i) > 0 {
						ok = false
					}
				}
			}
		}
		h.Check(ok && n > 0, "(*column.Collection).chunks/committed-extent", r.P.Pos(cf.Pos()), "the block count is bounded by the blocks a commit has reached", "the number of blocks is taken from the fill list alone: a block that only holds offsets reserved by open transactions is visited although the columns have not been grown to it, and Snapshot (or an index back-fill) indexes column storage out of range beside an open inserting transaction")
	}
	// writeState writes the id it was given, and the inserts from that fill slice
	ws := r.Anchor("(*column.Collection).writeState")
	if ws != nil {
		ok := false
		for _, g := range deepFuncs(ws) {
			for _, rc := range callsTo(g, false, "(*column.Collection).readChunk") {
				rcc, _, _ := callCommon(rc)
				f := asFunc(norm(rcc.Args[2]))
				if f == nil || cbParam(f, 2) == nil || cbParam(f, 3) != nil {
					continue
				}
				f = originOf(f)
				for _, c := range callsToDeep(f, false, "(*iostream.Writer).WriteUvarint") {
					cc, _, _ := callCommon(c.Inner)
					if c.same(cc.Args[1], cbParam(f, 0)) {
						ok = true
					}
				}
			}
		}
		h.Check(ok, "(*column.Collection).writeState/id", r.P.Pos(ws.Pos()), "writes the id read under the latch", "the block's last commit id written to the snapshot is not the one read under the latch")
	}
}

// countedLoop: block `in` lies in a loop of fn that runs exactly n times, n accepted by isCount:
// counting up (i := 0; i < n; i++) or down (k := n; k > 0 / k != 0; k--), in any spelling.
func countedLoop(fn *ssa.Function, in *ssa.BasicBlock, isCount func(ssa.Value) bool) bool {
	found := false
	allInstrs(fn, func(ins ssa.Instruction) {
		phi, isPhi := ins.(*ssa.Phi)
		if !isPhi || len(phi.Edges) != 2 || found {
			return
		}
		// the loop of this φ contains `in`
		if !(reachAvoiding(phi.Block(), in, nil, nil) || phi.Block() == in) || !reachAvoiding(in, phi.Block(), nil, nil) {
			return
		}
		var init ssa.Value
		step := int64(0)
		for _, e := range phi.Edges {
			if bo, isB := e.(*ssa.BinOp); isB && bo.X == ssa.Value(phi) && (bo.Op == token.ADD || bo.Op == token.SUB) {
				if c, isC := constInt(bo.Y); isC && (c == 1 || c == -1) {
					step = c
					if bo.Op == token.SUB {
						step = -c
					}
					continue
				}
			}
			init = e
		}
		if init == nil || step == 0 {
			return
		}
		// the exit test of the loop
		for _, ref := range *phi.Referrers() {
			bo, isB := ref.(*ssa.BinOp)
			if !isB {
				continue
			}
			usedAsExit := false
			for _, r2 := range *bo.Referrers() {
				if iff, isIf := r2.(*ssa.If); isIf {
					// one edge stays in the loop, the other leaves it
					a, b := iff.Block().Succs[0], iff.Block().Succs[1]
					ra := a == phi.Block() || reachAvoiding(a, phi.Block(), nil, nil)
					rb := b == phi.Block() || reachAvoiding(b, phi.Block(), nil, nil)
					if ra != rb {
						usedAsExit = true
					}
				}
			}
			if !usedAsExit {
				continue
			}
			if x, y, neg, ok := lessThan(bo); ok && !neg {
				if zero, isC := constInt(init); step == 1 && isC && zero == 0 && x == ssa.Value(phi) && isCount(y) {
					found = true // i := 0; i < n; i++
				}
				if zero, isC := constInt(x); step == -1 && isC && zero == 0 && y == ssa.Value(phi) && isCount(init) {
					found = true // k := n; 0 < k; k--
				}
			}
			if bo.Op == token.NEQ && step == -1 && isCount(init) {
				if zero, isC := constInt(bo.Y); isC && zero == 0 && bo.X == ssa.Value(phi) {
					found = true // k := n; k != 0; k--
				}
			}
		}
	})
	return found
}

// ---------------------------------------------------------------------------------------------
// C14.pair

func ruleSnapshotCleanup(r *Report) {
	h := r.Rule("C14.pair", "P", "after the recorder was opened every exit of Snapshot passes recorderClose, a Close of the temporary log and the removal of its file; when the recorder cannot be installed the file just created is closed and removed", 4)
	fn := r.Anchor("(*column.Collection).Snapshot")
	if fn != nil {
		open := callsTo(fn, false, "(*column.Collection).recorderOpen")
		if len(open) == 1 {
			// the block reached on success: false edge of err != nil
			var succ *ssa.BasicBlock
			for _, b := range fn.Blocks {
				iff, ok := b.Instrs[len(b.Instrs)-1].(*ssa.If)
				if !ok {
					continue
				}
				if x, nonNil, isN := nilTest(iff.Cond); isN {
					if cl, isEx := extractOf(x, 1); isEx && cl == open[0].(*ssa.Call) {
						if nonNil {
							succ = b.Succs[1]
						} else {
							succ = b.Succs[0]
						}
					}
				}
			}
			if succ == nil {
				h.Unknown("(*column.Collection).Snapshot/open", r.P.InstrPos(open[0]), "test of recorderOpen's error not recognised")
			} else {
				ok1, ex1 := mustPassToReturn(succ, 0, isCallOrDefer("(*column.Collection).recorderClose"))
				h.Check(ok1, "(*column.Collection).Snapshot/recorderClose", r.P.InstrPos(ex1), "recorder uninstalled on every exit", "an exit of Snapshot after the recorder was opened does not uninstall it: every later Snapshot fails (\"another one might be in progress\") and every later commit is appended to an unlinked temporary file")
				ok2, ex2 := mustPassToReturn(succ, 0, func(ins ssa.Instruction) bool {
					cc, _, isGo := callCommon(ins)
					if cc == nil || isGo || !calleeIs(cc, "(*commit.Log).Close") {
						return false
					}
					cl, isEx := extractOf(norm(cc.Args[0]), 0)
					return isEx && cl == open[0].(*ssa.Call)
				})
				h.Check(ok2, "(*column.Collection).Snapshot/close", r.P.InstrPos(ex2), "temporary log closed on every exit", "an exit of Snapshot leaves the temporary log's file descriptor open")
				ok3, ex3 := mustPassToReturn(succ, 0, func(ins ssa.Instruction) bool {
					cc, _, isGo := callCommon(ins)
					if cc == nil || isGo || !calleeIs(cc, "os.Remove", "os.RemoveAll") {
						return false
					}
					return dependsOn(cc.Args[0], func(v ssa.Value) bool {
						c, ok := v.(*ssa.Call)
						return ok && calleeIs(&c.Call, "(*commit.Log).Name")
					}, 4)
				})
				h.Check(ok3, "(*column.Collection).Snapshot/remove", r.P.InstrPos(ex3), "temporary file removed on every exit", "an exit of Snapshot leaves the temporary log file behind")
			}
		}
	}
	if sn := r.Anchor("(*column.Collection).Snapshot"); sn != nil {
		// … and only once: a second uninstall (a deferred clean-up helper that also detaches, after the
		// explicit one) runs when the next snapshot may already have installed its recorder
		var sites []ssa.Instruction
		deferred := 0
		allInstrs(sn, func(ins ssa.Instruction) {
			cc, isDefer, _ := callCommon(ins)
			if cc == nil || cc.StaticCallee() == nil {
				return
			}
			o := originOf(cc.StaticCallee())
			hit := reachesFn(o, "(*column.Collection).recorderClose", 3)
			if hit {
				sites = append(sites, ins)
				if isDefer {
					deferred++
				}
			}
		})
		twice := deferred > 0 && len(sites) > 1
		for i := range sites {
			for j := range sites {
				if i != j && canReach(sites[i], sites[j]) {
					twice = true
				}
			}
		}
		if len(sites) > 0 {
			h.Check(!twice, "(*column.Collection).Snapshot/uninstall-once", r.P.InstrPos(sites[0]), "the recorder is uninstalled once per snapshot", "a path of Snapshot uninstalls the recorder twice: the second time it detaches whatever is attached by then — the recorder of a snapshot that started while this one was copying its log")
		}
	}
	ro := r.Anchor("(*column.Collection).recorderOpen")
	if ro != nil {
		cas := callsTo(ro, false, "sync/atomic.CompareAndSwapPointer")
		if len(cas) != 1 {
			h.Unknown("(*column.Collection).recorderOpen/cas", r.P.Pos(ro.Pos()), "installation of the recorder (compare-and-swap) not recognised")
		} else {
			var fail *ssa.BasicBlock
			for _, b := range ro.Blocks {
				if iff, ok := b.Instrs[len(b.Instrs)-1].(*ssa.If); ok {
					c := iff.Cond
					neg := false
					if inner, isN := isNot(c); isN {
						c, neg = inner, true
					}
					if c == ssa.Value(cas[0].(*ssa.Call)) {
						if neg {
							fail = b.Succs[0]
						} else {
							fail = b.Succs[1]
						}
					}
				}
			}
			if fail == nil {
				h.Unknown("(*column.Collection).recorderOpen/cas", r.P.InstrPos(cas[0]), "branch on the compare-and-swap not recognised")
			} else {
				okC, _ := mustPassToReturn(fail, 0, isCallOrDefer("(*commit.Log).Close"))
				okR, _ := mustPassToReturn(fail, 0, isCallOrDefer("os.Remove", "os.RemoveAll"))
				h.Check(okC && okR, "(*column.Collection).recorderOpen/cas-fail", r.P.InstrPos(cas[0]), "losing the race cleans the file up", "when another snapshot is in progress the temporary file just created is neither closed nor removed")
				// and the failure is reported
				errRet := false
				for _, ret := range returnsOf(ro) {
					if fail.Dominates(ret.Block()) && len(ret.Results) == 2 && !isConstNil(ret.Results[1]) {
						errRet = true
					}
				}
				h.Check(errRet, "(*column.Collection).recorderOpen/cas-error", r.P.InstrPos(cas[0]), "reports an error", "recorderOpen does not report an error when another snapshot is in progress")
				// the loser leaves the winner's recorder alone: nothing below the failed compare-and-swap
				// uninstalls (recorderClose detaches whatever is attached, not what the caller holds)
				detaches := false
				for _, b := range ro.Blocks {
					if b != fail && !fail.Dominates(b) {
						continue
					}
					for _, ins := range b.Instrs {
						cc, _, _ := callCommon(ins)
						if cc == nil || cc.StaticCallee() == nil {
							continue
						}
						if reachesFn(originOf(cc.StaticCallee()), "(*column.Collection).recorderClose", 3) {
							detaches = true
						}
					}
				}
				h.Check(!detaches, "(*column.Collection).recorderOpen/cas-fail-keeps-winner", r.P.InstrPos(cas[0]), "the losing snapshot does not uninstall", "a Snapshot that is refused because another one is in progress uninstalls the recorder — the other snapshot's: the commits applied from then on are recorded nowhere and the running snapshot restores without them")
			}
		}
	}
	rc := r.Anchor("(*column.Collection).recorderClose")
	if rc != nil {
		ok := false
		for _, c := range callsTo(rc, false, "sync/atomic.StorePointer", "sync/atomic.SwapPointer", "sync/atomic.CompareAndSwapPointer") {
			cc, _, _ := callCommon(c)
			if dependsOn(cc.Args[0], func(v ssa.Value) bool {
				fr, ok := fieldOf(v)
				return ok && fr.Struct == "column.Collection" && fr.Field == "record"
			}, 5) {
				for _, a := range cc.Args[1:] {
					if c, isC := a.(*ssa.Const); isC && c.Value == nil {
						ok = true
					}
				}
			}
		}
		h.Check(ok, "(*column.Collection).recorderClose", r.P.Pos(rc.Pos()), "record := nil", "recorderClose does not reset the recorder pointer")
	}
}

// ---------------------------------------------------------------------------------------------
// X: error flow

type errException struct{ fn, callee, reason string }

func ruleErrorFlow(r *Report, id, text string, floor int, fns []string, exceptions []errException) {
	h := r.Rule(id, "X", text, floor)
	done := map[*ssa.Function]bool{}
	for _, name := range fns {
		top := r.Anchor(name)
		if top == nil {
			continue
		}
		for _, f := range deepFuncs(top) {
			f := f
			if done[f] {
				continue
			}
			done[f] = true
			// a helper that is only ever invoked by `defer` is cleanup code like a deferred call
			onlyDeferred := false
			if f.Parent() == nil && isHelper(f) {
				uniqueCallOf(f)
				sites := curProg.uniq[originOf(f)]
				onlyDeferred = len(sites) > 0
				for _, ci := range sites {
					if _, isD := ci.(*ssa.Defer); !isD {
						onlyDeferred = false
					}
				}
			}
			n := 0
			var bad *ssa.Call
			var badDefer ssa.Instruction
			badDeferName := ""
			allInstrs(f, func(ins ssa.Instruction) {
				if d, isDefer := ins.(*ssa.Defer); isDefer {
					// a deferred call cannot hand its error to anyone: accepted only for cleanup
					// (removing / closing the temporary log), never for something that still
					// writes (Flush, Sync, Close of a writer, Write…)
					if _, isErr := returnsError(&d.Call); isErr {
						callee := calleeShort(&d.Call)
						if callee == "" && d.Call.IsInvoke() {
							callee = d.Call.Method.Name()
						}
						switch callee {
						case "os.Remove", "os.RemoveAll", "(*commit.Log).Close", "(*os.File).Close":
						default:
							n++
							if badDefer == nil {
								badDefer, badDeferName = ins, callee
							}
						}
					}
					return
				}
				c, ok := ins.(*ssa.Call)
				if !ok {
					return
				}
				if _, isErr := returnsError(&c.Call); !isErr {
					return
				}
				n++
				if !errorDropped(c) {
					return
				}
				callee := calleeShort(&c.Call)
				if callee == "" && c.Call.IsInvoke() {
					callee = c.Call.Method.Name()
				}
				if onlyDeferred {
					switch callee {
					case "os.Remove", "os.RemoveAll", "(*commit.Log).Close", "(*os.File).Close":
						return
					}
				}
				// a helper that only hands on the error of one call stands for that call
				through := ""
				if sc := c.Call.StaticCallee(); sc != nil && isHelper(sc) {
					through = passThroughError(sc)
				}
				for _, e := range exceptions {
					// an exception names a function of the anchored root; statements moved into a
					// helper below that root keep it
					if (e.callee == callee || (through != "" && e.callee == through)) && (e.fn == fnName(f) || ((e.fn == name || strings.HasPrefix(e.fn, name+"$")) && isHelper(topFn(f)))) {
						r.Note("%s: dropped error of %s in %s accepted: %s", id, callee, e.fn, e.reason)
						return
					}
				}
				if bad == nil {
					bad = c
				}
			})
			// an error that was looked at is not swallowed: on the edge where a call's error is non-nil
			// the function does not return a constant nil error
			var swallowed ssa.Instruction
			if f.Signature.Results().Len() > 0 && isErrorType(f.Signature.Results().At(f.Signature.Results().Len()-1).Type()) {
				for _, ret := range returnsOf(f) {
					if len(ret.Results) == 0 {
						continue
					}
					res := ret.Results[len(ret.Results)-1]
					if ld, isLd := res.(*ssa.UnOp); isLd && ld.Op == token.MUL && len(ret.Results) == 1 {
						// a function with deferred calls spills its result into a cell round rundefers
						if vals := cellStoresBefore(ret); len(vals) == 1 {
							res = vals[0]
						}
					}
					if !isConstNil(res) {
						continue
					}
					// directly on the non-nil edge of the test (a return under a further test of the error —
					// `if err == io.EOF { return nil }` — is a decision, not a slip)
					if len(ret.Block().Preds) != 1 {
						continue
					}
					pred := ret.Block().Preds[0]
					iff, isIf := pred.Instrs[len(pred.Instrs)-1].(*ssa.If)
					if !isIf {
						continue
					}
					x, nonNil, isN := nilTest(iff.Cond)
					if !isN || !isErrorType(x.Type()) {
						continue
					}
					if !dependsOn(x, func(z ssa.Value) bool { _, isCall := z.(*ssa.Call); return isCall }, 4) {
						continue
					}
					onNonNil := (nonNil && pred.Succs[0] == ret.Block()) || (!nonNil && pred.Succs[1] == ret.Block())
					if onNonNil && pred.Succs[0] != pred.Succs[1] {
						swallowed = ret
					}
				}
			}
			if swallowed != nil {
				n++
			}
			if n == 0 {
				continue
			}
			if swallowed != nil {
				h.Bad(fnName(f), r.P.InstrPos(swallowed), "an error that was tested is swallowed: on the edge where it is non-nil the function returns nil")
				continue
			}
			if badDefer != nil {
				h.Bad(fnName(f), r.P.InstrPos(badDefer), "the error of the deferred "+badDeferName+" is lost (a deferred call that still writes — flush, sync, close of a writer — must report its error)")
				continue
			}
			if bad != nil {
				callee := calleeShort(&bad.Call)
				if callee == "" {
					callee = bad.Call.Value.Name()
				}
				h.Bad(fnName(f), r.P.InstrPos(bad), "the error returned by "+callee+" is discarded")
			} else {
				h.OK(fnName(f), r.P.Pos(f.Pos()), fmt.Sprintf("%d error-returning calls, none discarded", n))
			}
		}
	}
}

// ---------------------------------------------------------------------------------------------
// C13.whole

func ruleWholeCommits(r *Report) {
	h := r.Rule("C13.whole", "P", "Log.Range hands a commit to its callback only when it was decoded without error and returns every non-EOF error; readState lets a block's transaction commit only after every buffer of the block was read (every read error returns non-nil from the Query callback, i.e. rolls back)", 3)
	if fn := r.Anchor("(*commit.Log).Range"); fn != nil {
		rf := callsToDeep(fn, false, "(*commit.Commit).ReadFrom")
		cbs := userCallIn(fn)
		if len(rf) != 1 || len(cbs) != 1 {
			h.Bad("(*commit.Log).Range/callback", r.P.Pos(fn.Pos()), "ReadFrom / callback not found exactly once")
		} else {
			// the decode error: the error result of ReadFrom, possibly handed up through a helper
			isDecodeErr := func(v ssa.Value) bool {
				cl, ok := extractOf(v, 1)
				return ok && ssa.Instruction(cl) == rf[0].Inner
			}
			isErr := func(v ssa.Value) bool {
				v = norm(v)
				return v.Type().String() == "error" && (isDecodeErr(v) || dependsOn(v, isDecodeErr, 8))
			}
			var resolve func(ssa.Value) ssa.Value
			cfg := pathCfg{names: []string{"decodeFailed"}, starLoops: true, leaf: func(c ssa.Value) (string, bool, bool) {
				if x, nonNil, isN := nilTest(c); isN && isErr(x) {
					return "decodeFailed", !nonNil, true
				}
				return "", false, false
			}, classify: func(ins ssa.Instruction) string {
				switch {
				case ins == rf[0].Inner:
					return "decode"
				case ins == ssa.Instruction(cbs[0]):
					return "callback"
				}
				return ""
			}, withResolve: func(f func(ssa.Value) ssa.Value) { resolve = f }}
			retErr := false
			ok, _ := evalPathsDeep(fn, cfg, func(as map[string]bool, ev []pathEvent, ret *ssa.Return) bool {
				decoded := false
				for _, e := range ev {
					switch e.Name {
					case "decode":
						decoded = true
					case "callback":
						// invoked only after a decode that did not fail
						if !decoded || as["decodeFailed"] {
							return false
						}
						decoded = false
					}
				}
				if ret != nil && as["decodeFailed"] && len(ret.Results) > 0 {
					res := ret.Results[len(ret.Results)-1]
					if _, isLd := res.(*ssa.UnOp); isLd {
						if vals := cellStoresBefore(ret); len(vals) == len(ret.Results) {
							res = vals[len(vals)-1]
						}
					}
					if resolve != nil {
						res = resolve(res)
					}
					if isErr(res) {
						retErr = true
					}
				}
				return true
			})
			h.Check(ok, "(*commit.Log).Range/callback", r.P.InstrPos(cbs[0]), "callback ⇐ ReadFrom returned nil", "a commit is handed to the callback although decoding it failed (a partially decoded commit would be applied)")
			h.Check(retErr, "(*commit.Log).Range/error", r.P.Pos(fn.Pos()), "decode errors are returned", "Log.Range does not return the decode error")
		}
	}
	if fn := r.Anchor("(*column.Collection).readState"); fn != nil {
		// the innermost closure: func(txn *Txn) error
		var inner *ssa.Function
		withClosures(fn, func(f *ssa.Function) {
			if len(f.Params) == 1 && isNamed(f.Params[0].Type(), ModPath, "Txn") {
				inner = f
			}
		})
		if inner == nil {
			h.Unknown("(*column.Collection).readState/txn", r.P.Pos(fn.Pos()), "per-block transaction callback not recognised")
			return
		}
		// the body of the per-block transaction: the closure itself or the helper it delegates to
		txnCb := inner
		for _, g := range deepFuncs(inner) {
			if len(callsTo(g, false, "(*commit.Buffer).ReadFrom")) > 0 {
				inner = g
				break
			}
		}
		// every `return nil` is outside the loop that reads the buffers
		rf := callsTo(inner, false, "(*commit.Buffer).ReadFrom")
		ok := len(rf) == 1
		nNil := 0
		for _, ret := range returnsOf(inner) {
			if len(ret.Results) == 1 && isConstNil(ret.Results[0]) {
				nNil++
				if reachAvoiding(ret.Block(), rf[0].Block(), nil, nil) {
					ok = false
				}
				// reached only after the loop finished: the block does not lie on a cycle
				if reachAvoiding(ret.Block(), ret.Block(), nil, nil) {
					ok = false
				}
			}
		}
		// the append of the buffer happens only when ReadFrom returned nil
		appOK := false
		allInstrs(inner, func(ins ssa.Instruction) {
			st, isSt := ins.(*ssa.Store)
			if !isSt {
				return
			}
			if fr, isF := fieldOf(st.Addr); isF && fr.Struct == "column.Txn" && fr.Field == "updates" {
				// queued only on the edge where ReadFrom returned nil (and therefore after it)
				appOK = len(rf) == 1 && edgeGuarded(ins.Block(), func(c ssa.Value) (bool, bool) {
					x, nonNil, isN := nilTest(c)
					if isN {
						if cl, isEx := extractOf(norm(x), 1); isEx && cl == rf[0].(*ssa.Call) {
							return true, !nonNil
						}
					}
					return false, false
				})
			}
		})
		// the loop around ReadFrom runs exactly `columns` times (the count read from the header)
		bound := len(rf) == 1 && countedLoop(inner, rf[0].Block(), func(v ssa.Value) bool {
			isCountRead := func(x ssa.Value) bool {
				if cl, isEx := extractOf(x, 0); isEx && calleeIs(&cl.Call, "(*iostream.Reader).ReadUvarint") {
					return true
				}
				cl, isCall := x.(*ssa.Call)
				return isCall && calleeIs(&cl.Call, "(*iostream.Reader).ReadUvarint")
			}
			v = norm(v)
			return isCountRead(v) || dependsOn(v, isCountRead, 5)
		})
		// every read error fails the block: on no path does the function return nil, or go on to
		// read the next buffer, after a ReadFrom that returned a non-nil error
		if len(rf) == 1 {
			isReadErr := func(v ssa.Value) bool {
				cl, isEx := extractOf(norm(v), 1)
				return isEx && cl == rf[0].(*ssa.Call)
			}
			cfg := pathCfg{names: []string{"readFailed"}, starLoops: true, leaf: func(c ssa.Value) (string, bool, bool) {
				if x, nonNil, isN := nilTest(c); isN && isReadErr(x) {
					return "readFailed", !nonNil, true
				}
				return "", false, false
			}, classify: func(ins ssa.Instruction) string {
				if ins == rf[0] {
					return "read"
				}
				return ""
			}}
			propagates, _ := evalPathsDeep(inner, cfg, func(as map[string]bool, ev []pathEvent, ret *ssa.Return) bool {
				if !as["readFailed"] || countEvents(ev, "read") == 0 {
					return true
				}
				if ret == nil {
					return false // went round the loop after a failed read
				}
				res := ret.Results[len(ret.Results)-1]
				return !isConstNil(res)
			})
			h.Check(propagates, "(*column.Collection).readState/read-error", r.P.InstrPos(rf[0]), "a failed buffer read fails the block's transaction", "after a buffer read that returned an error the block's transaction can still return nil or go on reading (an error other than the ones tested for is ignored): a snapshot cut inside a compressed frame restores a block with the pages read so far")
		}
		h.Check(ok && nNil == 1 && appOK && bound, "(*column.Collection).readState/block", r.P.Pos(inner.Pos()), "nil only after all `columns` buffers were read", "a block's transaction can commit although not every buffer of the block was read (a truncated block is applied partially)")
		// goes through Query
		q := false
		withClosures(fn, func(f *ssa.Function) {
			for _, c := range callsTo(f, false, "(*column.Collection).Query") {
				cc, _, _ := callCommon(c)
				if asFunc(cc.Args[1]) == txnCb {
					q = true
				}
			}
		})
		h.Check(q, "(*column.Collection).readState/query", r.P.Pos(fn.Pos()), "one transaction per block through Query", "readState does not apply a block through a transaction of its own")
	}
}

// cellStoresBefore: the values a Return yields (looking through the result cell functions with
// defers use).
func cellStoresBefore(ret *ssa.Return) []ssa.Value {
	var out []ssa.Value
	for _, res := range ret.Results {
		if ld, ok := res.(*ssa.UnOp); ok && ld.Op == token.MUL {
			if al, ok := ld.X.(*ssa.Alloc); ok {
				for _, ref := range *al.Referrers() {
					if st, ok := ref.(*ssa.Store); ok && st.Addr == al && st.Block() == ret.Block() {
						out = append(out, st.Val)
					}
				}
				continue
			}
		}
		out = append(out, res)
	}
	return out
}

// ---------------------------------------------------------------------------------------------
// C07.count

// isIndexPredicate: cond is "this registry entry is a bitmap index": a call of column.IsIndex or
// the type test it stands for (Column.(*columnIndex), comma-ok), written out.
func isIndexPredicate(cond ssa.Value) bool {
	if cl, ok := cond.(*ssa.Call); ok {
		if !calleeIs(&cl.Call, "(*column.column).IsIndex") {
			return false
		}
		body := pureGetter(cl.Call.StaticCallee())
		if body == nil {
			return true // not a plain accessor: both sides must then call it (checked by name)
		}
		cond = body
	}
	ex, ok := cond.(*ssa.Extract)
	if !ok || ex.Index != 1 {
		return false
	}
	ta, ok := ex.Tuple.(*ssa.TypeAssert)
	if !ok || !ta.CommaOk {
		return false
	}
	pt, ok := ta.AssertedType.(*types.Pointer)
	if !ok || !isNamed(pt, ModPath, "columnIndex") {
		return false
	}
	fr, ok := loadedField(ta.X)
	return ok && fr.Struct == "column.column" && fr.Field == "Column"
}

func ruleSnapshotCount(r *Report) {
	h := r.Rule("C07.count", "S", "the number of buffers announced per block equals the number written: the column count and the skip in column.Snapshot use the same predicate (IsIndex), writeState writes one buffer for the insert markers plus one per non-skipped registry entry, readState reads that many per block", 5)
	cnt := r.Anchor("(*column.columns).Count")
	snap := r.Anchor("(*column.column).Snapshot")
	if cnt != nil && snap != nil {
		// Count: count++ on the false edge of IsIndex
		incOK := false
		allInstrs(cnt, func(ins ssa.Instruction) {
			bo, ok := ins.(*ssa.BinOp)
			if !ok || bo.Op != token.ADD {
				return
			}
			if one, isC := constInt(bo.Y); !isC || one != 1 {
				return
			}
			if _, isPhi := bo.X.(*ssa.Phi); !isPhi {
				return
			}
			if edgeGuarded(ins.Block(), func(c ssa.Value) (bool, bool) {
				return isIndexPredicate(c), false
			}) {
				incOK = true
			}
		})
		// Snapshot: on every path, for a bitmap index nothing is written and the result is false; for
		// any other column the kind's Snapshot is invoked once and the result is true
		nTrue := 0
		var evalRet func(ssa.Value) (bool, bool)
		cfg := pathCfg{names: []string{"isIndex"}, leaf: func(c ssa.Value) (string, bool, bool) {
			if isIndexPredicate(c) {
				return "isIndex", false, true
			}
			return "", false, false
		}, classify: func(ins ssa.Instruction) string {
			if cc, _, _ := callCommon(ins); cc != nil && cc.IsInvoke() && cc.Method.Name() == "Snapshot" {
				return "write"
			}
			return ""
		}, withEval: func(ev func(ssa.Value) (bool, bool)) { evalRet = ev }}
		skipOK, _ := evalPathsDeep(snap, cfg, func(as map[string]bool, ev []pathEvent, ret *ssa.Return) bool {
			if ret == nil || len(ret.Results) != 1 || evalRet == nil {
				return false
			}
			res := ret.Results[0]
			if ld, isLd := res.(*ssa.UnOp); isLd && ld.Op == token.MUL {
				if vals := cellStoresBefore(ret); len(vals) == 1 {
					res = vals[0]
				}
			}
			val, known := evalRet(res)
			if !known {
				return false
			}
			if val {
				nTrue++
			}
			if as["isIndex"] {
				return !val && countEvents(ev, "write") == 0
			}
			return val && countEvents(ev, "write") == 1
		})
		h.Check(incOK && skipOK && nTrue >= 1, "predicate", r.P.Pos(cnt.Pos()), "count and skip both use IsIndex", "the column count written to the snapshot and the columns actually written do not use the same predicate: the restore misreads every following buffer")
		// column.Snapshot names the buffer after the column
		named := false
		for _, c := range callsTo(snap, false, "(*commit.Buffer).Reset") {
			cc, _, _ := callCommon(c)
			if fr, ok := loadedField(cc.Args[1]); ok && fr.Struct == "column.column" && fr.Field == "name" {
				named = true
			}
		}
		h.Check(named, "(*column.column).Snapshot/name", r.P.Pos(snap.Pos()), "buffer reset to the column's name", "the snapshot buffer is not named after the column: restore applies it to the wrong column or drops it")
	}
	// the number of blocks written is the extent of the fill list, not the row count
	if ch := r.Anchor("(*column.Collection).chunks"); ch != nil {
		ok := true
		n := 0
		for _, ret := range returnsOf(ch) {
			for _, v := range cellStoresBefore(ret) {
				if z, isC := constInt(v); isC && z == 0 {
					continue
				}
				n++
				if !boundedBy(ret, v, func(x ssa.Value) bool {
					c, isCall := x.(*ssa.Call)
					if !isCall || !methodOn(&c.Call, "github.com/kelindar/bitmap", "Bitmap", "Max") {
						return false
					}
					fr, isF := loadedField(c.Call.Args[0])
					return isF && fr.Struct == "column.Collection" && fr.Field == "fill"
				}, 8) {
					ok = false
				}
			}
		}
		h.Check(ok && n >= 1, "(*column.Collection).chunks/extent", r.P.Pos(ch.Pos()), "block count = block of the highest live offset + 1", "the number of blocks (written to a snapshot, back-filled into a new index) is not derived from the highest set bit of the fill list: in a sparse collection rows live in blocks beyond count/16384 and are left out")
		if ws := r.P.Fn("(*column.Collection).writeState"); ws != nil {
			used := false
			for _, c := range callsToDeep(ws, false, "(*iostream.Writer).WriteRange") {
				cc, _, _ := callCommon(c.Inner)
				nv, _ := normE(cc.Args[1], c.Env, false)
				if cl, isC := nv.(*ssa.Call); isC && calleeIs(&cl.Call, "(*column.Collection).chunks") {
					used = true
				}
			}
			h.Check(used, "(*column.Collection).writeState/blocks", r.P.Pos(ws.Pos()), "writes chunks() blocks", "writeState does not write one state per block up to chunks()")
		}
	}
	if ws := r.Anchor("(*column.Collection).writeState"); ws != nil {
		// columns := Count()+1
		plus1 := false
		deepVisit(ws, func(ins, _ ssa.Instruction) {
			if bo, ok := ins.(*ssa.BinOp); ok && bo.Op == token.ADD {
				for _, pair := range [][2]ssa.Value{{bo.X, bo.Y}, {bo.Y, bo.X}} {
					if one, isC := constInt(pair[1]); isC && one == 1 {
						if dependsOn(pair[0], func(v ssa.Value) bool {
							c, ok := v.(*ssa.Call)
							return ok && calleeIs(&c.Call, "(*column.columns).Count")
						}, 3) {
							plus1 = true
						}
					}
				}
			}
		})
		// per block: exactly one WriteSelf for markers in the chunk closure, and one in the RangeUntil closure guarded by Snapshot()==true
		// the per-block writer is the function (closure or helper) that ranges over the registry; the
		// per-column writer is the callback it hands to RangeUntil
		var chunkFn, colFn *ssa.Function
		for _, f := range deepFuncs(ws) {
			for _, c := range callsTo(f, false, "(*column.columns).RangeUntil") {
				cc, _, _ := callCommon(c)
				if cf := asFunc(cc.Args[1]); cf != nil {
					chunkFn, colFn = f, cf
				}
			}
		}
		okW := false
		if chunkFn != nil && colFn != nil {
			w1 := callsToDeep(chunkFn, false, "(*iostream.Writer).WriteSelf") // the insert markers, possibly through a helper
			w2 := sitesOf(callsToDeep(colFn, false, "(*iostream.Writer).WriteSelf"))
			ru := callsTo(chunkFn, false, "(*column.columns).RangeUntil")
			okW = len(w1) == 1 && len(w2) == 1 && len(ru) == 1 && !reachAvoiding(w1[0].Site.Block(), w1[0].Site.Block(), nil, nil) &&
				!reachAvoiding(w1[0].Inner.Block(), w1[0].Inner.Block(), nil, nil)
			if okW {
				okW = edgeGuarded(w2[0].Block(), func(c ssa.Value) (bool, bool) {
					cl, ok := c.(*ssa.Call)
					if ok && calleeIs(&cl.Call, "(*column.column).Snapshot") {
						return true, true
					}
					return false, false
				}) || !edgeGuarded(w2[0].Block(), func(c ssa.Value) (bool, bool) {
					cl, ok := c.(*ssa.Call)
					if ok && calleeIs(&cl.Call, "(*column.column).Snapshot") {
						return true, false
					}
					return false, false
				}) && len(callsTo(colFn, false, "(*column.column).Snapshot")) == 1
				// returns nil (skip) on the other edge
			}
		}
		h.Check(plus1 && okW, "(*column.Collection).writeState", r.P.Pos(ws.Pos()), "announces Count()+1, writes markers + one buffer per non-index column", "writeState does not announce exactly as many buffers per block as it writes")
	}
}

// ---------------------------------------------------------------------------------------------
// C06.clone, C06.replay, C05.copy

// fieldsStored: names of the fields of *alloc (or of a named result) that fn stores.
func fieldsStoredOn(fn *ssa.Function, structName string) map[string][]ssa.Value {
	return storesDeep(fn, structName)
}

// aliasesField: the slice value shares memory with field `name` of the receiver: the field itself,
// a reslice of it, or an append onto it.
func aliasesField(v ssa.Value, name string, recv ssa.Value, depth int) bool {
	if depth > 6 || v == nil {
		return false
	}
	if fr, ok := loadedField(v); ok && fr.Field == name && sameExpr(fr.X, recv) {
		return true
	}
	switch x := v.(type) {
	case *ssa.Slice:
		return aliasesField(x.X, name, recv, depth+1)
	case *ssa.ChangeType:
		return aliasesField(x.X, name, recv, depth+1)
	case *ssa.Phi:
		for _, e := range x.Edges {
			if aliasesField(e, name, recv, depth+1) {
				return true
			}
		}
	case *ssa.Call:
		if b, ok := x.Call.Value.(*ssa.Builtin); ok && b.Name() == "append" && len(x.Call.Args) > 0 {
			return aliasesField(x.Call.Args[0], name, recv, depth+1)
		}
	case *ssa.UnOp:
		if x.Op == token.MUL {
			if al, ok := x.X.(*ssa.Alloc); ok {
				for _, ref := range *al.Referrers() {
					if st, ok := ref.(*ssa.Store); ok && st.Addr == al && aliasesField(st.Val, name, recv, depth+1) {
						return true
					}
				}
			}
		}
	}
	return false
}

func ruleCopies(r *Report) {
	h := r.Rule("C05.copy", "S", "Buffer.Clone, Commit.Clone and Buffer.Reset cover every field of their struct (padding excepted); clones share no byte or header slice with the original", 13)
	check := func(fnName_, pkg, typ string, recvIsTarget bool) {
		fn := r.Anchor(fnName_)
		if fn == nil {
			return
		}
		nt := r.P.NamedType(pkg, typ)
		if nt == nil {
			r.Unresolve("type " + pkg + "." + typ)
			return
		}
		st := nt.Underlying().(*types.Struct)
		stored := map[string][]ssa.Value{}
		allInstrs(fn, func(ins ssa.Instruction) {
			s, ok := ins.(*ssa.Store)
			if !ok {
				return
			}
			fr, ok := fieldOf(s.Addr)
			if !ok || fr.Struct != pkg+"."+typ {
				return
			}
			// target: the receiver for Reset, anything but the receiver for Clone
			isRecv := sameExpr(fr.X, fn.Params[0])
			if isRecv != recvIsTarget {
				return
			}
			stored[fr.Field] = append(stored[fr.Field], s.Val)
		})
		for i := 0; i < st.NumFields(); i++ {
			f := st.Field(i)
			if f.Name() == "_" {
				continue
			}
			key := fnName_ + "/" + f.Name()
			vals := stored[f.Name()]
			if len(vals) == 0 {
				what := "the copy does not carry field " + f.Name()
				if recvIsTarget {
					what = "Reset leaves field " + f.Name() + " of the pooled buffer as the previous user left it"
				}
				h.Bad(key, r.P.Pos(fn.Pos()), what)
				continue
			}
			// slices must not alias the source
			if _, isSlice := f.Type().Underlying().(*types.Slice); isSlice && !recvIsTarget {
				alias := false
				for _, v := range vals {
					if aliasesField(v, f.Name(), fn.Params[0], 0) {
						alias = true
					}
				}
				if alias {
					h.Bad(key, r.P.Pos(fn.Pos()), "the clone shares slice "+f.Name()+" with the original (the pooled original is reused while the consumer still reads the clone)")
					continue
				}
			}
			h.OK(key, r.P.Pos(fn.Pos()), "")
		}
	}
	check("(*commit.Buffer).Clone", "commit", "Buffer", false)
	check("(*commit.Commit).Clone", "commit", "Commit", false)
	check("(*commit.Buffer).Reset", "commit", "Buffer", true)
}

func ruleChannelClone(r *Report) {
	h := r.Rule("C06.clone", "def-use", "Channel.Append sends a clone of the commit (buffers of the transaction are pooled and reused); Commit.Clone clones every non-empty buffer; Log.Append serialises and flushes before it returns", 3)
	if fn := r.Anchor("(commit.Channel).Append"); fn != nil {
		ok := false
		allInstrs(fn, func(ins ssa.Instruction) {
			if s, isSend := ins.(*ssa.Send); isSend {
				if c, isC := norm(s.X).(*ssa.Call); isC && calleeIs(&c.Call, "(*commit.Commit).Clone") {
					ok = true
				}
			}
		})
		h.Check(ok, "(commit.Channel).Append", r.P.Pos(fn.Pos()), "sends commit.Clone()", "the commit sent on the channel is not a clone: its buffers are pooled and rewritten by the next transaction while the consumer reads them")
	}
	if fn := r.Anchor("(*commit.Commit).Clone"); fn != nil {
		ok := false
		for _, c := range callsTo(fn, false, "(*commit.Buffer).Clone") {
			if reachAvoiding(c.Block(), c.Block(), nil, nil) {
				ok = true
			}
		}
		if !ok {
			// … or copies them field by field in the loop: every field of Buffer is stored into a
			// buffer that is not the original, and its slices are freshly made
			stored := map[string]bool{}
			fresh := true
			allInstrs(fn, func(ins ssa.Instruction) {
				st, isSt := ins.(*ssa.Store)
				if !isSt || !reachAvoiding(ins.Block(), ins.Block(), nil, nil) {
					return
				}
				fr, isF := fieldOf(st.Addr)
				if !isF || fr.Struct != "commit.Buffer" {
					return
				}
				// the target is not one of the commit's own buffers
				if dependsOn(fr.X, func(z ssa.Value) bool {
					f2, ok := loadedField(z)
					return ok && f2.Struct == "commit.Commit" && f2.Field == "Updates" && sameExpr(f2.X, fn.Params[0])
				}, 6) {
					fresh = false
					return
				}
				stored[fr.Field] = true
				if _, isSlice := st.Val.Type().Underlying().(*types.Slice); isSlice {
					isMake := func(z ssa.Value) bool { _, ok := z.(*ssa.MakeSlice); return ok }
					fromBuf := func(z ssa.Value) bool {
						f2, ok := loadedField(z)
						return ok && f2.Struct == "commit.Buffer"
					}
					if !dependsOnSlice(st.Val, isMake, 6) || dependsOnSlice(st.Val, fromBuf, 6) {
						fresh = false
					}
				}
			})
			all := fresh
			if nt := r.P.NamedType("commit", "Buffer"); nt != nil {
				bs := nt.Underlying().(*types.Struct)
				for i := 0; i < bs.NumFields(); i++ {
					if n := bs.Field(i).Name(); n != "_" && !stored[n] {
						all = false
					}
				}
			} else {
				all = false
			}
			ok = all
		}
		h.Check(ok, "(*commit.Commit).Clone/buffers", r.P.Pos(fn.Pos()), "clones each buffer in the loop over Updates", "Commit.Clone does not clone the update buffers")
	}
	if fn := r.Anchor("(*commit.Log).Append"); fn != nil {
		// through unexported helpers: (inner call, call site in Append)
		type at struct{ inner, site ssa.Instruction }
		var wt, fl []at
		var gos int
		deepVisit(fn, func(ins, site ssa.Instruction) {
			if _, isGo := ins.(*ssa.Go); isGo {
				gos++
			}
			if cc, _, _ := callCommon(ins); cc != nil {
				switch {
				case calleeIs(cc, "(*commit.Commit).WriteTo"):
					wt = append(wt, at{ins, site})
				case calleeIs(cc, "(*iostream.Writer).Flush"):
					fl = append(fl, at{ins, site})
				}
			}
		})
		ordered := false
		if len(wt) == 1 && len(fl) == 1 {
			if wt[0].inner.Parent() == fl[0].inner.Parent() {
				ordered = canReach(wt[0].inner, fl[0].inner)
			} else {
				ordered = wt[0].site != fl[0].site && canReach(wt[0].site, fl[0].site)
			}
		}
		h.Check(ordered && gos == 0, "(*commit.Log).Append", r.P.Pos(fn.Pos()), "WriteTo ≺ Flush, synchronously", "Log.Append does not serialise and flush the commit before returning (the buffers it references are reused afterwards)")
	}
}

func ruleReplay(r *Report) {
	h := r.Rule("C06.replay", "P", "Replay applies a received commit through a transaction: it marks exactly the commit's block dirty and queues every non-empty buffer of the commit", 2)
	fn := r.Anchor("(*column.Collection).Replay")
	if fn == nil {
		return
	}
	var inner *ssa.Function
	for _, c := range callsTo(fn, false, "(*column.Collection).Query") {
		cc, _, _ := callCommon(c)
		inner = asFunc(cc.Args[1])
	}
	if inner == nil {
		h.Bad("(*column.Collection).Replay/query", r.P.Pos(fn.Pos()), "Replay does not go through Collection.Query")
		return
	}
	dirtyOK, n := false, 0
	for _, c := range callsWhere(inner, func(_ ssa.Instruction, cc *ssa.CallCommon) bool {
		return methodOn(cc, "github.com/kelindar/bitmap", "Bitmap", "Set")
	}) {
		cc, _, _ := callCommon(c)
		if fr, ok := fieldOf(cc.Args[0]); ok && fr.Field == "dirty" {
			n++
			if f2, ok := loadedField(cc.Args[1]); ok && f2.Struct == "commit.Commit" && f2.Field == "Chunk" {
				dirtyOK = true
			}
		}
	}
	// commit() itself marks every block that has a section in the queued buffers; where it does, an
	// explicit mark in Replay is redundant (its absence changes nothing), a mark of another block is not
	fromHeaders := false
	if cm := r.Anchor("(*column.Txn).commit"); cm != nil {
		for _, c := range callsToDeep(cm, false, "(*commit.Buffer).RangeChunks") {
			cc, _, _ := callCommon(c.Inner)
			cb := asFunc(norm(cc.Args[1]))
			if cb == nil {
				continue
			}
			for _, st := range callsWhere(cb, func(_ ssa.Instruction, c2 *ssa.CallCommon) bool {
				return methodOn(c2, "github.com/kelindar/bitmap", "Bitmap", "Set")
			}) {
				c2, _, _ := callCommon(st)
				if fr, ok := fieldOf(c2.Args[0]); ok && fr.Field == "dirty" && dependsOn(c2.Args[1], func(z ssa.Value) bool { return z == ssa.Value(cbParam(cb, 0)) }, 3) {
					fromHeaders = true
				}
			}
		}
	}
	h.Check((dirtyOK && n == 1) || (n == 0 && fromHeaders), "(*column.Collection).Replay/dirty", r.P.Pos(inner.Pos()), "dirty = {change.Chunk} (explicitly, or through commit(), which marks every block with a queued section)", "Replay does not mark exactly the commit's block dirty")
	// append of change.Updates[i] guarded by !IsEmpty, in a loop over all updates; returns nil
	appOK := false
	allInstrs(inner, func(ins ssa.Instruction) {
		st, isSt := ins.(*ssa.Store)
		if !isSt {
			return
		}
		if fr, ok := fieldOf(st.Addr); ok && fr.Struct == "column.Txn" && fr.Field == "updates" {
			inLoop := reachAvoiding(ins.Block(), ins.Block(), nil, nil)
			guarded := edgeGuarded(ins.Block(), func(c ssa.Value) (bool, bool) {
				cl, ok := c.(*ssa.Call)
				if ok && calleeIs(&cl.Call, "(*commit.Buffer).IsEmpty") {
					return true, false
				}
				return false, false
			})
			appOK = inLoop && guarded
		}
	})
	retNil := true
	for _, ret := range returnsOf(inner) {
		if len(ret.Results) != 1 || !isConstNil(ret.Results[0]) {
			retNil = false
		}
	}
	h.Check(appOK && retNil, "(*column.Collection).Replay/buffers", r.P.Pos(inner.Pos()), "queues every non-empty buffer, then commits", "Replay does not queue every non-empty buffer of the commit (or can roll back)")
}

// ---------------------------------------------------------------------------------------------
// C05.flags, C05.varint, C05.header

// evalInt evaluates an integer SSA expression under an environment; ok=false if unknown.
func evalInt(v ssa.Value, env map[ssa.Value]int64) (int64, bool) {
	if x, ok := env[v]; ok {
		return x, true
	}
	switch x := v.(type) {
	case *ssa.Const:
		return constInt(x)
	case *ssa.Convert:
		return evalInt(x.X, env)
	case *ssa.ChangeType:
		return evalInt(x.X, env)
	case *ssa.BinOp:
		a, ok1 := evalInt(x.X, env)
		b, ok2 := evalInt(x.Y, env)
		if !ok1 || !ok2 {
			return 0, false
		}
		switch x.Op {
		case token.ADD:
			return a + b, true
		case token.SUB:
			return a - b, true
		case token.SHL:
			return a << uint(b), true
		case token.SHR:
			return a >> uint(b), true
		case token.AND:
			return a & b, true
		case token.OR:
			return a | b, true
		case token.MUL:
			return a * b, true
		}
	}
	return 0, false
}

// orConsts folds the constant operands of an OR chain `x | c1 | c2 …`.
func orConsts(v ssa.Value) (int64, int) {
	bo, ok := v.(*ssa.BinOp)
	if !ok || bo.Op != token.OR {
		return 0, 0
	}
	k, n := int64(0), 0
	for _, o := range []ssa.Value{bo.X, bo.Y} {
		if c, isC := constInt(o); isC {
			k |= c
			n++
		} else if k2, n2 := orConsts(o); n2 > 0 {
			k |= k2
			n += n2
		}
	}
	return k, n
}

// appendedBytes describes one `append(b.buffer, x0, x1, …)` of fixed elements.
type appendedBytes struct {
	ins   ssa.Instruction
	elems []ssa.Value
}

func fixedAppends(fn *ssa.Function) []appendedBytes {
	var out []appendedBytes
	allInstrs(fn, func(ins ssa.Instruction) {
		c, ok := ins.(*ssa.Call)
		if !ok {
			return
		}
		b, ok := c.Call.Value.(*ssa.Builtin)
		if !ok || b.Name() != "append" || len(c.Call.Args) != 2 {
			return
		}
		sl, ok := c.Call.Args[1].(*ssa.Slice)
		if !ok {
			return
		}
		al, ok := sl.X.(*ssa.Alloc)
		if !ok {
			return
		}
		arr, ok := al.Type().Underlying().(*types.Pointer).Elem().Underlying().(*types.Array)
		if !ok {
			return
		}
		elems := make([]ssa.Value, arr.Len())
		for _, ref := range *al.Referrers() {
			if ia, ok := ref.(*ssa.IndexAddr); ok {
				idx, isC := constInt(ia.Index)
				if !isC {
					continue
				}
				for _, r2 := range *ia.Referrers() {
					if st, ok := r2.(*ssa.Store); ok && st.Addr == ia {
						elems[idx] = st.Val
					}
				}
			}
		}
		out = append(out, appendedBytes{ins, elems})
	})
	return out
}

func ruleCodecFlags(r *Report) {
	h := r.Rule("C05.flags", "W", "every buffer writer agrees with the reader on the header byte: the delta==1 arm sets the next-flag and writes no offset, the other arm clears it and writes exactly one varint offset after the payload; the size tag equals the payload width (strings: string flag + 2 big-endian length bytes); the reader pairs string/fixed decoding with offset++/varint per flag combination, derives widths {0,2,4,8} from the size tag and the operation type from the low nibble — decided on the enumerated paths of the writers and of Reader.Next (analysis W)", 8)
	hv := r.Rule("C05.varint", "W", "offset deltas are written 7 bits at a time with a continuation bit and read back by five stages: the stage that consumes k bytes assembles Σ (byte_j & 0x7f) << 7j — decided on the enumerated paths of writeOffset and of Reader.Next", 2)
	ruleWireWriters(r, h)
	ruleWireNext(r, h, hv)
	ruleWireVarintWriter(r, hv)
}

func ruleVarint(r *Report) {}

func ruleHeaders(r *Report) {
	defer ruleHeaderRecord(r)
	h := r.Rule("C05.header", "P", "writeChunk appends a block header {block, position in the buffer, previous offset} exactly when the block changes and always records the last offset; Reader.Range restarts offset and start from the header's value and bounds the section by the next header", 5)
	ruleWireHeaders(r, h)
	// sentinel: writeChunk writes the first header because a fresh buffer's block is "none"
	// (MaxUint32); every place that creates a Buffer must establish that (or copy it)
	for fn := range r.P.modFunc {
		if fn.Origin() != nil {
			continue
		}
		allInstrs(fn, func(ins ssa.Instruction) {
			al, ok := ins.(*ssa.Alloc)
			if !ok || !al.Heap {
				return
			}
			if !isNamed(al.Type(), CommitPath, "Buffer") {
				return
			}
			init := false
			for _, ref := range *al.Referrers() {
				switch x := ref.(type) {
				case *ssa.FieldAddr:
					if fr, _ := fieldOf(x); fr.Field == "chunk" {
						for _, r2 := range *x.Referrers() {
							if st, isSt := r2.(*ssa.Store); isSt && st.Addr == x {
								if c, isC := constInt(st.Val); isC && c == 0xffffffff {
									init = true
								}
								if f2, isF := loadedField(st.Val); isF && f2.Struct == "commit.Buffer" && f2.Field == "chunk" {
									init = true
								}
							}
						}
					}
				case *ssa.Call:
					if calleeIs(&x.Call, "(*commit.Buffer).Reset") && x.Call.Args[0] == ssa.Value(al) {
						init = true
					}
				}
			}
			h.Check(init, "sentinel/"+fnName(fn), r.P.InstrPos(ins), "fresh buffer starts with block = none", "a commit.Buffer is created without the \"no block yet\" sentinel in its chunk field (zero value = block 0): the first operation appended for block 0 gets no block header and is decoded relative to the previous section")
		})
	}
	_ = strings.TrimSpace
}

// ruleExactReads (C13.exact): on the decode path every payload is read with an exact-length
// primitive. io.ReadAll / io.Copy / io.LimitReader / io.ReadAtLeast and a bare Reader.Read return
// fewer bytes than announced without an error when the stream ends, which is exactly what a
// truncated file produces.
// takesReader: the function receives (or is a method of) a stream reader.
func takesReader(fn *ssa.Function) bool {
	for _, p := range fn.Params {
		t := p.Type()
		if isNamed(t, "io", "Reader") || isNamed(t, "github.com/kelindar/iostream", "Reader") {
			return true
		}
	}
	return false
}

func ruleExactReads(r *Report) {
	h := r.Rule("C13.exact", "who-may-call", "the decode path (Commit.ReadFrom, Buffer.ReadFrom, readChunksFrom, readState and the library helpers they call) reads payloads only with exact-length primitives (iostream.Reader's typed reads, io.ReadFull): no io.ReadAll, io.Copy, io.LimitReader, io.ReadAtLeast or bare Read, which turn a short stream into a short value without an error", 4)
	roots := []string{"(*commit.Commit).ReadFrom", "(*commit.Buffer).ReadFrom", "commit.readChunksFrom", "(*column.Collection).readState", "(*commit.Log).Range"}
	seen := map[*ssa.Function]bool{}
	var visit func(fn *ssa.Function, depth int)
	visit = func(fn *ssa.Function, depth int) {
		if fn == nil || fn.Blocks == nil || seen[fn] || depth > 5 || !r.P.InLib(fn) {
			return
		}
		seen[fn] = true
		var bad ssa.Instruction
		what := ""
		withClosures(fn, func(f *ssa.Function) {
			allInstrs(f, func(ins ssa.Instruction) {
				cc, _, _ := callCommon(ins)
				if cc == nil {
					return
				}
				if sc := cc.StaticCallee(); sc != nil {
					if sc.Pkg != nil && sc.Pkg.Pkg.Path() == "io" {
						switch sc.Name() {
						case "ReadFull":
						case "ReadAll", "Copy", "CopyN", "CopyBuffer", "LimitReader", "ReadAtLeast", "TeeReader", "NewSectionReader":
							bad, what = ins, "io."+sc.Name()
						}
					}
					if sc.Pkg != nil && (sc.Pkg.Pkg.Path() == "io/ioutil" || sc.Pkg.Pkg.Path() == "bufio") {
						bad, what = ins, sc.Pkg.Pkg.Name()+"."+sc.Name()
					}
					if topFn(sc) != topFn(f) && takesReader(sc) {
						visit(sc, depth+1)
					}
				} else if cc.IsInvoke() && cc.Method.Name() == "Read" {
					bad, what = ins, "a bare Read"
				}
				if sc := cc.StaticCallee(); sc != nil && sc.Name() == "Read" && sc.Signature.Recv() != nil && !r.P.InLib(sc) {
					bad, what = ins, "a bare Read (of "+Short(sc.String())+")"
				}
			})
		})
		n := fnName(fn)
		if bad != nil {
			h.Bad(n, r.P.InstrPos(bad), "uses "+what+" on the decode path: a stream that ends early yields a shorter value without an error, and a partial commit or block is applied")
		} else {
			h.OK(n, r.P.Pos(fn.Pos()), "")
		}
	}
	for _, n := range roots {
		if fn := r.Anchor(n); fn != nil {
			visit(fn, 0)
		}
	}
}

// ruleSerialFields (C05.serial): serialisation covers every field — WriteTo reads and ReadFrom
// stores each field of the struct (padding and the derived `chunk` cursor excepted).
func ruleSerialFields(r *Report) {
	h := r.Rule("C05.serial", "S", "Buffer and Commit serialisation is field-complete: WriteTo reads every field of the struct and ReadFrom stores every field (Buffer.chunk, the write cursor, is re-derived from the last header)", 4)
	type spec struct {
		pkg, typ string
		skip     map[string]bool
	}
	for _, sp := range []spec{{"commit", "Buffer", map[string]bool{"_": true, "chunk": true}}, {"commit", "Commit", map[string]bool{}}} {
		nt := r.P.NamedType(sp.pkg, sp.typ)
		if nt == nil {
			r.Unresolve("type " + sp.pkg + "." + sp.typ)
			continue
		}
		st := nt.Underlying().(*types.Struct)
		w := r.Anchor("(*" + sp.pkg + "." + sp.typ + ").WriteTo")
		rd := r.Anchor("(*" + sp.pkg + "." + sp.typ + ").ReadFrom")
		if w == nil || rd == nil {
			continue
		}
		read := map[string]bool{}
		for _, f := range deepFuncs(w) {
			allInstrs(f, func(ins ssa.Instruction) {
				if fa, ok := ins.(*ssa.FieldAddr); ok {
					if fr, ok := fieldOf(fa); ok && fr.Struct == sp.pkg+"."+sp.typ {
						read[fr.Field] = true
					}
				}
			})
		}
		stored := map[string]bool{}
		for _, f := range deepFuncs(rd) {
			allInstrs(f, func(ins ssa.Instruction) {
				if s, ok := ins.(*ssa.Store); ok {
					if fr, ok := fieldOf(s.Addr); ok && fr.Struct == sp.pkg+"."+sp.typ {
						stored[fr.Field] = true
					}
				}
			})
		}
		for i := 0; i < st.NumFields(); i++ {
			f := st.Field(i).Name()
			if sp.skip[f] {
				continue
			}
			h.Check(read[f], sp.typ+".WriteTo/"+f, r.P.Pos(w.Pos()), "written", sp.typ+".WriteTo never reads field "+f+": it is not part of the serialised form")
			h.Check(stored[f], sp.typ+".ReadFrom/"+f, r.P.Pos(rd.Pos()), "restored", sp.typ+".ReadFrom never stores field "+f+": it is lost in a round trip")
		}
		if sp.typ == "Buffer" {
			// the write cursor is re-derived from the last header
			ok := false
			for _, f := range deepFuncs(rd) {
				allInstrs(f, func(ins ssa.Instruction) {
					if s, isSt := ins.(*ssa.Store); isSt {
						if fr, isF := fieldOf(s.Addr); isF && fr.Struct == "commit.Buffer" && fr.Field == "chunk" {
							ok = true
						}
					}
				})
			}
			h.Check(ok, "Buffer.ReadFrom/chunk", r.P.Pos(rd.Pos()), "cursor := last header's block", "Buffer.ReadFrom does not re-derive the current block from the last header: the next append for that block writes a duplicate header")
		}
	}
}

// ruleDecodeFresh (C05.fresh): Commit.ReadFrom *appends* the buffers it decodes to c.Updates. Unless
// it empties that slice itself first, every call must be on a Commit that is fresh for that call:
// a local created in the same loop iteration as the call, never decoded into before.
func ruleDecodeFresh(r *Report) {
	h := r.Rule("C05.fresh", "P", "a decoder that accumulates into its receiver is called on a fresh receiver: Commit.ReadFrom appends to c.Updates, so each call site passes a Commit allocated for that call (inside the loop that reads commits one after the other), unless ReadFrom empties the slice itself", 1)
	rf := r.Anchor("(*commit.Commit).ReadFrom")
	if rf == nil {
		return
	}
	// does it accumulate, and does it reset first?
	accumulates, resets := false, false
	for _, f := range deepFuncs(rf) {
		allInstrs(f, func(ins ssa.Instruction) {
			st, ok := ins.(*ssa.Store)
			if !ok {
				return
			}
			fr, ok := fieldOf(st.Addr)
			if !ok || fr.Struct != "commit.Commit" || fr.Field != "Updates" {
				return
			}
			if call, isC := st.Val.(*ssa.Call); isC {
				if b, isB := call.Call.Value.(*ssa.Builtin); isB && b.Name() == "append" {
					if f2, isF := loadedField(call.Call.Args[0]); isF && f2.Struct == "commit.Commit" && f2.Field == "Updates" {
						accumulates = true
						return
					}
				}
			}
			// c.Updates = nil / c.Updates[:0] in the entry block of ReadFrom itself
			if f == rf && st.Block() == rf.Blocks[0] {
				if isConstNil(st.Val) {
					resets = true
				}
				if sl, isSl := st.Val.(*ssa.Slice); isSl {
					if hi, isC := constInt(sl.High); isC && hi == 0 {
						resets = true
					}
				}
			}
		})
	}
	if !accumulates || resets {
		h.OK("(*commit.Commit).ReadFrom", r.P.Pos(rf.Pos()), "does not accumulate into a used receiver")
		return
	}
	n := 0
	for fn := range r.P.modFunc {
		if fn.Origin() != nil {
			continue
		}
		for _, c := range callsTo(fn, true, "(*commit.Commit).ReadFrom") {
			n++
			cc, _, _ := callCommon(c)
			al, isAl := norm(cc.Args[0]).(*ssa.Alloc)
			key := fnName(fn)
			if !isAl {
				h.Bad(key, r.P.InstrPos(c), "Commit.ReadFrom appends to the receiver's Updates, and the receiver here is not a Commit created for this call")
				continue
			}
			ok := true
			inLoop := reachAvoiding(c.Block(), c.Block(), nil, nil)
			if inLoop {
				// the allocation is repeated with the call: it lies on the same cycle
				same := al.Block() == c.Block() || (reachAvoiding(al.Block(), c.Block(), nil, nil) && reachAvoiding(c.Block(), al.Block(), nil, nil))
				if !same {
					ok = false
				}
			}
			// no other decode into the same Commit
			for _, o := range callsTo(fn, true, "(*commit.Commit).ReadFrom") {
				if o == c {
					continue
				}
				oc, _, _ := callCommon(o)
				if norm(oc.Args[0]) == ssa.Value(al) {
					ok = false
				}
			}
			h.Check(ok, key, r.P.InstrPos(c), "decodes into a Commit created for this call", "the Commit decoded into is reused across calls (declared outside the loop): ReadFrom appends to Updates, so every later commit read back also carries the buffers of all earlier ones")
		}
	}
	if n == 0 {
		h.Unknown("callers", r.P.Pos(rf.Pos()), "no call of Commit.ReadFrom found in the library")
	}
}

// ruleStateFlush (C14.flush): writeState writes through a buffering iostream.Writer. Every return
// that can report success either returns the result of Flush itself or is dominated by a Flush in
// writeState's own body whose error was tested — a Flush inside the per-block callback does not
// count, it does not run for a collection without blocks.
func ruleStateFlush(r *Report) {
	h := r.Rule("C14.flush", "P", "writeState reports success only after the buffering writer was flushed in its own body and the flush error was returned: a flush that only happens inside the per-block callback never runs for an empty collection, and a failing destination then goes unnoticed", 1)
	fn := r.Anchor("(*column.Collection).writeState")
	if fn == nil {
		return
	}
	flushes := callsTo(fn, false, "(*iostream.Writer).Flush")
	ok := true
	where := r.P.Pos(fn.Pos())
	n := 0
	for _, ret := range returnsOf(fn) {
		vals := cellStoresBefore(ret)
		if len(vals) == 0 {
			continue
		}
		ev := norm(vals[len(vals)-1])
		// (a) the flush result itself
		if cl, isC := ev.(*ssa.Call); isC && calleeIs(&cl.Call, "(*iostream.Writer).Flush") {
			n++
			continue
		}
		// (b) an error that is known to be non-nil here
		nonNil := edgeGuarded(ret.Block(), func(c ssa.Value) (bool, bool) {
			x, nn, isN := nilTest(c)
			if isN && sameExpr(x, ev) {
				return true, nn
			}
			return false, false
		})
		if nonNil {
			continue
		}
		// (c) success: a flush of this function dominates the return
		dom := false
		for _, f := range flushes {
			if precedes(f, ret) {
				dom = true
			}
		}
		if dom {
			n++
			continue
		}
		ok = false
		where = r.P.InstrPos(ret)
	}
	h.Check(ok && n >= 1, "(*column.Collection).writeState", where, "success ⇒ flushed here, flush error returned", "writeState can report success without having flushed the buffering writer in its own body: for a collection without blocks nothing reaches the destination and a failing destination is not noticed")
}

// reachesFn: fn is, or statically calls (through library functions, depth-bounded), the named function.
func reachesFn(fn *ssa.Function, name string, depth int) bool {
	if fn == nil {
		return false
	}
	if fnName(fn) == name {
		return true
	}
	if depth <= 0 || fn.Blocks == nil || curProg == nil || !curProg.InLib(fn) {
		return false
	}
	hit := false
	allInstrs(fn, func(ins ssa.Instruction) {
		if hit {
			return
		}
		if cc, _, _ := callCommon(ins); cc != nil && cc.StaticCallee() != nil && reachesFn(originOf(cc.StaticCallee()), name, depth-1) {
			hit = true
		}
	})
	return hit
}

// passThroughError: the one callee whose error result fn returns unchanged on every return (""
// if fn computes its error in any other way).
func passThroughError(fn *ssa.Function) string {
	name := ""
	for _, ret := range returnsOf(fn) {
		if len(ret.Results) == 0 {
			return ""
		}
		v := norm(ret.Results[len(ret.Results)-1])
		if ex, ok := v.(*ssa.Extract); ok {
			v = norm(ex.Tuple)
		}
		c, ok := v.(*ssa.Call)
		if !ok {
			return ""
		}
		n := calleeShort(&c.Call)
		if n == "" || (name != "" && n != name) {
			return ""
		}
		name = n
	}
	return name
}

// boundedBy: the returned value v is bounded above by a quantity recognised by pred — it is
// computed from it, or the return is reached only on an edge of a comparison that says v ≤ (or <)
// a value computed from it (the two returns of a minimum written as `if a < b { return a }; return b`).
func boundedBy(ret *ssa.Return, v ssa.Value, pred func(ssa.Value) bool, depth int) bool {
	if dependsOn(v, pred, depth) {
		return true
	}
	return edgeGuarded(ret.Block(), func(c ssa.Value) (bool, bool) {
		bo, isB := strip(c).(*ssa.BinOp)
		if !isB {
			return false, false
		}
		op, x, y, _, isK := canonBin(bo)
		if isK || (op != token.LSS && op != token.LEQ) {
			return false, false
		}
		switch {
		case sameExpr(x, v) && dependsOn(y, pred, depth): // v < other: on the true edge
			return true, true
		case sameExpr(y, v) && dependsOn(x, pred, depth): // other < v, other <= v: v is the smaller one on the false edge
			return true, false
		}
		return false, false
	})
}

// clampPolarity: for a two-way φ that clamps a value (`if a > b { a = b }`), whether the value on
// edge i is the one chosen when it is the larger (+1) or the smaller (-1) of the two; 0 when the
// branch is not a comparison of exactly these two values.
func clampPolarity(phi *ssa.Phi, i int) int {
	blk := phi.Block()
	if len(blk.Preds) != 2 {
		return 0
	}
	p := blk.Preds[i]
	var q *ssa.BasicBlock
	var pol bool
	switch {
	case len(p.Preds) == 1 && len(p.Succs) == 1:
		// the `then` block that computes the clamped value and jumps to the join
		q = p.Preds[0]
		pol = len(q.Succs) == 2 && q.Succs[0] == p
	case len(p.Succs) == 2:
		// the edge straight from the test to the join
		q = p
		pol = q.Succs[0] == blk
	default:
		return 0
	}
	iff, ok := q.Instrs[len(q.Instrs)-1].(*ssa.If)
	if !ok {
		return 0
	}
	cond := iff.Cond
	for {
		if x, isN := isNot(cond); isN {
			cond, pol = x, !pol
			continue
		}
		break
	}
	bo, isB := cond.(*ssa.BinOp)
	if !isB {
		return 0
	}
	op, x, y, _, isK := canonBin(bo)
	if isK || (op != token.LSS && op != token.LEQ) {
		return 0
	}
	taken, other := phi.Edges[i], phi.Edges[1-i]
	sign := func(b bool) int {
		if b {
			return 1
		}
		return -1
	}
	switch {
	case sameExpr(x, y):
		return 0
	case sameExpr(x, other) && sameExpr(y, taken): // other < taken on the true edge
		return sign(pol)
	case sameExpr(x, taken) && sameExpr(y, other): // taken < other on the true edge
		return sign(!pol)
	}
	return 0
}
