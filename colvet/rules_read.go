package colvet

import (
	"fmt"
	"go/token"
	"go/types"
	"sort"
	"strings"

	"golang.org/x/tools/go/ssa"
)

// recvOfBitmapCall returns the bitmap value a pointer-receiver method is applied to: value
// receivers are spilled into a fresh cell (`t = new Bitmap; *t = x; (*Bitmap).M(t, …)`).
func bitmapRecv(v ssa.Value) ssa.Value {
	if al, ok := v.(*ssa.Alloc); ok {
		var val ssa.Value
		n := 0
		for _, ref := range *al.Referrers() {
			if st, ok := ref.(*ssa.Store); ok && st.Addr == al {
				val = st.Val
				n++
			}
		}
		if n == 1 {
			return val
		}
	}
	return v
}

// ---------------------------------------------------------------------------------------------
// C04.ops

func ruleFilterOps(r *Report) {
	h := r.Rule("C04.ops", "def-use", "With intersects (And), Without subtracts (AndNot), Union joins (Or; And only for the very first column of a fresh selection), WithUnion = scratch Or of all columns then And; a missing column empties the selection for With*/value filters and is ignored by Without/Union", 10)
	type want struct {
		ops   []string
		clear bool
	}
	table := map[string]want{
		"(*column.Txn).With":    {[]string{"And"}, true},
		"(*column.Txn).Without": {[]string{"AndNot"}, false},
		"(*column.Txn).Union":   {[]string{"And", "Or"}, false},
	}
	for _, name := range sortedKeys(table) {
		w := table[name]
		fn := r.Anchor(name)
		if fn == nil {
			continue
		}
		var ops []string
		okArgs := true
		countedSteps := map[*ssa.Function]bool{}
		var stepCalls []stepCall
		var closure *ssa.Function
		var unionSel *bool // the per-block step of Union is chosen before the call (a φ of two functions)
		loops := pairLoops(r)
		loopNames := pairLoopNames(r)
		if loops["(*column.Txn).rangeReadPair"] == nil {
			loopNames = append(loopNames, "(*column.Txn).rangeReadPair")
		}
		narrowOnly := "" // a loop on the way that skips blocks whose selection is empty
		for _, c := range callsToDeep(fn, false, loopNames...) {
			cc, _, _ := callCommon(c.Inner)
			if pl := loops[fnName(originOf(cc.StaticCallee()))]; pl != nil && pl.Skips {
				narrowOnly = fnName(pl.Fn)
				if !pl.SkipSel {
					okArgs = false
				}
			}
			// the per-block step: a literal, a named function or method value, possibly handed down
			// through a helper's parameter; a choice between two (φ) contributes both
			fv, _ := normE(cc.Args[2], c.Env, false)
			var steps []*ssa.Function
			if phi, isPhi := fv.(*ssa.Phi); isPhi && name == "(*column.Txn).Union" {
				v := unionStepSelected(fn, phi)
				unionSel = &v
			}
			if phi, isPhi := fv.(*ssa.Phi); isPhi {
				seenStep := map[*ssa.Function]bool{}
				for _, e := range phi.Edges {
					f := asFunc(strip(e))
					if f == nil {
						steps = nil
						break
					}
					if !seenStep[f] {
						seenStep[f] = true
						steps = append(steps, f)
					}
				}
			} else if f := asFunc(fv); f != nil {
				steps = []*ssa.Function{f}
			}
			if len(steps) == 0 {
				okArgs = false
				continue
			}
			if len(steps) == 1 && name == "(*column.Txn).Union" {
				dup := false
				for _, sc := range stepCalls {
					if sc.site == c.Site {
						dup = true
					}
				}
				if !dup {
					stepCalls = append(stepCalls, stepCall{site: c.Site, ops: stepOps(steps[0])})
				}
			}
			closure = steps[0]
			// the column handed over is the one looked up for this name
			// (at the layer that is handed the column; a delegate that takes the name looks it up itself)
			if isNamed(derefType(cc.Args[1].Type()), ModPath, "column") {
				colArg, _ := normE(cc.Args[1], c.Env, false)
				if cl, ok := extractOf(colArg, 0); !ok || !calleeIs(&cl.Call, "(*column.Txn).columnAt") {
					okArgs = false
				}
			}
			for _, step := range steps {
				// one step function handed down through several layers (With → combine → rangeReadPair)
				// is found at each layer: it is one step
				if countedSteps[step] {
					continue
				}
				countedSteps[step] = true
				for _, o := range callsWhere(step, func(_ ssa.Instruction, c2 *ssa.CallCommon) bool {
					return methodOn(c2, "github.com/kelindar/bitmap", "Bitmap", "And", "AndNot", "Or", "Xor", "Clear", "Set", "Remove", "Ones")
				}) {
					oc, _, _ := callCommon(o)
					ops = append(ops, baseName(oc.StaticCallee()))
					if !sameExpr(bitmapRecv(oc.Args[0]), cbParam(step, 0)) || len(oc.Args) < 2 || !sameExpr(oc.Args[1], cbParam(step, 1)) {
						okArgs = false
					}
				}
			}
		}
		sort.Strings(ops)
		if narrowOnly != "" {
			// the loop leaves out blocks of the selection: equivalent for steps that cannot add a row
			// to a block (And, AndNot), wrong for a step that can (Or)
			for _, o := range ops {
				if o != "And" && o != "AndNot" {
					okArgs = false
					ops = append(ops, "through "+narrowOnly+", which skips blocks")
					break
				}
			}
		}
		h.Check(okArgs && strings.Join(ops, ",") == strings.Join(w.ops, ","), name+"/op", r.P.Pos(fn.Pos()), "selection "+strings.Join(w.ops, "/")+" column", fmt.Sprintf("the per-block step applies %v to (selection, column) — expected exactly %v on (dst, src)", ops, w.ops))
		clears := callsWhere(fn, func(_ ssa.Instruction, c2 *ssa.CallCommon) bool {
			if !methodOn(c2, "github.com/kelindar/bitmap", "Bitmap", "Clear") {
				return false
			}
			fr, ok := fieldOf(c2.Args[0])
			return ok && fr.Struct == "column.Txn" && fr.Field == "index"
		})
		if w.clear {
			ok := len(clears) == 1 && edgeGuarded(clears[0].Block(), func(c ssa.Value) (bool, bool) {
				if cl, ok := extractOf(c, 1); ok && calleeIs(&cl.Call, "(*column.Txn).columnAt") {
					return true, false
				}
				return false, false
			})
			h.Check(ok, name+"/missing", r.P.Pos(fn.Pos()), "missing column ⇒ empty selection", "a missing column does not empty the selection (exactly on the not-found edge)")
		} else {
			h.Check(len(clears) == 0, name+"/missing", r.P.Pos(fn.Pos()), "missing column ignored", "a missing column empties the selection")
		}
		if name == "(*column.Txn).Union" && unionSel != nil {
			h.Check(*unionSel, name+"/first", r.P.Pos(fn.Pos()), "And only for the first column of a fresh selection", "Union does not intersect exactly for the first column of a fresh selection and join otherwise")
		} else if name == "(*column.Txn).Union" && len(stepCalls) >= 2 {
			// one call per step: combine(name, intersect) under `fresh && i == 0`, combine(name, unite) otherwise
			h.Check(unionSelection(fn, nil, stepCalls), name+"/first", r.P.Pos(fn.Pos()), "And only for the first column of a fresh selection", "Union does not intersect exactly for the first column of a fresh selection and join otherwise")
		} else if name == "(*column.Txn).Union" && closure != nil {
			h.Check(unionFirstOK(fn, closure), name+"/first", r.P.Pos(fn.Pos()), "And only for the first column of a fresh selection", "Union does not intersect exactly for the first column of a fresh selection and join otherwise")
		}
	}
	// WithUnion
	if fn := r.Anchor("(*column.Txn).WithUnion"); fn != nil {
		// zero ≺ or ≺ and, all in the same per-block body (the function itself or the callback it hands
		// to rangeRead); each may sit in a helper called from that body
		ok := false
		withClosures(fn, func(body *ssa.Function) {
			var orSite, andSite, zeroSite ssa.Instruction
			var scratch ssa.Value
			var andCall *ssa.CallCommon
			var andEnv *venv
			deepVisitE(body, func(ins, site ssa.Instruction, env *venv) {
				cc, _, _ := callCommon(ins)
				if cc == nil {
					if st, isSt := ins.(*ssa.Store); isSt {
						if ia, isIA := st.Addr.(*ssa.IndexAddr); isIA && (isBitmap(ia.X.Type()) || isWordStore(ia.X.Type())) {
							if c, isC := constInt(st.Val); isC && c == 0 && reachAvoiding(ins.Block(), ins.Block(), nil, nil) {
								zeroSite = site
							}
						}
					}
					return
				}
				if methodOn(cc, "github.com/kelindar/bitmap", "Bitmap", "Or") {
					// tmp |= col.Index(chunk)
					if c, isC := norm(cc.Args[1]).(*ssa.Call); isC && calleeIs(&c.Call, "(*column.column).Index") {
						orSite = site
						scratch, _ = normE(bitmapRecv(cc.Args[0]), env, false)
					}
				}
				if methodOn(cc, "github.com/kelindar/bitmap", "Bitmap", "And") {
					rv, _ := normE(bitmapRecv(cc.Args[0]), env, false)
					rv = helperResult(rv) // txn.selectionOf(chunk) for chunk.OfBitmap(txn.index)
					if c, isC := rv.(*ssa.Call); isC && calleeIs(&c.Call, "(commit.Chunk).OfBitmap") {
						if fr, isF := loadedField(c.Call.Args[1]); isF && fr.Struct == "column.Txn" && fr.Field == "index" {
							andSite, andCall, andEnv = site, cc, env
						}
					}
				}
			})
			if orSite == nil || andSite == nil || zeroSite == nil || scratch == nil {
				return
			}
			if !(canReach(orSite, andSite) && canReach(zeroSite, orSite)) || len(andCall.Args) < 2 {
				return
			}
			arg, _ := normE(andCall.Args[1], andEnv, false)
			if sameExpr(arg, scratch) || isLoadOf(arg, scratch) || isLoadOf(andCall.Args[1], scratch) {
				ok = true
			}
		})
		h.Check(ok, "(*column.Txn).WithUnion/op", r.P.Pos(fn.Pos()), "scratch zeroed per block, Or of every column, then selection And scratch", "WithUnion does not compute selection ∧ (c1 ∨ c2 ∨ …) per block with a scratch bitmap that is reset for every block")
	}
	ruleValueFilterOp(r)
	ruleTypedFilterScan(r)
	// value filters clear on missing / wrong kind
	for _, name := range []string{"(*column.Txn).WithValue", "(*column.Txn).WithFloat", "(*column.Txn).WithInt", "(*column.Txn).WithUint", "(*column.Txn).WithString"} {
		fn := r.Anchor(name)
		if fn == nil {
			continue
		}
		isClear := func(ins ssa.Instruction) bool {
			c2, _, _ := callCommon(ins)
			if c2 == nil || !methodOn(c2, "github.com/kelindar/bitmap", "Bitmap", "Clear") {
				return false
			}
			fr, ok := fieldOf(c2.Args[0])
			return ok && fr.Struct == "column.Txn" && fr.Field == "index"
		}
		isScan := func(ins ssa.Instruction) bool {
			c2, _, isGo := callCommon(ins)
			return c2 != nil && !isGo && calleeIs(c2, "(*column.Txn).rangeRead")
		}
		clears := callsWhereDeep(fn, func(ins ssa.Instruction, _ *ssa.CallCommon) bool { return isClear(ins) })
		rr := callsToDeep(fn, false, "(*column.Txn).rangeRead")
		ok := len(clears) >= 1 && len(rr) == 1
		if ok {
			// on every path (helpers inlined, both values of "column found"): either the selection is
			// scanned once and not cleared, or it is cleared and not scanned; a column that was not
			// found is never scanned
			cfg := pathCfg{names: []string{"found"}, leaf: func(c ssa.Value) (string, bool, bool) {
				if cl, isX := extractOf(norm(c), 1); isX && calleeIs(&cl.Call, "(*column.Txn).columnAt") {
					return "found", false, true
				}
				return "", false, false
			}, classify: func(ins ssa.Instruction) string {
				switch {
				case isClear(ins):
					return "clear"
				case isScan(ins):
					return "scan"
				}
				return ""
			}}
			ok, _ = evalPathsDeep(fn, cfg, func(as map[string]bool, ev []pathEvent, _ *ssa.Return) bool {
				nc, ns := countEvents(ev, "clear"), countEvents(ev, "scan")
				if !as["found"] {
					return nc >= 1 && ns == 0
				}
				return (ns == 1 && nc == 0) || (ns == 0 && nc >= 1)
			})
		}
		h.Check(ok, name+"/missing", r.P.Pos(fn.Pos()), "missing or wrong-kind column ⇒ empty selection, no scan", "a missing (or wrong-kind) column does not empty the selection before returning")
	}
}

// isLoadOf: v is a load through address addr (a variable that is passed by address as a method
// receiver and by value as an argument).
func isLoadOf(v, addr ssa.Value) bool {
	ld, ok := strip(v).(*ssa.UnOp)
	if !ok || ld.Op != token.MUL {
		return false
	}
	if ld.X == addr {
		return true
	}
	// the same captured cell seen from a closure and from its creator
	return sameExpr(ld.X, addr)
}

// stepOps: the bitmap operations a per-block step function applies to (dst, src).
func stepOps(f *ssa.Function) []string {
	var ops []string
	for _, o := range callsWhere(f, func(_ ssa.Instruction, c2 *ssa.CallCommon) bool {
		return methodOn(c2, "github.com/kelindar/bitmap", "Bitmap", "And", "AndNot", "Or", "Xor", "Clear", "Set", "Remove", "Ones")
	}) {
		oc, _, _ := callCommon(o)
		ops = append(ops, baseName(oc.StaticCallee()))
	}
	sort.Strings(ops)
	return ops
}

// isFreshTest: v is true exactly when the selection had not been set up when Union was entered:
// !txn.setup (or a single-assignment local holding it), read before initialize() runs.
func isFreshTest(fn *ssa.Function, v ssa.Value) (isIt bool, whenTrue bool) {
	v = norm(v)
	neg := false
	for i := 0; i < 3; i++ {
		inner, isN := isNot(v)
		if !isN {
			break
		}
		v, neg = norm(inner), !neg
	}
	ld, isLd := v.(*ssa.UnOp)
	if !isLd || ld.Op != token.MUL {
		return false, false
	}
	fr, isF := fieldOf(ld.X)
	if !isF || fr.Struct != "column.Txn" || fr.Field != "setup" {
		return false, false
	}
	inits := callsToDeep(fn, false, "(*column.Txn).initialize")
	if len(inits) != 1 || ld.Parent() != fn || !precedes(ld, inits[0].Site) {
		return false, false
	}
	return true, neg // !setup: true means fresh
}

// isFirstIteration: v is `i == 0` for a loop counter i that starts at 0 and is incremented.
func isFirstIteration(v ssa.Value) bool {
	bo, ok := v.(*ssa.BinOp)
	if !ok || bo.Op != token.EQL {
		return false
	}
	x, y := bo.X, bo.Y
	if _, isC := constInt(x); isC {
		x, y = y, x
	}
	if z, isC := constInt(y); !isC || z != 0 {
		return false
	}
	x = strip(x)
	start := int64(0)
	var phi *ssa.Phi
	switch t := x.(type) {
	case *ssa.Phi:
		phi = t
	case *ssa.BinOp: // range index: φ(-1, i) + 1
		if p, isPhi := t.X.(*ssa.Phi); isPhi && t.Op == token.ADD {
			if one, isOne := constInt(t.Y); isOne && one == 1 {
				phi, start = p, 1
			}
		}
	}
	if phi == nil {
		return false
	}
	init := false
	for _, e := range phi.Edges {
		if c, isC := constInt(e); isC && c+start == 0 {
			init = true
		} else if bo2, isB := e.(*ssa.BinOp); !isB || bo2.Op != token.ADD {
			return false
		}
	}
	return init
}

// unionStepSelected: the per-block step handed to rangeReadPair is chosen before the call — a φ of
// an intersecting and a joining function. The intersecting one is selected exactly when the
// selection was fresh at entry and this is the first column: either under a flag that starts as
// !setup and is cleared at the end of every iteration, or under `fresh && i == 0`.
func unionStepSelected(fn *ssa.Function, phi *ssa.Phi) bool {
	return unionSelection(fn, phi, nil)
}

// unionSelection decides the same for a step chosen by a φ of two functions (phi) or by two separate
// calls, each handing a fixed step function to the block loop (calls: the call site and the step's
// operations): the intersecting call is executed exactly for the first column of a fresh selection.
func unionSelection(fn *ssa.Function, phi *ssa.Phi, calls []stepCall) bool {
	var blk *ssa.BasicBlock
	if phi != nil {
		blk = phi.Block()
	}
	// the recognised leaves and the value each has for "first column of a fresh selection"
	type leafKind int
	const (
		none leafKind = iota
		flag
		fresh
		firstIter
	)
	kindOf := func(c ssa.Value) (leafKind, bool) {
		if ph, isPhi := c.(*ssa.Phi); isPhi && isFirstFlag(fn, ph) {
			return flag, true
		}
		if ld, isLd := c.(*ssa.UnOp); isLd && ld.Op == token.MUL {
			if al, isAl := ld.X.(*ssa.Alloc); isAl && isFirstFlagCell(fn, al) {
				return flag, true
			}
		}
		if is, whenTrue := isFreshTest(fn, c); is {
			return fresh, whenTrue
		}
		if isFirstIteration(c) {
			return firstIter, true
		}
		return none, false
	}
	seen := map[leafKind]bool{}
	reaches := map[leafKind]map[*ssa.BasicBlock]bool{}
	feasible := func(flip leafKind) map[cfgEdge]bool {
		reach, feas := feasibleUnder(fn, func(c ssa.Value) (bool, bool) {
			if b, isBool := c.Type().Underlying().(*types.Basic); !isBool || b.Kind() != types.Bool {
				return false, false
			}
			k, want := kindOf(c)
			if k == none {
				return false, false
			}
			seen[k] = true
			if k == flip {
				want = !want
			}
			return want, true
		})
		reaches[flip] = reach
		return feas
	}
	feasT := feasible(none)
	if !(seen[flag] || (seen[fresh] && seen[firstIter])) {
		return false
	}
	var flips []map[cfgEdge]bool
	for _, k := range []leafKind{flag, fresh, firstIter} {
		if seen[k] {
			flips = append(flips, feasible(k))
		}
	}
	nAnd := 0
	if phi == nil {
		// two calls: which of them is reached when this is (not) the first column of a fresh selection
		for _, c := range calls {
			b := c.site.Block()
			switch strings.Join(c.ops, ",") {
			case "And":
				nAnd++
				if !reaches[none][b] {
					return false
				}
				for _, k := range []leafKind{flag, fresh, firstIter} {
					if seen[k] && reaches[k][b] {
						return false
					}
				}
			case "Or":
				if reaches[none][b] {
					// reached in the same iteration as the intersecting call?
					for _, a := range calls {
						if strings.Join(a.ops, ",") == "And" && reachAvoiding(a.site.Block(), b, func(x *ssa.BasicBlock) bool { return false }, nil) && !loopsBack(a.site.Block(), b) {
							return false
						}
					}
				}
			default:
				return false
			}
		}
		return nAnd >= 1
	}
	for k, e := range phi.Edges {
		f := asFunc(strip(e))
		if f == nil {
			return false
		}
		edge := cfgEdge{blk.Preds[k], blk}
		switch strings.Join(stepOps(f), ",") {
		case "And":
			nAnd++
			if !feasT[edge] {
				return false
			}
			for _, fv := range flips {
				if fv[edge] {
					return false // intersects although the selection was set up, or for a later column
				}
			}
		case "Or":
			if feasT[edge] {
				return false // joins for the first column of a fresh selection
			}
		default:
			return false
		}
	}
	return nAnd >= 1
}

// isFirstFlag: a loop-carried boolean that starts as "fresh" (!setup, read before initialize) and
// is false on every back edge.
func isFirstFlag(fn *ssa.Function, phi *ssa.Phi) bool {
	init, reset := false, false
	for _, e := range phi.Edges {
		if c, isC := e.(*ssa.Const); isC && c.Value != nil && c.Value.String() == "false" {
			reset = true
			continue
		}
		if is, whenTrue := isFreshTest(fn, e); is && whenTrue {
			init = true
			continue
		}
		return false
	}
	return init && reset
}

// isFirstFlagCell: the same flag kept in a variable cell (captured by a closure).
func isFirstFlagCell(fn *ssa.Function, al *ssa.Alloc) bool {
	init, reset := false, false
	for _, ref := range *al.Referrers() {
		st, isSt := ref.(*ssa.Store)
		if !isSt || st.Addr != ssa.Value(al) {
			continue
		}
		if c, isC := st.Val.(*ssa.Const); isC && c.Value != nil && c.Value.String() == "false" && reachAvoiding(st.Block(), st.Block(), nil, nil) {
			reset = true
			continue
		}
		if is, whenTrue := isFreshTest(fn, st.Val); is && whenTrue && !reachAvoiding(st.Block(), st.Block(), nil, nil) {
			init = true
			continue
		}
		return false
	}
	return init && reset
}

// unionFirstOK: Union intersects for the first column of a fresh selection and joins otherwise.
// The decision variable is found by structure, not by name: a boolean cell captured by the
// per-block closure, whose value p selects And (and ¬p selects Or); it is initialised — from
// Txn.setup read before initialize() — to p exactly when the selection was not set up, and set to
// ¬p at the end of every iteration of the column loop.
func unionFirstOK(fn, closure *ssa.Function) bool {
	for i, fv := range closure.FreeVars {
		pt, ok := fv.Type().(*types.Pointer)
		if !ok {
			continue
		}
		if b, ok := pt.Elem().Underlying().(*types.Basic); !ok || b.Kind() != types.Bool {
			continue
		}
		isLeaf := func(c ssa.Value) bool {
			ld, ok := c.(*ssa.UnOp)
			return ok && ld.Op == token.MUL && ld.X == ssa.Value(fv)
		}
		for _, p := range []bool{true, false} {
			ok := true
			n := 0
			for _, o := range callsWhere(closure, func(_ ssa.Instruction, c2 *ssa.CallCommon) bool {
				return methodOn(c2, "github.com/kelindar/bitmap", "Bitmap", "And", "Or")
			}) {
				n++
				oc, _, _ := callCommon(o)
				want := p
				if baseName(oc.StaticCallee()) == "Or" {
					want = !p
				}
				if !edgeGuarded(o.Block(), func(c ssa.Value) (bool, bool) { return isLeaf(c), want }) {
					ok = false
				}
			}
			if !ok || n != 2 {
				continue
			}
			// the cell in Union
			var cell *ssa.Alloc
			allInstrs(fn, func(ins ssa.Instruction) {
				if mc, isMk := ins.(*ssa.MakeClosure); isMk && mc.Fn == ssa.Value(closure) {
					cell, _ = mc.Bindings[i].(*ssa.Alloc)
				}
			})
			if cell == nil {
				continue
			}
			inits := callsTo(fn, false, "(*column.Txn).initialize")
			initOK, resetOK, other := false, false, false
			for _, ref := range *cell.Referrers() {
				st, isSt := ref.(*ssa.Store)
				if !isSt || st.Addr != ssa.Value(cell) {
					continue
				}
				inLoop := reachAvoiding(st.Block(), st.Block(), nil, nil)
				// fresh := !setup (p) or setup (¬p), the flag read before initialize()
				v := norm(st.Val)
				neg := false
				if inner, isN := isNot(v); isN {
					v, neg = norm(inner), true
				}
				if ld, isLd := v.(*ssa.UnOp); isLd && ld.Op == token.MUL && !inLoop {
					if fr, isF := fieldOf(ld.X); isF && fr.Struct == "column.Txn" && fr.Field == "setup" && neg == p {
						if len(inits) == 1 && precedes(ld, inits[0]) {
							initOK = true
							continue
						}
					}
				}
				if c, isC := st.Val.(*ssa.Const); isC && c.Value != nil && (c.Value.String() == "true") == !p && inLoop {
					resetOK = true
					continue
				}
				other = true
			}
			if initOK && resetOK && !other {
				return true
			}
		}
	}
	return false
}

// ---------------------------------------------------------------------------------------------
// C04.presence

// storageFill: v is the presence bitmap of a column block (first result of chunkAt, or the fill
// field of a chunks element).
func isStorageFill(v ssa.Value) bool {
	v = norm(v)
	if ex, ok := v.(*ssa.Extract); ok && ex.Index == 0 {
		if c, ok := ex.Tuple.(*ssa.Call); ok && calleeIs(&c.Call, "(column.chunks[T]).chunkAt") {
			return true
		}
	}
	if fr, ok := loadedField(v); ok && strings.HasPrefix(fr.Struct, "struct{fill ") && fr.Field == "fill" {
		return true
	}
	return false
}

// isStorageData: v is the value array of a column block (second result of chunkAt, or the data
// field of a chunks element).
func isStorageData(v ssa.Value) bool {
	v = norm(v)
	if ex, ok := v.(*ssa.Extract); ok && ex.Index == 1 {
		if c, ok := ex.Tuple.(*ssa.Call); ok && calleeIs(&c.Call, "(column.chunks[T]).chunkAt") {
			return true
		}
	}
	if fr, ok := loadedField(v); ok && strings.HasPrefix(fr.Struct, "struct{fill ") && fr.Field == "data" {
		return true
	}
	return false
}

// lessThan brings a strict or non-strict integer comparison into the form x < y, possibly
// negated: a<b, b>a, !(a>=b), !(b<=a).
func lessThan(c ssa.Value) (x, y ssa.Value, neg, ok bool) {
	if _, isCall := c.(*ssa.Call); isCall {
		c, _ = normE(c, nil, true) // a pure accessor such as hasChunk(block)
	}
	bo, isB := c.(*ssa.BinOp)
	if !isB {
		return nil, nil, false, false
	}
	switch bo.Op {
	case token.LSS:
		return bo.X, bo.Y, false, true
	case token.GTR:
		return bo.Y, bo.X, false, true
	case token.GEQ:
		return bo.X, bo.Y, true, true
	case token.LEQ:
		return bo.Y, bo.X, true, true
	}
	return nil, nil, false, false
}

func rulePresence(r *Report) {
	h := r.Rule("C04.presence", "P", "every typed filter intersects the selection with the column's presence bitmap of the same block before the predicate reads values; WithValue evaluates the predicate only when the value is present; every aggregate folds values only under selection ∧ presence", 8)
	// typed filters
	for _, name := range []string{"column.filterNumbers", "(*column.columnString).FilterString", "(*column.columnEnum).FilterString"} {
		fn := r.Anchor(name)
		if fn == nil {
			continue
		}
		var idxPar ssa.Value
		for _, par := range fn.Params {
			if isBitmap(par.Type()) {
				idxPar = par
			}
		}
		ands := callsWhere(fn, func(_ ssa.Instruction, cc *ssa.CallCommon) bool {
			return methodOn(cc, "github.com/kelindar/bitmap", "Bitmap", "And") && sameExpr(bitmapRecv(cc.Args[0]), idxPar) && isStorageFill(cc.Args[1])
		})
		filters := callsWhere(fn, func(_ ssa.Instruction, cc *ssa.CallCommon) bool {
			return methodOn(cc, "github.com/kelindar/bitmap", "Bitmap", "Filter") && sameExpr(bitmapRecv(cc.Args[0]), idxPar)
		})
		ok := len(filters) == 1 && len(ands) >= 1
		if ok {
			ok = false
			for _, a := range ands {
				if precedes(a, filters[0]) {
					ok = true
				}
			}
		}
		var pos ssa.Instruction
		if len(filters) > 0 {
			pos = filters[0]
		}
		h.Check(ok, name, r.P.InstrPos(pos), "selection ∧= presence ≺ predicate scan", "the filter evaluates the predicate on rows that hold no value in the column (stale data of a previous occupant can match): selection is not intersected with the presence bitmap first")
	}
	// WithValue
	if fn := r.Anchor("(*column.Txn).WithValue"); fn != nil {
		ok := false
		var pos ssa.Instruction
		withClosures(fn, func(f *ssa.Function) {
			allInstrs(f, func(ins ssa.Instruction) {
				c, isCall := ins.(*ssa.Call)
				if !isCall || c.Call.StaticCallee() != nil || c.Call.IsInvoke() {
					return
				}
				// the call of WithValue's predicate parameter, however it is named or captured
				if len(fn.Params) < 3 || norm(c.Call.Value) != ssa.Value(fn.Params[2]) {
					return
				}
				pos = ins
				ok = edgeGuarded(ins.Block(), func(cond ssa.Value) (bool, bool) {
					if cl, ok := extractOf(cond, 1); ok {
						if calleeIs(&cl.Call, "(*column.column).Value") {
							return true, true
						}
						// the Column behind the wrapper, asked directly (the wrapper's Value only forwards)
						if cl.Call.IsInvoke() && cl.Call.Method.Name() == "Value" && isNamed(cl.Call.Value.Type(), ModPath, "Column") {
							return true, true
						}
					}
					return false, false
				})
			})
		})
		h.Check(ok, "(*column.Txn).WithValue", r.P.InstrPos(pos), "predicate only for present values", "WithValue evaluates the predicate although the row holds no value")
	}
	// aggregates
	for _, agg := range []string{"Sum", "Avg", "Min", "Max"} {
		name := "(column.rdNumber[T])." + agg
		fn := r.Anchor(name)
		if fn == nil {
			continue
		}
		okAll, n := true, 0
		var pos ssa.Instruction
		deepVisitC(fn, func(c ssa.Instruction, env *venv) {
			cc, _, _ := callCommon(c)
			if cc == nil {
				return
			}
			f := c.Parent()
			switch nm := calleeNameE(cc, env); {
			case nm == "bitmap.Sum" || nm == "bitmap.Min" || nm == "bitmap.Max":
				n++
				pos = c
				if len(cc.Args) < 2 || !selectionUnderPresence(f, c, cc.Args[1]) {
					okAll = false
				}
			case agg == "Avg" && methodOn(cc, "github.com/kelindar/bitmap", "Bitmap", "Count"):
				// Avg: the divisor counts the same set
				if !selectionUnderPresence(f, c, cc.Args[0]) {
					okAll = false
				}
			}
		})
		h.Check(okAll && n > 0, name, r.P.InstrPos(pos), "fold under selection ∧ presence", "the aggregate folds the block's value array under the raw selection: rows that hold no value in this column contribute the stale value of a previous occupant")
	}
}

// ruleAggregatesReadOnly (C04.readonly): Sum/Avg/Min/Max fold the selection, they do not change it.
// The per-block callback receives a slice of Txn.index; nothing reachable from it (helpers
// included, their parameters bound to the arguments) may call a mutating Bitmap method on that
// slice or store into its words — intersecting with the presence bitmap must happen on a copy.
func ruleAggregatesReadOnly(r *Report) {
	h := r.Rule("C04.readonly", "def-use", "aggregates (Sum, Avg, Min, Max) leave the transaction's selection unchanged: no mutating bitmap call on, and no store into, the selection slice handed to their per-block callback (helpers inlined)", 4)
	for _, agg := range []string{"Sum", "Avg", "Min", "Max"} {
		name := "(column.rdNumber[T])." + agg
		fn := r.Anchor(name)
		if fn == nil {
			continue
		}
		bad := ""
		n := 0
		for _, c := range callsToDeep(fn, false, "(*column.Txn).rangeRead") {
			cc, _, _ := callCommon(c.Inner)
			body := asFunc(cc.Args[1])
			if body == nil || len(body.Params) < 2 {
				continue
			}
			n++
			sel := ssa.Value(body.Params[len(body.Params)-1])
			deepVisitE(body, func(ins, _ ssa.Instruction, env *venv) {
				if call, _, _ := callCommon(ins); call != nil {
					sc := call.StaticCallee()
					if sc == nil || sc.Signature.Recv() == nil || !isBitmap(sc.Signature.Recv().Type()) || !bitmapMutators[baseName(sc)] {
						return
					}
					recv, _ := normE(bitmapRecv(call.Args[0]), env, false)
					if sameExpr(recv, sel) || isLoadOf(recv, sel) {
						bad = fmt.Sprintf("%s calls Bitmap.%s on the selection slice", r.P.InstrPos(ins), baseName(sc))
					}
					return
				}
				if st, isSt := ins.(*ssa.Store); isSt {
					if ia, isIA := st.Addr.(*ssa.IndexAddr); isIA && isBitmap(ia.X.Type()) {
						if x, _ := normE(ia.X, env, false); sameExpr(x, sel) {
							bad = fmt.Sprintf("%s stores into the selection slice", r.P.InstrPos(ins))
						}
					}
				}
			})
		}
		h.Check(bad == "" && n > 0, name, r.P.Pos(fn.Pos()), "selection only read", "the aggregate modifies the transaction's selection ("+bad+"): Count, Range and every later aggregate of the same transaction lose the selected rows that hold no value in this column")
	}
}

// selectionUnderPresence: the bitmap handed to a fold derives from the column's presence bitmap
// (e.g. present(index, fill)), or was intersected with it beforehand.
func selectionUnderPresence(f *ssa.Function, at ssa.Instruction, sel ssa.Value) bool {
	// the result of a helper that is handed the presence bitmap (present(index, fill)): handing it
	// over is not enough, the helper has to intersect what it returns with it
	if call, ok := norm(sel).(*ssa.Call); ok {
		if sc := call.Call.StaticCallee(); sc != nil && isHelper(sc) {
			hf := originOf(sc)
			var fills []ssa.Value
			for i, a := range call.Call.Args {
				if isStorageFill(a) && i < len(hf.Params) {
					fills = append(fills, hf.Params[i])
				}
			}
			if len(fills) > 0 {
				rets := returnsOf(hf)
				for _, ret := range rets {
					if len(ret.Results) == 0 {
						return false
					}
					done := false
					for _, a := range callsWhere(hf, func(_ ssa.Instruction, cc *ssa.CallCommon) bool {
						if !methodOn(cc, "github.com/kelindar/bitmap", "Bitmap", "And") || len(cc.Args) < 2 {
							return false
						}
						if !sameExpr(bitmapRecv(cc.Args[0]), ret.Results[0]) && !isLoadOf(ret.Results[0], bitmapRecv(cc.Args[0])) {
							return false
						}
						for _, fp := range fills {
							if sameExpr(cc.Args[1], fp) {
								return true
							}
						}
						return false
					}) {
						if precedes(a, ret) {
							done = true
							// a copy into the result after the intersection puts the raw selection back
							allInstrs(hf, func(i2 ssa.Instruction) {
								c2, isC2 := i2.(*ssa.Call)
								if !isC2 {
									return
								}
								if b2, isB2 := c2.Call.Value.(*ssa.Builtin); isB2 && b2.Name() == "copy" && len(c2.Call.Args) == 2 {
									if (sameExpr(c2.Call.Args[0], ret.Results[0]) || isLoadOf(ret.Results[0], c2.Call.Args[0])) && !precedes(i2, a) {
										done = false
									}
								}
							})
						}
					}
					// … or word by word: res[i] = x & fill[i], every stored word an AND with a word of
					// the presence bitmap
					if !done {
						stores, anded := 0, 0
						allInstrs(hf, func(ins ssa.Instruction) {
							st, isSt := ins.(*ssa.Store)
							if !isSt {
								return
							}
							ia, isIA := st.Addr.(*ssa.IndexAddr)
							if !isIA || !sameExpr(ia.X, ret.Results[0]) {
								return
							}
							stores++
							if bo, isB := st.Val.(*ssa.BinOp); isB && bo.Op == token.AND {
								for _, opd := range []ssa.Value{bo.X, bo.Y} {
									if dependsOnSlice(elemBase(opd), func(z ssa.Value) bool {
										for _, fp := range fills {
											if z == fp {
												return true
											}
										}
										return false
									}, 5) {
										anded++
										return
									}
								}
							}
						})
						done = stores > 0 && stores == anded
					}
					if !done {
						return false
					}
				}
				return len(rets) > 0
			}
		}
	}
	if dependsOn(sel, func(v ssa.Value) bool { return isStorageFill(v) }, 8) {
		return true
	}
	for _, a := range callsWhere(f, func(_ ssa.Instruction, cc *ssa.CallCommon) bool {
		return methodOn(cc, "github.com/kelindar/bitmap", "Bitmap", "And") && sameExpr(bitmapRecv(cc.Args[0]), sel) && isStorageFill(cc.Args[1])
	}) {
		if precedes(a, at) {
			return true
		}
	}
	return false
}

// ---------------------------------------------------------------------------------------------
// C04.cursor

func userCallIn(fn *ssa.Function) []*ssa.Call {
	var out []*ssa.Call
	allInstrs(fn, func(ins ssa.Instruction) {
		c, ok := ins.(*ssa.Call)
		if !ok || c.Call.StaticCallee() != nil || c.Call.IsInvoke() {
			return
		}
		switch v := c.Call.Value.(type) {
		case *ssa.Parameter:
			out = append(out, c)
		case *ssa.FreeVar:
			out = append(out, c)
		case *ssa.UnOp:
			if _, ok := v.X.(*ssa.FreeVar); ok {
				out = append(out, c)
			}
		}
	})
	return out
}

func ruleCursor(r *Report) {
	h := r.Rule("C04.cursor", "P", "before a row callback is invoked the transaction cursor is set to that row: the store to Txn.cursor precedes the callback and stores the offset handed to it", 3)
	for _, name := range []string{"(*column.Txn).QueryAt", "(*column.Txn).Range", "(*column.Txn).Ascend"} {
		fn := r.Anchor(name)
		if fn == nil {
			continue
		}
		done := false
		for _, f := range deepFuncs(fn) {
			var st *ssa.Store
			allInstrs(f, func(ins ssa.Instruction) {
				if s, ok := ins.(*ssa.Store); ok {
					if fr, ok := fieldOf(s.Addr); ok && fr.Struct == "column.Txn" && fr.Field == "cursor" {
						st = s
					}
				}
			})
			if st == nil {
				continue
			}
			calls := userCallIn(f)
			ok := len(calls) == 1
			for _, c := range calls {
				if !precedes(st, c) {
					ok = false
				}
				if name != "(*column.Txn).QueryAt" {
					if len(c.Call.Args) != 1 || !sameExpr(c.Call.Args[0], st.Val) {
						ok = false
					}
				} else if !sameExpr(st.Val, fn.Params[1]) && !sameExpr(norm(st.Val), fn.Params[1]) {
					ok = false
				}
			}
			done = true
			h.Check(ok, name, r.P.InstrPos(st), "cursor := row ≺ callback(row)", "the cursor is not positioned on the row before the callback runs (accessors inside the callback read or write another row)")
		}
		if !done {
			h.Bad(name, r.P.Pos(fn.Pos()), "no store to the transaction cursor before the row callback")
		}
	}
}

// ---------------------------------------------------------------------------------------------
// C01.guard

func ruleGuardedReads(r *Report) {
	h := r.Rule("C01.guard", "P", "a point read returns a value only on the path where the block exists and the presence bit of the same row is set", 3)
	for _, name := range []string{"(*column.numericColumn[T]).load", "(*column.columnString).LoadString", "(*column.columnEnum).LoadString"} {
		fn := r.Anchor(name)
		if fn == nil {
			continue
		}
		// value element reads: IndexAddr on a `data` field of a chunks element
		var reads []*ssa.IndexAddr
		for _, f := range deepFuncs(fn) {
			allInstrs(f, func(ins ssa.Instruction) {
				if ia, ok := ins.(*ssa.IndexAddr); ok && isStorageData(ia.X) {
					reads = append(reads, ia)
				}
			})
		}
		ok := len(reads) >= 1
		for _, ia := range reads {
			presence := edgeGuarded(ia.Block(), func(c ssa.Value) (bool, bool) {
				call, isC := c.(*ssa.Call)
				if !isC || !methodOn(&call.Call, "github.com/kelindar/bitmap", "Bitmap", "Contains") {
					return false, false
				}
				if !isStorageFill(call.Call.Args[0]) || !sameExpr(call.Call.Args[1], ia.Index) {
					return false, false
				}
				return true, true
			})
			bounds := edgeGuarded(ia.Block(), func(c ssa.Value) (bool, bool) {
				// block < len(chunks), in any spelling
				_, y, neg, isCmp := lessThan(c)
				if !isCmp {
					return false, false
				}
				if ln, isL := strip(y).(*ssa.Call); isL {
					if b, isBI := ln.Call.Value.(*ssa.Builtin); isBI && b.Name() == "len" {
						return true, !neg
					}
				}
				return false, false
			})
			if !presence || !bounds {
				ok = false
			}
		}
		// the true result is returned only there: every return of ok=true is in a guarded block
		var pos ssa.Instruction
		if len(reads) > 0 {
			pos = reads[0]
		}
		h.Check(ok, name, r.P.InstrPos(pos), "block exists ∧ presence bit of the same row ⇒ read", "the value array is read without testing that the block exists and that the presence bit of the same row is set: absent values read back as stale data")
	}
	// everything else funnels into these: rd*.Get, Row.*, Value
	h2 := r.Rule("C01.funnel", "who-may-call", "the typed point readers (Row getters, rd*.Get, Column.Value) read values only through the guarded loaders", 10)
	L := r.Shared.Lockset()
	guarded := map[string]bool{"(*column.numericColumn[T]).load": true, "(*column.columnString).LoadString": true, "(*column.columnEnum).LoadString": true,
		"(*column.columnBool).Contains": true, "(*column.columnBool).Value": true, "(*column.columnIndex).Value": true, "(*column.columnIndex).Contains": true}
	for _, rc := range L.Roots {
		n := fnName(rc.Fn)
		if !(strings.HasPrefix(n, "(column.Row).") || strings.HasSuffix(n, ").Get")) {
			continue
		}
		if strings.HasPrefix(n, "(column.Row).Set") || strings.HasPrefix(n, "(column.Row).Merge") {
			continue
		}
		// any context reading a `data` field that is reached without passing a guarded loader
		prev := L.ReachFromAvoiding(rc, func(c *LCtx) bool { return guarded[fnName(c.Fn)] })
		bad := ""
		for ins, ss := range L.At {
			// an element of a block's value array is addressed
			ia, ok := ins.(*ssa.IndexAddr)
			if !ok || !isStorageData(ia.X) {
				continue
			}
			for _, s := range ss {
				if _, reach := prev[s.Ctx.ID]; !reach {
					continue
				}
				if !guarded[fnName(ins.Parent())] {
					bad = fnName(ins.Parent())
				}
			}
		}
		h2.Check(bad == "", n, "-", "", "reads a value array in "+bad+", outside the guarded loaders")
	}
}

// ---------------------------------------------------------------------------------------------
// C16

func ruleSortCmp(r *Report) {
	h := r.Rule("C16.cmp", "S", "the ordering handed to the sorted index's tree reads every field of the item: the tree treats two items that compare equal both ways as one item, so an order on the key alone keeps a single row per distinct value", 1)
	fn := r.Anchor("column.newSortIndex")
	if fn == nil {
		return
	}
	var less *ssa.Function
	allInstrs(fn, func(ins ssa.Instruction) {
		c, ok := ins.(*ssa.Call)
		if !ok || c.Call.StaticCallee() == nil || !strings.HasPrefix(baseName(c.Call.StaticCallee()), "NewBTreeG") {
			return
		}
		if f := asFunc(norm(c.Call.Args[0])); f != nil {
			less = originOf(f)
		}
	})
	if less == nil {
		h.Unknown("column.newSortIndex/less", r.P.Pos(fn.Pos()), "ordering function handed to btree.NewBTreeG not recognised")
		return
	}
	item := r.P.NamedType("column", "sortIndexItem")
	if item == nil {
		r.Unresolve("type column.sortIndexItem")
		return
	}
	st := item.Underlying().(*types.Struct)
	read := map[string]map[int]bool{}
	allInstrs(less, func(ins ssa.Instruction) {
		var fr fieldRef
		var ok bool
		var base ssa.Value
		switch x := ins.(type) {
		case *ssa.Field:
			fr, ok = fieldOf(x)
			base = x.X
		case *ssa.FieldAddr:
			fr, ok = fieldOf(x)
			base = x.X
		}
		if !ok || fr.Struct != "column.sortIndexItem" {
			return
		}
		// which parameter?
		pi := -1
		for i, par := range less.Params {
			if norm(base) == ssa.Value(par) {
				pi = i
			}
			if al, isAl := base.(*ssa.Alloc); isAl {
				for _, ref := range *al.Referrers() {
					if s, isSt := ref.(*ssa.Store); isSt && s.Addr == al && s.Val == ssa.Value(par) {
						pi = i
					}
				}
			}
		}
		if read[fr.Field] == nil {
			read[fr.Field] = map[int]bool{}
		}
		read[fr.Field][pi] = true
	})
	var missing []string
	for i := 0; i < st.NumFields(); i++ {
		f := st.Field(i).Name()
		if !(read[f][0] && read[f][1]) {
			missing = append(missing, f)
		}
	}
	h.Check(len(missing) == 0, "column.newSortIndex/less", r.P.Pos(less.Pos()), "compares every field of both items", "the ordering ignores field(s) "+strings.Join(missing, ", ")+" of sortIndexItem: rows with equal values collapse into one tree entry and iteration loses them")
}

func ruleSortScan(r *Report) {
	h := r.Rule("C16.scan", "P", "Ascend scans the tree in ascending order and calls back exactly for the offsets contained in the current selection", 2)
	fn := r.Anchor("(*column.Txn).Ascend")
	if fn == nil {
		return
	}
	scans := callsWhere(fn, func(_ ssa.Instruction, cc *ssa.CallCommon) bool {
		return methodOn(cc, "github.com/tidwall/btree", "BTreeG", "Scan", "ScanMut", "Ascend", "AscendMut", "Descend", "DescendMut", "Reverse", "ReverseMut")
	})
	ok := len(scans) == 1
	if ok {
		cc, _, _ := callCommon(scans[0])
		// Scan and ScanMut both visit the whole tree in ascending order (they differ in the tree's own lock mode)
		n := baseName(cc.StaticCallee())
		ok = n == "Scan" || n == "ScanMut"
	}
	var pos ssa.Instruction
	if len(scans) > 0 {
		pos = scans[0]
	}
	h.Check(ok, "(*column.Txn).Ascend/scan", r.P.InstrPos(pos), "BTreeG.Scan (ascending, whole tree)", "Ascend does not scan the whole tree in ascending order")
	guard := false
	cont := true
	var scanCb *ssa.Function
	if len(scans) == 1 {
		if cc, _, _ := callCommon(scans[0]); len(cc.Args) > 0 {
			scanCb = asFunc(cc.Args[len(cc.Args)-1])
		}
	}
	var bodies []*ssa.Function
	if scanCb != nil {
		bodies = deepFuncs(scanCb)
	} else {
		withClosures(fn, func(f *ssa.Function) {
			if f != fn {
				bodies = append(bodies, f)
			}
		})
	}
	for _, f := range bodies {
		for _, c := range userCallIn(f) {
			c := c
			guard = edgeGuarded(c.Block(), func(cond ssa.Value) (bool, bool) {
				call, isC := cond.(*ssa.Call)
				if !isC || !methodOn(&call.Call, "github.com/kelindar/bitmap", "Bitmap", "Contains") {
					return false, false
				}
				if fr, ok := loadedField(call.Call.Args[0]); !ok || fr.Field != "index" {
					return false, false
				}
				return sameExpr(call.Call.Args[1], c.Call.Args[0]), true
			})
		}
		// the iterator never stops early
		if f == scanCb || scanCb == nil {
			for _, ret := range returnsOf(f) {
				if len(ret.Results) == 1 {
					if c, isC := ret.Results[0].(*ssa.Const); !isC || c.Value == nil || c.Value.String() != "true" {
						cont = false
					}
				}
			}
		}
	}
	h.Check(guard && cont, "(*column.Txn).Ascend/selection", r.P.Pos(fn.Pos()), "callback ⇔ offset ∈ selection; scan never stops early", "Ascend does not call back exactly for the tree entries whose offset is in the selection, or stops the scan early")
}

// ---------------------------------------------------------------------------------------------
// C17

func ruleExpire(r *Report) {
	h := r.Rule("C17.guard", "P", "the cleanup deletes a row only on the path where an expiration is stored, non-zero and before now; it visits only rows that hold a value in the expire column", 4)
	vac := r.Anchor("(*column.Collection).vacuum")
	if vac != nil {
		var del *ssa.Call
		var delFn *ssa.Function
		for _, f := range deepFuncs(vac) {
			for _, c := range callsTo(f, false, "(*column.Txn).DeleteAt", "(*column.Txn).deleteAt") {
				del, delFn = c.(*ssa.Call), f
			}
		}
		if del == nil {
			h.Unknown("(*column.Collection).vacuum/delete", r.P.Pos(vac.Pos()), "DeleteAt in the cleanup not recognised")
		} else {
			okG := edgeGuarded(del.Block(), func(c ssa.Value) (bool, bool) {
				if cl, ok := extractOf(c, 1); ok && calleeIs(&cl.Call, "(column.rwTTL).ExpiresAt") {
					return true, true
				}
				return false, false
			})
			isNow := func(v ssa.Value) bool {
				return dependsOn(freeVarValue(norm(v)), func(x ssa.Value) bool {
					cl, ok := x.(*ssa.Call)
					return ok && calleeIs(&cl.Call, "time.Now")
				}, 8)
			}
			isDeadline := func(v ssa.Value) bool {
				cl, ok := extractOf(freeVarValue(norm(v)), 0)
				return ok && calleeIs(&cl.Call, "(column.rwTTL).ExpiresAt")
			}
			afterG := edgeGuarded(del.Block(), func(c ssa.Value) (bool, bool) {
				call, ok := c.(*ssa.Call)
				if !ok {
					return false, false
				}
				// now.After(deadline)  ≡  deadline.Before(now)
				switch {
				case calleeIs(&call.Call, "(time.Time).After"):
					return isNow(call.Call.Args[0]) && isDeadline(call.Call.Args[1]), true
				case calleeIs(&call.Call, "(time.Time).Before"):
					return isDeadline(call.Call.Args[0]) && isNow(call.Call.Args[1]), true
				}
				return false, false
			})
			// deletes the row being visited
			same := len(delFn.Params) == 1 && sameExpr(del.Call.Args[1], delFn.Params[0])
			h.Check(okG && afterG && same, "(*column.Collection).vacuum/guard", r.P.InstrPos(del), "DeleteAt(row) ⇐ ok ∧ now.After(deadline)", "the cleanup can delete a row without `ok && now.After(deadline)` holding for that row")
			// selection With(expire)
			sel := false
			for _, f := range deepFuncs(vac) {
				for _, c := range callsTo(f, false, "(*column.Txn).Range") {
					cc, _, _ := callCommon(c)
					if w, ok := norm(cc.Args[0]).(*ssa.Call); ok && calleeIs(&w.Call, "(*column.Txn).With") {
						sel = true
					}
				}
			}
			h.Check(sel, "(*column.Collection).vacuum/selection", r.P.Pos(vac.Pos()), "iterates With(expire)", "the cleanup does not restrict itself to rows holding an expiration")
		}
	}
	for _, name := range []string{"(column.rwTTL).ExpiresAt", "(column.rwTTL).TTL"} {
		fn := r.Anchor(name)
		if fn == nil {
			continue
		}
		ok := true
		n := 0
		for _, ret := range returnsOf(fn) {
			if len(ret.Results) != 2 {
				continue
			}
			c, isC := ret.Results[1].(*ssa.Const)
			if isC && c.Value != nil && c.Value.String() == "false" {
				continue
			}
			n++
			present := edgeGuarded(ret.Block(), func(cond ssa.Value) (bool, bool) {
				if cl, ok := extractOf(cond, 1); ok && (strings.HasSuffix(calleeShort(&cl.Call), ").Get")) {
					return true, true
				}
				return false, false
			})
			nonzero := edgeGuarded(ret.Block(), func(cond ssa.Value) (bool, bool) {
				bo, ok := cond.(*ssa.BinOp)
				if !ok || (bo.Op != token.NEQ && bo.Op != token.EQL) {
					return false, false
				}
				if z, isC := constInt(bo.Y); !isC || z != 0 {
					return false, false
				}
				if cl, ok := extractOf(bo.X, 0); !ok || !strings.HasSuffix(calleeShort(&cl.Call), ").Get") {
					return false, false
				}
				return true, bo.Op == token.NEQ
			})
			if !present || !nonzero || !isC && false {
				ok = false
			}
		}
		h.Check(ok && n >= 1, name, r.P.Pos(fn.Pos()), "true ⇐ present ∧ deadline ≠ 0", "an expiration is reported for a row that has none stored or whose stored deadline is 0 (never expires): the cleanup would delete it")
	}
	hw := r.Rule("C17.write", "def-use", "a positive time-to-live stores now+ttl, a non-positive one stores 0 (never); Extend merges the delta into the stored deadline", 3)
	// returnsDeadline: result k of f is now+ttl on the returns where 0 < ttl and 0 on the others
	var returnsDeadline func(f *ssa.Function, k int, ttl *ssa.Parameter, depth int) bool
	// deadlineValue: v (a value of function g, whose time-to-live parameter is ttl) is such a result:
	// of g's own conditional, or of a helper that is handed the ttl
	deadlineValue := func(v ssa.Value, ttl *ssa.Parameter, depth int) bool {
		n := norm(v)
		k := 0
		if ex, isEx := n.(*ssa.Extract); isEx {
			k, n = ex.Index, ex.Tuple
		}
		call, isCall := n.(*ssa.Call)
		if !isCall || depth > 2 {
			return false
		}
		sc := call.Call.StaticCallee()
		if sc == nil || !isHelper(sc) {
			return false
		}
		hf := originOf(sc)
		for i, a := range call.Call.Args {
			if sameExpr(a, ttl) && i < len(hf.Params) {
				return returnsDeadline(hf, k, hf.Params[i], depth+1)
			}
		}
		return false
	}
	returnsDeadline = func(fn *ssa.Function, k int, ttl *ssa.Parameter, depth int) bool {
		okPos, okZero, viaHelper := false, false, true
		rets := returnsOf(fn)
		for _, ret := range rets {
			if k >= len(ret.Results) {
				return false
			}
			if !deadlineValue(ret.Results[k], ttl, depth) {
				viaHelper = false
			}
			pos := edgeGuarded(ret.Block(), func(c ssa.Value) (bool, bool) {
				// 0 < ttl, in any spelling
				if x, y, neg, ok := lessThan(c); ok && sameExpr(y, ttl) {
					if z, isC := constInt(x); isC && z == 0 {
						return true, !neg
					}
				}
				if x, y, neg, ok := lessThan(c); ok && sameExpr(x, ttl) {
					if z, isC := constInt(y); isC && z == 1 {
						return true, neg // ttl < 1
					}
				}
				return false, false
			})
			if z, isC := constInt(ret.Results[k]); isC && z == 0 {
				if !pos {
					okZero = true
				}
			} else if pos {
				dep := dependsOn(ret.Results[k], func(v ssa.Value) bool { return v == ssa.Value(ttl) }, 8) &&
					dependsOn(ret.Results[k], func(v ssa.Value) bool {
						cl, ok := v.(*ssa.Call)
						return ok && calleeIs(&cl.Call, "time.Now")
					}, 8)
				okPos = dep && nowPlusUnits(ret.Results[k])
			}
		}
		return (okPos && okZero) || (viaHelper && len(rets) > 0)
	}
	if fn := r.Anchor("column.writeTTL"); fn != nil {
		hw.Check(returnsDeadline(fn, 0, fn.Params[0], 0), "column.writeTTL", r.P.Pos(fn.Pos()), "ttl>0 ⇒ now+ttl, else 0", "writeTTL does not store now+ttl for positive and 0 for non-positive time-to-live")
	}
	if fn := r.Anchor("(column.Row).SetTTL"); fn != nil {
		ok := false
		// a store into the expire column: Row.SetInt64("expire", v) or, written out, the Set of the
		// int64 accessor obtained for "expire"; expireVal is the value stored
		expireVal := func(cc *ssa.CallCommon) ssa.Value {
			switch {
			case calleeIs(cc, "(column.Row).SetInt64") && len(cc.Args) >= 3:
				if s, isS := constString(cc.Args[1]); isS && s == "expire" {
					return cc.Args[2]
				}
			case calleeIs(cc, "(column.rwInt64).Set") && len(cc.Args) >= 2:
				if dependsOn(cc.Args[0], func(v ssa.Value) bool {
					c, isC := v.(*ssa.Call)
					if !isC || len(c.Call.Args) < 2 {
						return false
					}
					if n := calleeShort(&c.Call); n != "(*column.Txn).Int64" && !strings.HasPrefix(n, "column.readNumberOf") {
						return false
					}
					s, isS := constString(c.Call.Args[1])
					return isS && s == "expire"
				}, 5) {
					return cc.Args[1]
				}
			}
			return nil
		}
		isExpireSet := func(ins ssa.Instruction) *ssa.CallCommon {
			cc, isDefer, isGo := callCommon(ins)
			if cc == nil || isDefer || isGo || expireVal(cc) == nil {
				return nil
			}
			return cc
		}
		dependsOnTTL := func(v ssa.Value) bool {
			return dependsOn(v, func(x ssa.Value) bool { return x == ssa.Value(fn.Params[1]) }, 8)
		}
		merged := false
		for _, c := range callsTo(fn, false, "(column.Row).SetInt64", "(column.rwInt64).Set") {
			cc := isExpireSet(c)
			if cc == nil {
				continue
			}
			// the value comes from a helper that is handed the ttl (deadlineOf(ttl)) and answers
			// now+ttl / 0 itself; the store is unconditional
			if deadlineValue(expireVal(cc), fn.Params[1], 0) && precedesAllReturns(c, fn) {
				merged, ok = true, true
				continue
			}
			// one store of a value chosen before: 0 on one edge, the deadline on the other
			if phi, isPhi := norm(expireVal(cc)).(*ssa.Phi); isPhi {
				merged = true
				zero, dead := false, false
				for _, e := range phi.Edges {
					if z, isC := constInt(e); isC && z == 0 {
						zero = true
					} else if dependsOnTTL(e) && nowPlusUnits(e) {
						dead = true
					}
				}
				ok = zero && dead
			}
		}
		if !merged {
			// one store per branch: on every path exactly one, the deadline where 0 < ttl, 0 elsewhere
			cfg := pathCfg{names: []string{"positive"}, leaf: func(c ssa.Value) (string, bool, bool) {
				if x, y, neg, isCmp := lessThan(c); isCmp {
					if z, isC := constInt(x); isC && z == 0 && sameExpr(y, fn.Params[1]) {
						return "positive", neg, true // 0 < ttl
					}
					if z, isC := constInt(y); isC && z == 1 && sameExpr(x, fn.Params[1]) {
						return "positive", !neg, true // ttl < 1
					}
				}
				return "", false, false
			}, classify: func(ins ssa.Instruction) string {
				cc := isExpireSet(ins)
				if cc == nil {
					return ""
				}
				if z, isC := constInt(expireVal(cc)); isC && z == 0 {
					return "never"
				}
				if dependsOnTTL(expireVal(cc)) && nowPlusUnits(expireVal(cc)) {
					return "deadline"
				}
				return "other"
			}}
			n := 0
			okPaths, _ := evalPathsDeep(fn, cfg, func(as map[string]bool, ev []pathEvent, _ *ssa.Return) bool {
				n++
				if countEvents(ev, "other") > 0 {
					return false
				}
				if as["positive"] {
					return countEvents(ev, "deadline") == 1 && countEvents(ev, "never") == 0
				}
				return countEvents(ev, "never") == 1 && countEvents(ev, "deadline") == 0
			})
			ok = okPaths && n > 0
		}
		hw.Check(ok, "(column.Row).SetTTL", r.P.Pos(fn.Pos()), "stores now+ttl or 0 into the expire column", "SetTTL does not store now+ttl (or 0 for no expiry) into the expire column")
	}
	if fn := r.Anchor("(column.rwTTL).Extend"); fn != nil {
		ok := false
		for _, c := range callsTo(fn, false, "(column.rwInt64).Merge") {
			cc, _, _ := callCommon(c)
			if dependsOn(cc.Args[1], func(v ssa.Value) bool { return v == ssa.Value(fn.Params[1]) }, 6) {
				ok = true
				// the delta is merged in the unit the deadline is stored in: nanoseconds
				for n := range timeCallsOf(cc.Args[1], 8) {
					if n != "(time.Duration).Nanoseconds" {
						ok = false
					}
				}
			}
		}
		hw.Check(ok, "(column.rwTTL).Extend", r.P.Pos(fn.Pos()), "Merge(delta)", "Extend is not a merge of the delta into the stored deadline")
	}
	hx := r.Rule("C17.wiring", "S", "the expire column is an ordinary int64 column registered at construction, and exactly one cleanup goroutine is started with the configured interval and stops when the collection is closed", 3)
	if fn := r.Anchor("column.NewCollection"); fn != nil {
		created := false
		for _, c := range callsTo(fn, false, "(*column.Collection).CreateColumn") {
			cc, _, _ := callCommon(c)
			if s, isS := constString(cc.Args[1]); isS && s == "expire" {
				if mi, isMI := cc.Args[2].(*ssa.MakeInterface); isMI {
					_ = mi
				}
				created = dependsOn(cc.Args[2], func(v ssa.Value) bool {
					cl, ok := v.(*ssa.Call)
					return ok && (calleeIs(&cl.Call, "column.makeInt64s") || cl.Call.StaticCallee() == nil)
				}, 6)
			}
		}
		// "never" is stored as 0 and Extend merges its delta into the stored value: the merge function of
		// the expire column leaves 0 alone (with the default additive merge a row without a deadline gets
		// one at epoch+delta and is removed by the next cleanup)
		keeps, adds := false, false
		allInstrs(fn, func(ins ssa.Instruction) {
			cl, ok := ins.(*ssa.Call)
			if !ok || cl.Call.StaticCallee() == nil || originOf(cl.Call.StaticCallee()).Name() != "WithMerge" || len(cl.Call.Args) != 1 {
				return
			}
			mf := asFunc(norm(cl.Call.Args[0]))
			if mf == nil {
				return
			}
			mf = originOf(mf)
			if len(mf.Params) != 2 {
				return
			}
			for _, ret := range returnsOf(mf) {
				// a deadline that is set moves by the extension: deadline + delta
				if bo, isB := norm(ret.Results[0]).(*ssa.BinOp); isB && bo.Op == token.ADD {
					if (sameExpr(bo.X, mf.Params[0]) && sameExpr(bo.Y, mf.Params[1])) || (sameExpr(bo.X, mf.Params[1]) && sameExpr(bo.Y, mf.Params[0])) {
						adds = true
					}
				}
				if z, isC := constInt(ret.Results[0]); isC && z == 0 {
					if onCmpEdge(ret.Block(), func(x, y ssa.Value) bool {
						zx, isZx := constInt(x)
						zy, isZy := constInt(y)
						return (sameExpr(x, mf.Params[0]) && isZy && zy == 0) || (sameExpr(y, mf.Params[0]) && isZx && zx == 0)
					}, true) {
						keeps = true
					}
				}
			}
		})
		hw.Check(adds, "column.NewCollection/expire-merge/adds", r.P.Pos(fn.Pos()), "the expire column's merge adds the extension to the stored deadline", "the merge function of the expire column does not return stored deadline + extension: Extend does not move the deadline by the time it was given")
		hw.Check(keeps, "column.NewCollection/expire-merge", r.P.Pos(fn.Pos()), "the expire column's merge leaves a zero deadline (never) alone", "the expire column merges with the default addition: Extend on a row without a deadline (stored as 0) yields epoch+delta, a deadline in the past, and the next cleanup removes the row")
		hx.Check(created, "column.NewCollection/expire-column", r.P.Pos(fn.Pos()), "CreateColumn(\"expire\", ForInt64())", "the expire column is not created as an int64 column at construction")
		var gos []*ssa.Go
		allInstrs(fn, func(ins ssa.Instruction) {
			if g, ok := ins.(*ssa.Go); ok {
				gos = append(gos, g)
			}
		})
		ok := len(gos) == 1 && calleeIs(&gos[0].Call, "(*column.Collection).vacuum") && !reachAvoiding(gos[0].Block(), gos[0].Block(), nil, nil)
		if ok {
			// interval argument derives from options.Vacuum
			ok = dependsOn(gos[0].Call.Args[2], func(v ssa.Value) bool {
				fr, isF := fieldOf(v)
				return isF && fr.Field == "Vacuum"
			}, 8)
		}
		hx.Check(ok, "column.NewCollection/vacuum", r.P.Pos(fn.Pos()), "go vacuum(ctx, options.Vacuum) once", "the cleanup goroutine is not started exactly once with the configured interval")
		// … and "configured" means the caller's: some store into the Vacuum field of an Options value
		// takes the Vacuum field of another Options value, one that comes from the opts parameter
		fromParam := func(base ssa.Value) bool {
			isOpts := func(v ssa.Value) bool {
				p, isP := v.(*ssa.Parameter)
				if !isP {
					return false
				}
				sl, isSl := p.Type().Underlying().(*types.Slice)
				return isSl && isNamed(sl.Elem(), ModPath, "Options")
			}
			if dependsOn(base, isOpts, 6) {
				return true
			}
			found := false
			var refs []ssa.Instruction
			if rr := base.Referrers(); rr != nil {
				refs = *rr
			}
			for _, ref := range refs {
				if st, isSt := ref.(*ssa.Store); isSt && st.Addr == base && dependsOn(st.Val, isOpts, 6) {
					found = true
				}
			}
			return found
		}
		merged := false
		deepVisit(fn, func(ins, _ ssa.Instruction) {
			st, isSt := ins.(*ssa.Store)
			if !isSt {
				return
			}
			dst, isF := fieldOf(st.Addr)
			if !isF || dst.Struct != "column.Options" || dst.Field != "Vacuum" {
				return
			}
			src, isL := loadedField(norm(st.Val))
			if !isL || src.Struct != "column.Options" || src.Field != "Vacuum" || sameExpr(src.X, dst.X) {
				return
			}
			if fromParam(src.X) {
				merged = true
				// … where the caller's interval is positive (0 < o.Vacuum), not where it is not
				srcV := norm(st.Val)
				wrong := edgeGuarded(st.Block(), func(c ssa.Value) (bool, bool) {
					if x, y, neg, isCmp := lessThan(c); isCmp {
						if z, isC := constInt(y); isC && z == 0 && sameExpr(x, srcV) {
							return true, !neg // o.Vacuum < 0
						}
					}
					return false, false
				})
				if wrong {
					merged = false
				}
			}
		})
		hx.Check(merged, "column.NewCollection/interval-option", r.P.Pos(fn.Pos()), "options.Vacuum := the caller's Vacuum", "the caller's cleanup interval (Options.Vacuum) is not copied into the effective options: the cleanup runs at the default interval whatever was configured")
	}
	if vac != nil {
		// select on ctx.Done() returns
		ok := false
		allInstrs(vac, func(ins ssa.Instruction) {
			if sel, isSel := ins.(*ssa.Select); isSel {
				for _, st := range sel.States {
					if c, isC := st.Chan.(*ssa.Call); isC && c.Call.IsInvoke() && c.Call.Method.Name() == "Done" {
						ok = true
					}
				}
			}
		})
		hx.Check(ok && len(returnsOf(vac)) >= 1, "(*column.Collection).vacuum/stop", r.P.Pos(vac.Pos()), "returns on ctx.Done()", "the cleanup goroutine does not stop when the collection's context is cancelled")
	}
}

// ruleSmallAgreements: a handful of one-line agreements between two places that the properties
// rest on and that nothing else in the rule set pins down.
func ruleChunkAlloc(r *Report) {
	h := r.Rule("U.alloc", "S", "a column block is allocated with chunkSize/64 presence words and chunkSize values, for every block up to and including the block of the offset to cover", 1)
	fn := r.Anchor("(*column.chunks[T]).Grow")
	if fn == nil {
		return
	}
	cs, _ := r.P.ConstVal("column", "chunkSize")
	var size int64
	fmt.Sscanf(cs, "%d", &size)
	var fillLen, dataLen int64 = -1, -1
	allInstrs(fn, func(ins ssa.Instruction) {
		switch x := ins.(type) {
		case *ssa.MakeSlice:
			if c, ok := constInt(x.Len); ok {
				if isBitmap(x.Type()) {
					fillLen = c
				} else {
					dataLen = c
				}
			}
		case *ssa.Slice:
			if al, ok := x.X.(*ssa.Alloc); ok {
				if arr, ok := al.Type().Underlying().(*types.Pointer).Elem().Underlying().(*types.Array); ok {
					if isBitmap(x.Type()) {
						fillLen = arr.Len()
					} else if arr.Len() > 1 {
						dataLen = arr.Len()
					}
				}
			}
		}
	})
	// loop: i <= ChunkAt(idx)
	bound := false
	allInstrs(fn, func(ins ssa.Instruction) {
		if bo, ok := ins.(*ssa.BinOp); ok && bo.Op == token.LEQ {
			if dependsOn(bo.Y, func(v ssa.Value) bool {
				c, isC := v.(*ssa.Call)
				return isC && calleeIs(&c.Call, "commit.ChunkAt")
			}, 4) {
				bound = true
			}
		}
	})
	h.Check(fillLen == size/64 && dataLen == size && bound, "(*column.chunks[T]).Grow", r.P.Pos(fn.Pos()), "chunkSize/64 words + chunkSize values per block, blocks 0..ChunkAt(idx)", fmt.Sprintf("chunks.Grow allocates %d presence words and %d values per block (expected %d and %d) or does not cover the block of the requested offset", fillLen, dataLen, size/64, size))
}

func ruleCountAndCache(r *Report) {
	h := r.Rule("C04.count", "P+S", "Count initialises the selection before counting it; DeleteAt refuses offsets outside the selection; the enum filter's one-entry cache starts with a location no string can have", 3)
	if fn := r.Anchor("(*column.Txn).Count"); fn != nil {
		ini := callsTo(fn, false, "(*column.Txn).initialize")
		cnt := callsWhere(fn, func(_ ssa.Instruction, cc *ssa.CallCommon) bool {
			if !methodOn(cc, "github.com/kelindar/bitmap", "Bitmap", "Count") {
				return false
			}
			fr, ok := loadedField(cc.Args[0])
			return ok && fr.Struct == "column.Txn" && fr.Field == "index"
		})
		h.Check(len(ini) == 1 && len(cnt) == 1 && precedes(ini[0], cnt[0]), "(*column.Txn).Count", r.P.Pos(fn.Pos()), "initialize ≺ index.Count()", "Count does not count the initialised selection")
	}
	if fn := r.Anchor("(*column.Txn).DeleteAt"); fn != nil {
		del := callsTo(fn, false, "(*column.Txn).deleteAt")
		ok := len(del) == 1 && !edgeGuarded(del[0].Block(), func(c ssa.Value) (bool, bool) { return false, false })
		if ok {
			ok = edgeGuarded(del[0].Block(), func(c ssa.Value) (bool, bool) {
				call, isC := c.(*ssa.Call)
				if !isC || !methodOn(&call.Call, "github.com/kelindar/bitmap", "Bitmap", "Contains") {
					return false, false
				}
				fr, isF := loadedField(call.Call.Args[0])
				if !isF || fr.Field != "index" || !sameExpr(call.Call.Args[1], fn.Params[1]) {
					return false, false
				}
				return true, true
			})
			dc, _, _ := callCommon(del[0])
			ok = ok && sameExpr(dc.Args[1], fn.Params[1])
		}
		h.Check(ok, "(*column.Txn).DeleteAt", r.P.Pos(fn.Pos()), "deleteAt(idx) ⇐ idx ∈ selection", "DeleteAt queues a delete for an offset that is not in the transaction's selection (not a live row)")
	}
	if fn := r.Anchor("(*column.columnEnum).FilterString"); fn != nil {
		h.Check(enumCacheStartsImpossible(fn), "(*column.columnEnum).FilterString/cache", r.P.Pos(fn.Pos()), "cache starts at location MaxUint32", "the enum filter's cache does not start with an impossible location: the first row whose string has that location gets the cached (false) verdict without the predicate being evaluated")
	}
}

// enumCacheStartsImpossible: inside the filter callback the row's location (an element of the
// block's value array) is compared with a remembered location kept in a captured variable (a local
// or a field of a local struct); every store to that variable outside the callback stores
// MaxUint32, and there is one.
func enumCacheStartsImpossible(fn *ssa.Function) bool {
	found, ok := false, true
	// the filter callbacks: function literals of fn and methods handed over as method values, each
	// with the way its captured state is reached (free variable ↦ binding, receiver ↦ bound value)
	type cand struct {
		cl   *ssa.Function
		cell func(v ssa.Value) ssa.Value // captured variable / receiver ↦ the cell in fn
	}
	var cands []cand
	allInstrs(fn, func(i2 ssa.Instruction) {
		mc, isMk := i2.(*ssa.MakeClosure)
		if !isMk {
			return
		}
		cl := mc.Fn.(*ssa.Function)
		if m := boundTarget(cl); m != nil {
			m = originOf(m)
			if len(mc.Bindings) == 1 && len(m.Params) > 0 {
				recv := m.Params[0]
				cands = append(cands, cand{m, func(v ssa.Value) ssa.Value {
					if v == ssa.Value(recv) {
						return mc.Bindings[0]
					}
					return nil
				}})
			}
			return
		}
		cands = append(cands, cand{cl, func(v ssa.Value) ssa.Value {
			for k, f := range cl.FreeVars {
				if ssa.Value(f) == v && k < len(mc.Bindings) {
					return mc.Bindings[k]
				}
			}
			return nil
		}})
	})
	for _, cd := range cands {
		cd := cd
		allInstrs(cd.cl, func(ins ssa.Instruction) {
			bo, isB := ins.(*ssa.BinOp)
			if !isB || (bo.Op != token.EQL && bo.Op != token.NEQ) {
				return
			}
			for _, pair := range [][2]ssa.Value{{bo.X, bo.Y}, {bo.Y, bo.X}} {
				// one side: locs[idx]
				ld, isLd := norm(pair[0]).(*ssa.UnOp)
				if !isLd || ld.Op != token.MUL {
					continue
				}
				ia, isIA := ld.X.(*ssa.IndexAddr)
				if !isIA || !isStorageData(ia.X) {
					continue
				}
				// other side: load of the remembered location
				cld, isLd := pair[1].(*ssa.UnOp)
				if !isLd || cld.Op != token.MUL {
					continue
				}
				var cell ssa.Value
				field := -1
				switch a := cld.X.(type) {
				case *ssa.FreeVar:
					cell = cd.cell(a)
				case *ssa.FieldAddr:
					cell, field = cd.cell(a.X), a.Field
				}
				if cell == nil {
					continue
				}
				n := 0
				allInstrs(fn, func(i2 ssa.Instruction) {
					st, isSt := i2.(*ssa.Store)
					if !isSt {
						return
					}
					hit := false
					if field < 0 {
						hit = st.Addr == cell
					} else if fa, isFA := st.Addr.(*ssa.FieldAddr); isFA && fa.X == cell && fa.Field == field {
						hit = true
					}
					if !hit {
						return
					}
					n++
					if c, isC := constInt(st.Val); !isC || c != 0xffffffff {
						ok = false
					}
				})
				if n >= 1 {
					found = true
				} else {
					ok = false
				}
			}
		})
	}
	if !found && ok {
		// the comparison sits in a method of the cache (cache.hit(at)): the cell is then recognised as
		// what it is — a local struct of fn that the filter callback captures — and every store fn
		// itself makes into a uint32 field of it (the initial value of the remembered location) is the
		// impossible location
		captured := map[ssa.Value]bool{}
		allInstrs(fn, func(i2 ssa.Instruction) {
			if mc, isMk := i2.(*ssa.MakeClosure); isMk {
				for _, b := range mc.Bindings {
					captured[b] = true
				}
			}
		})
		allInstrs(fn, func(i2 ssa.Instruction) {
			st, isSt := i2.(*ssa.Store)
			if !isSt {
				return
			}
			fa, isFA := st.Addr.(*ssa.FieldAddr)
			if !isFA || !captured[fa.X] {
				return
			}
			if _, isAl := fa.X.(*ssa.Alloc); !isAl {
				return
			}
			b, isB := st.Val.Type().Underlying().(*types.Basic)
			if !isB || b.Kind() != types.Uint32 {
				return
			}
			found = true
			if c, isC := constInt(st.Val); !isC || c != 0xffffffff {
				ok = false
			}
		})
	}
	return found && ok
}

func ruleKeyWiring(r *Report) {
	h := r.Rule("C12.wiring", "S", "creating a key column registers it as the collection's primary key under the column's name (the name the key operations buffer their writes under), and a second key column is refused", 2)
	if fn := r.Anchor("(*column.Collection).createColumnKey"); fn != nil {
		pk := fieldsStoredOn(fn, "column.Collection")["pk"]
		nm := fieldsStoredOn(fn, "column.columnKey")["name"]
		ok := len(pk) == 1 && sameExpr(pk[0], fn.Params[2]) && len(nm) == 1 && sameExpr(nm[0], fn.Params[1])
		refuse := false
		for _, ret := range returnsOf(fn) {
			if cl, isC := ret.Results[0].(*ssa.Call); isC && calleeIs(&cl.Call, "fmt.Errorf") {
				refuse = edgeGuarded(ret.Block(), func(c ssa.Value) (bool, bool) {
					x, nonNil, isN := nilTest(c)
					if !isN {
						return false, false
					}
					if fr, isF := loadedField(x); isF && fr.Field == "pk" {
						return true, nonNil
					}
					return false, false
				})
			}
		}
		h.Check(ok && refuse, "(*column.Collection).createColumnKey", r.P.Pos(fn.Pos()), "pk := column; pk.name := columnName; second key refused", "the key column is not registered as the primary key under its own name, or a second key column is accepted")
	}
	if fn := r.Anchor("(*column.Collection).CreateColumn"); fn != nil {
		ck := callsTo(fn, false, "(*column.Collection).createColumnKey")
		ok := len(ck) == 1
		if ok {
			cc, _, _ := callCommon(ck[0])
			ok = sameExpr(cc.Args[1], fn.Params[1])
		}
		h.Check(ok, "(*column.Collection).CreateColumn/key", r.P.Pos(fn.Pos()), "key columns go through createColumnKey(columnName, …)", "CreateColumn does not register a key column under the name it was created with")
	}
}

func ruleReaderState(r *Report) {
	h := r.Rule("C05.reader", "S", "(re)positioning a reader resets its whole iteration state: use() stores buffer, read position, value bounds, offset and operation type; Rewind restarts from the section's start offset; Seek binds the parent buffer", 3)
	if fn := r.Anchor("(*commit.Reader).use"); fn != nil {
		st := fieldsStoredOn(fn, "commit.Reader")
		var missing []string
		// the fields a reset has to cover are the ones Next reads before it writes them (the read
		// position, the buffer, the running offset); the ones every Next writes first (value bounds,
		// operation type, string header) carry nothing over, and resetting them is hygiene
		need := readBeforeWritten(r.Anchor("(*commit.Reader).Next"), "commit.Reader", []string{"buffer", "last", "i0", "i1", "Offset", "headString", "Type"})
		for _, f := range []string{"buffer", "last", "Offset"} {
			need[f] = true
		}
		for _, f := range []string{"buffer", "last", "i0", "i1", "Offset", "headString", "Type"} {
			if need[f] && len(st[f]) == 0 {
				missing = append(missing, f)
			}
		}
		zero := true
		for _, f := range []string{"last", "i0", "i1", "Offset"} {
			if !need[f] {
				continue
			}
			for _, v := range st[f] {
				if c, isC := constInt(v); !isC || c != 0 {
					// the running offset may also be handed in by the caller (use(buffer, offset):
					// 0 from Seek, the section's start offset from Rewind and Range)
					if _, isPar := strip(v).(*ssa.Parameter); isPar && f == "Offset" {
						continue
					}
					zero = false
				}
			}
		}
		h.Check(len(missing) == 0 && zero, "(*commit.Reader).use", r.P.Pos(fn.Pos()), "all iteration fields reset", "Reader.use leaves iteration state from the previous section: "+strings.Join(missing, ", "))
	}
	if fn := r.Anchor("(*commit.Reader).Rewind"); fn != nil {
		use := callsTo(fn, false, "(*commit.Reader).use")
		ok := len(use) == 1
		offOK := false
		allInstrs(fn, func(ins ssa.Instruction) {
			if st, isSt := ins.(*ssa.Store); isSt {
				if fr, isF := fieldOf(st.Addr); isF && fr.Field == "Offset" {
					if f2, isF2 := loadedField(st.Val); isF2 && f2.Field == "start" && len(use) == 1 && precedes(use[0], ins) {
						offOK = true
					}
				}
			}
		})
		if ok && !offOK {
			// use(r.buffer, r.start): the start offset is handed to use, which stores that parameter
			cc, _, _ := callCommon(use[0])
			if uf := originOf(cc.StaticCallee()); uf != nil {
				for i, a := range cc.Args {
					if f2, isF2 := loadedField(a); isF2 && f2.Field == "start" && i < len(uf.Params) {
						for _, v := range fieldsStoredOn(uf, "commit.Reader")["Offset"] {
							if strip(v) == ssa.Value(uf.Params[i]) {
								offOK = true
							}
						}
					}
				}
			}
		}
		h.Check(ok && offOK, "(*commit.Reader).Rewind", r.P.Pos(fn.Pos()), "use(buffer) then Offset := start", "Rewind does not restart the offset chain from the section's start offset")
	}
	if fn := r.Anchor("(*commit.Reader).Seek"); fn != nil {
		par := fieldsStoredOn(fn, "commit.Reader")["parent"]
		ok := len(par) == 1 && sameExpr(par[0], fn.Params[1]) && len(callsTo(fn, false, "(*commit.Reader).use")) == 1
		h.Check(ok, "(*commit.Reader).Seek", r.P.Pos(fn.Pos()), "parent := buffer; use(buffer.buffer)", "Seek does not bind the reader to the buffer it is given")
	}
}

func ruleStateVersion(r *Report) {
	h := r.Rule("C07.version", "S", "the schema version the state writer emits is the one the state reader accepts", 1)
	ws, rs := r.Anchor("(*column.Collection).writeState"), r.Anchor("(*column.Collection).readState")
	if ws == nil || rs == nil {
		return
	}
	var wv, rv int64 = -1, -2
	// first WriteUvarint with a constant argument in writeState itself
	wcs := callsToDeep(ws, false, "(*iostream.Writer).WriteUvarint")
	sort.Slice(wcs, func(i, j int) bool { return wcs[i].Inner.Pos() < wcs[j].Inner.Pos() })
	for _, c := range wcs {
		cc, _, _ := callCommon(c.Inner)
		nv, _ := normE(cc.Args[1], c.Env, false)
		if v, ok := constInt(nv); ok && wv < 0 {
			wv = v
		}
	}
	deepVisit(rs, func(ins, _ ssa.Instruction) {
		if bo, ok := ins.(*ssa.BinOp); ok && (bo.Op == token.NEQ || bo.Op == token.EQL) {
			for _, pair := range [][2]ssa.Value{{bo.X, bo.Y}, {bo.Y, bo.X}} {
				if v, isC := constInt(pair[1]); isC {
					if cl, isEx := extractOf(norm(pair[0]), 0); isEx && calleeIs(&cl.Call, "(*iostream.Reader).ReadUvarint") {
						rv = v
					}
				}
			}
		}
	})
	h.Check(wv == rv, "version", r.P.Pos(ws.Pos()), fmt.Sprintf("writer and reader agree on version %d", wv), fmt.Sprintf("the state writer emits version %d, the reader accepts %d: no snapshot can be restored", wv, rv))
	// … and another version is refused whether or not the read itself failed: with the version test
	// answering "differs" and the read error answering "none", nothing further is read
	var vcmp *ssa.BinOp
	var vcall *ssa.Call
	allInstrs(rs, func(ins ssa.Instruction) {
		if bo, ok := ins.(*ssa.BinOp); ok && (bo.Op == token.NEQ || bo.Op == token.EQL) {
			for _, pair := range [][2]ssa.Value{{bo.X, bo.Y}, {bo.Y, bo.X}} {
				if _, isC := constInt(pair[1]); isC {
					if cl, isEx := extractOf(norm(pair[0]), 0); isEx && calleeIs(&cl.Call, "(*iostream.Reader).ReadUvarint") {
						vcmp, vcall = bo, cl
					}
				}
			}
		}
	})
	if vcmp != nil {
		reach, _ := feasibleUnder(rs, func(v ssa.Value) (bool, bool) {
			bo, ok := v.(*ssa.BinOp)
			if !ok {
				return false, false
			}
			if bo == vcmp {
				return bo.Op == token.NEQ, true
			}
			if bo.Op == token.NEQ || bo.Op == token.EQL {
				for _, pair := range [][2]ssa.Value{{bo.X, bo.Y}, {bo.Y, bo.X}} {
					if cl, isEx := extractOf(norm(pair[0]), 1); isEx && cl == vcall && isConstNil(pair[1]) {
						return bo.Op == token.EQL, true // no read error
					}
				}
			}
			return false, false
		})
		further := false
		allInstrs(rs, func(ins ssa.Instruction) {
			if c, ok := ins.(*ssa.Call); ok && c != vcall && reach[c.Block()] {
				if sc := c.Call.StaticCallee(); sc != nil && strings.HasPrefix(sc.Name(), "Read") {
					further = true
				}
			}
		})
		h.Check(!further, "version/refused", r.P.InstrPos(vcmp), "a state of another version is refused before anything else is read", "a state stream whose version differs is read on when the read itself did not fail (the version test is and-ed with the error test): a stream of another layout is decoded as if it were this one")
	}
}

func ruleTTLNames(r *Report) {
	h := r.Rule("C17.names", "S", "the TTL accessor reads and writes the expire column: reader and buffer are both obtained for the constant name the column was created under", 1)
	fn := r.Anchor("(*column.Txn).TTL")
	if fn == nil {
		return
	}
	okR, okW := false, false
	// the reader and the buffer may be obtained directly or through another accessor constructor
	// of the library (txn.Int64(name)): calls are followed two levels deep with the callee's
	// parameters bound to the arguments
	var visit func(f *ssa.Function, env *venv, depth int)
	visit = func(f *ssa.Function, env *venv, depth int) {
		allInstrs(f, func(ins ssa.Instruction) {
			cc, _, _ := callCommon(ins)
			if cc == nil || cc.StaticCallee() == nil {
				return
			}
			n := calleeShort(cc)
			nameIs := func(v ssa.Value) bool {
				nv, _ := normE(v, env, false)
				s, ok := constString(nv)
				return ok && s == "expire"
			}
			if strings.HasPrefix(n, "column.readNumberOf") && len(cc.Args) > 1 && nameIs(cc.Args[1]) {
				okR = true
				return
			}
			if n == "(*column.Txn).bufferFor" && len(cc.Args) > 1 && nameIs(cc.Args[1]) {
				okW = true
				return
			}
			sc := originOf(cc.StaticCallee())
			if depth < 2 && sc.Blocks != nil && r.P.InLib(sc) && sc.Parent() == nil {
				ne := &venv{bind: map[*ssa.Parameter]ssa.Value{}, outer: env}
				for j, par := range sc.Params {
					if j < len(cc.Args) {
						ne.bind[par] = cc.Args[j]
					}
				}
				visit(sc, ne, depth+1)
			}
		})
	}
	visit(fn, nil, 0)
	h.Check(okR && okW, "(*column.Txn).TTL", r.P.Pos(fn.Pos()), "reader and writer both on \"expire\"", "the TTL accessor does not read and write the expire column")
}

// isWordStore: a []uint64 or *[N]uint64 — the storage under a scratch bitmap kept as a plain array.
func isWordStore(t types.Type) bool {
	var el types.Type
	switch u := t.Underlying().(type) {
	case *types.Slice:
		el = u.Elem()
	case *types.Pointer:
		if a, ok := u.Elem().Underlying().(*types.Array); ok {
			el = a.Elem()
		}
	}
	b, ok := el.(*types.Basic)
	return ok && b.Kind() == types.Uint64
}

// readBeforeWritten: the fields of the struct that fn (helpers included) can load before having
// stored them in the same call: a load in fn that no store of fn dominates, or a load in a helper
// that no store of the helper dominates and no store of fn precedes the helper's call.
func readBeforeWritten(fn *ssa.Function, typ string, fields []string) map[string]bool {
	out := map[string]bool{}
	if fn == nil {
		for _, f := range fields {
			out[f] = true
		}
		return out
	}
	type acc struct{ loads, stores []ssa.Instruction }
	collect := func(g *ssa.Function) map[string]*acc {
		m := map[string]*acc{}
		allInstrs(g, func(ins ssa.Instruction) {
			fa, ok := ins.(*ssa.FieldAddr)
			if !ok {
				return
			}
			fr, ok := fieldOf(fa)
			if !ok || fr.Struct != typ {
				return
			}
			a := m[fr.Field]
			if a == nil {
				a = &acc{}
				m[fr.Field] = a
			}
			for _, ref := range *fa.Referrers() {
				switch x := ref.(type) {
				case *ssa.Store:
					if x.Addr == ssa.Value(fa) {
						a.stores = append(a.stores, x)
						continue
					}
					a.loads = append(a.loads, x)
				default:
					a.loads = append(a.loads, ref)
				}
			}
		})
		return m
	}
	top := collect(fn)
	exposed := func(a *acc) bool {
		for _, l := range a.loads {
			dom := false
			for _, st := range a.stores {
				if precedes(st, l) {
					dom = true
				}
			}
			if !dom {
				return true
			}
		}
		return false
	}
	for f, a := range top {
		if exposed(a) {
			out[f] = true
		}
	}
	allInstrs(fn, func(ins ssa.Instruction) {
		cc, _, _ := callCommon(ins)
		if cc == nil || cc.StaticCallee() == nil || !isHelper(cc.StaticCallee()) {
			return
		}
		for _, g := range deepFuncs(originOf(cc.StaticCallee())) {
			for f, a := range collect(g) {
				if !exposed(a) {
					continue
				}
				covered := false
				if t := top[f]; t != nil {
					for _, st := range t.stores {
						if precedes(st, ins) {
							covered = true
						}
					}
				}
				if !covered {
					out[f] = true
				}
			}
		}
	})
	return out
}

// elemBase: for a loaded element x[i], the slice x (nil otherwise).
func elemBase(v ssa.Value) ssa.Value {
	ld, ok := strip(v).(*ssa.UnOp)
	if !ok || ld.Op != token.MUL {
		return nil
	}
	ia, ok := ld.X.(*ssa.IndexAddr)
	if !ok {
		return nil
	}
	return ia.X
}

// precedesAllReturns: the instruction is executed on every path to every return of fn.
func precedesAllReturns(ins ssa.Instruction, fn *ssa.Function) bool {
	rets := returnsOf(fn)
	for _, ret := range rets {
		if !precedes(ins, ret) {
			return false
		}
	}
	return len(rets) > 0
}

func derefType(t types.Type) types.Type {
	if p, ok := t.Underlying().(*types.Pointer); ok {
		return p.Elem()
	}
	return t
}

// stepCall: a call of the Union body that hands a fixed step function to the block loop.
type stepCall struct {
	site ssa.Instruction
	ops  []string
}

// loopsBack: every path from a to b passes a loop head first (b is reached from a only in a later
// iteration): there is a block that dominates both and lies in a cycle, and b is not reachable from
// a without going through it.
func loopsBack(a, b *ssa.BasicBlock) bool {
	for _, h := range a.Parent().Blocks {
		if h == a || h == b || !inCycle(h) {
			continue
		}
		if h.Dominates(a) && h.Dominates(b) && !reachAvoiding(a, b, func(x *ssa.BasicBlock) bool { return x == h }, nil) {
			return true
		}
	}
	return false
}

// helperResult: the value an unexported one-result helper returns on its only return, when v is a
// call of such a helper (read in the helper's own body); v otherwise.
func helperResult(v ssa.Value) ssa.Value {
	for i := 0; i < 3; i++ {
		c, ok := v.(*ssa.Call)
		if !ok {
			return v
		}
		sc := c.Call.StaticCallee()
		if sc == nil || !isHelper(sc) || sc.Signature.Results().Len() != 1 {
			return v
		}
		rets := returnsOf(originOf(sc))
		if len(rets) != 1 || len(rets[0].Results) != 1 {
			return v
		}
		v = norm(rets[0].Results[0])
	}
	return v
}

// timeCallsOf: the functions and methods of package time on the dependency closure of v.
func timeCallsOf(v ssa.Value, depth int) map[string]bool {
	out := map[string]bool{}
	dependsOn(v, func(z ssa.Value) bool {
		if cl, ok := z.(*ssa.Call); ok {
			if sc := cl.Call.StaticCallee(); sc != nil && sc.Pkg != nil && sc.Pkg.Pkg.Path() == "time" {
				out[calleeShort(&cl.Call)] = true
			}
		}
		return false
	}, depth)
	return out
}

// nowPlusUnits: a deadline is time.Now().Add(ttl).UnixNano() (or Now().UnixNano() + int64(ttl)): on
// the way from the clock and the time-to-live to the stored int64 nothing rounds, truncates or
// changes the unit (Unix, UnixMilli, Round, Truncate, Seconds …).
func nowPlusUnits(v ssa.Value) bool {
	calls := timeCallsOf(v, 10)
	for n := range calls {
		switch n {
		case "time.Now", "(time.Time).Add", "(time.Time).UnixNano", "(time.Duration).Nanoseconds":
		default:
			return false
		}
	}
	return calls["(time.Time).UnixNano"] || len(calls) == 0
}
