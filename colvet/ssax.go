package colvet

import (
	"go/constant"
	"go/token"
	"go/types"
	"strings"

	"golang.org/x/tools/go/ssa"
)

// strip removes value-preserving wrappers (conversions between integer types, named/unnamed
// changes) so that `uint(chunk)` evaluated twice is recognised as the same underlying value.
func strip(v ssa.Value) ssa.Value {
	for {
		switch x := v.(type) {
		case *ssa.Convert:
			v = x.X
		case *ssa.ChangeType:
			v = x.X
		default:
			return v
		}
	}
}

// sameValue: identical SSA value after stripping conversions; two loads of the same
// address-less expression are NOT considered the same (no CSE in go/ssa) except for constants.
func sameValue(a, b ssa.Value) bool {
	a, b = strip(a), strip(b)
	if a == b {
		return true
	}
	ca, ok1 := a.(*ssa.Const)
	cb, ok2 := b.(*ssa.Const)
	if ok1 && ok2 && ca.Value != nil && cb.Value != nil {
		return constant.Compare(ca.Value, token.EQL, cb.Value)
	}
	return false
}

// norm strips conversions and looks through single-assignment variable cells (a parameter
// or local captured by a closure is spilled to an Alloc that is stored exactly once).
func norm(v ssa.Value) ssa.Value {
	for i := 0; i < 10; i++ {
		v = strip(v)
		switch x := v.(type) {
		case *ssa.Parameter:
			// parameter of a helper with a single call site: the argument it is bound to
			if a := paramArg(x); a != nil {
				v = a
				continue
			}
			return v
		case *ssa.FreeVar:
			if n := freeVarValue1(x); n != nil {
				v = n
				continue
			}
			return v
		case *ssa.UnOp:
			if x.Op != token.MUL {
				return v
			}
			switch a := x.X.(type) {
			case *ssa.Alloc:
				var val ssa.Value
				n := 0
				for _, ref := range *a.Referrers() {
					if st, ok := ref.(*ssa.Store); ok && st.Addr == a {
						val = st.Val
						n++
					}
				}
				if n != 1 || escapesToWriter(a) {
					return v
				}
				v = val
				continue
			case *ssa.FreeVar:
				if n := freeVarValue1(x); n != nil {
					v = n
					continue
				}
				return v
			case *ssa.FieldAddr:
				// a field of a local struct that is assigned exactly once (rows.present = …)
				if n := structFieldValue(a.X, a.Field); n != nil {
					v = n
					continue
				}
				return v
			}
			return v
		case *ssa.Field:
			// field of a struct value copied from such a local (handed to a helper by value)
			if ld, ok := aggSource(x.X).(*ssa.UnOp); ok && ld.Op == token.MUL {
				if n := structFieldValue(ld.X, x.Field); n != nil {
					v = n
					continue
				}
			}
			return v
		default:
			return v
		}
	}
	return v
}

// aggSource follows a struct value back through helper parameters to the load it was copied from.
func aggSource(v ssa.Value) ssa.Value {
	for i := 0; i < 4; i++ {
		v = strip(v)
		if p, ok := v.(*ssa.Parameter); ok {
			if a := paramArg(p); a != nil {
				v = a
				continue
			}
		}
		break
	}
	return v
}

// cellAlloc: the local variable an address denotes — the Alloc itself or the Alloc a captured
// variable is bound to at its single creation site.
func cellAlloc(addr ssa.Value) *ssa.Alloc {
	for i := 0; i < 8; i++ {
		switch a := addr.(type) {
		case *ssa.Alloc:
			return a
		case *ssa.FreeVar:
			b := freeVarValue1(a)
			if b == nil {
				return nil
			}
			addr = b
		case *ssa.Parameter:
			// the receiver of a method that is used as a method value: the value it was bound to;
			// a pointer parameter of a helper: the argument of its (single) call
			if b := boundReceiver(a); b != nil {
				addr = b
			} else if b := paramArg(a); b != nil {
				addr = b
			} else {
				return nil
			}
		case *ssa.UnOp:
			// a pointer kept in a single-assignment variable (a parameter captured by a closure)
			if a.Op != token.MUL {
				return nil
			}
			n := norm1(a)
			if n == nil {
				return nil
			}
			addr = n
		default:
			return nil
		}
	}
	return nil
}

// boundReceiver: par is the receiver of a library method for which exactly one method value is
// created in the library (and which is not called directly): the receiver bound there.
func boundReceiver(par *ssa.Parameter) ssa.Value {
	m := par.Parent()
	if m == nil || m.Signature.Recv() == nil || len(m.Params) == 0 || m.Params[0] != par || curProg == nil {
		return nil
	}
	if curProg.bound == nil {
		curProg.bound = map[*ssa.Function][]*ssa.MakeClosure{}
		for f := range curProg.modFunc {
			allInstrs(f, func(ins ssa.Instruction) {
				if mc, ok := ins.(*ssa.MakeClosure); ok {
					if t := boundTarget(mc.Fn.(*ssa.Function)); t != nil {
						curProg.bound[originOf(t)] = append(curProg.bound[originOf(t)], mc)
					}
				}
			})
		}
	}
	mcs := curProg.bound[originOf(m)]
	if len(mcs) != 1 || len(mcs[0].Bindings) != 1 {
		return nil
	}
	uniqueCallOf(m)
	for _, ci := range curProg.uniq[originOf(m)] {
		if boundTarget(ci.Parent()) == nil {
			return nil // also called directly
		}
	}
	return mcs[0].Bindings[0]
}

// structFieldValue: the single value ever stored into field #field of the local struct variable at
// addr, provided the variable is never assigned as a whole, the field's address does not escape and
// no closure writes it.
func structFieldValue(addr ssa.Value, field int) ssa.Value {
	al := cellAlloc(addr)
	if al == nil {
		return nil
	}
	if _, isStruct := al.Type().Underlying().(*types.Pointer).Elem().Underlying().(*types.Struct); !isStruct {
		return nil
	}
	var val ssa.Value
	n := 0
	ok := true
	var whole []ssa.Value
	var scan func(a ssa.Value, depth int)
	scan = func(a ssa.Value, depth int) {
		for _, ref := range *a.Referrers() {
			switch x := ref.(type) {
			case *ssa.Store:
				if x.Addr == a {
					whole = append(whole, x.Val) // whole-struct assignment
				} else if cell, isCell := x.Addr.(*ssa.Alloc); isCell && depth <= 3 {
					// the pointer is kept in a variable of its own (a parameter captured by a
					// closure): every value loaded from that variable is the pointer again
					var loads func(c ssa.Value, d int)
					loads = func(c ssa.Value, d int) {
						for _, r2 := range *c.Referrers() {
							switch y := r2.(type) {
							case *ssa.Store:
								if y.Addr != c || y.Val != a {
									ok = false
								}
							case *ssa.UnOp:
								scan(y, depth+1)
							case *ssa.MakeClosure:
								cf := y.Fn.(*ssa.Function)
								for i, b := range y.Bindings {
									if b == c && i < len(cf.FreeVars) && d < 2 {
										loads(cf.FreeVars[i], d+1)
									}
								}
							case *ssa.DebugRef:
							default:
								ok = false
							}
						}
					}
					loads(cell, 0)
				} else {
					ok = false // address stored somewhere
				}
			case *ssa.FieldAddr:
				if x.Field != field {
					continue
				}
				for _, r2 := range *x.Referrers() {
					switch y := r2.(type) {
					case *ssa.Store:
						if y.Addr == ssa.Value(x) {
							val = y.Val
							n++
						} else {
							ok = false
						}
					case *ssa.UnOp, *ssa.DebugRef:
					default:
						ok = false
					}
				}
			case *ssa.MakeClosure:
				if depth > 3 {
					ok = false
					continue
				}
				cf := x.Fn.(*ssa.Function)
				if m := boundTarget(cf); m != nil {
					// bound as the receiver of a method value: the method's uses of its receiver
					if len(x.Bindings) == 1 && x.Bindings[0] == a && len(originOf(m).Params) > 0 {
						scan(originOf(m).Params[0], depth+1)
					} else {
						ok = false
					}
					continue
				}
				for i, b := range x.Bindings {
					if b == a && i < len(cf.FreeVars) {
						scan(cf.FreeVars[i], depth+1)
					}
				}
			case *ssa.Call:
				// handed to a library function as receiver or argument: what that function does
				// with its parameter
				sc := x.Call.StaticCallee()
				if sc == nil || x.Call.IsInvoke() || depth > 3 || curProg == nil || !curProg.InLib(sc) || originOf(sc).Blocks == nil {
					ok = false
					continue
				}
				o := originOf(sc)
				for i, arg := range x.Call.Args {
					if arg == a && i < len(o.Params) {
						scan(o.Params[i], depth+1)
					}
				}
			case *ssa.UnOp, *ssa.DebugRef:
			default:
				ok = false
			}
		}
	}
	scan(al, 0)
	if ok && n == 0 && len(whole) == 1 && structFieldDepth < 3 {
		// a by-value copy of another local struct (a struct parameter spilled on entry)
		if ld, isLd := aggSource(whole[0]).(*ssa.UnOp); isLd && ld.Op == token.MUL {
			structFieldDepth++
			defer func() { structFieldDepth-- }()
			return structFieldValue(ld.X, field)
		}
		return nil
	}
	if !ok || n != 1 || len(whole) != 0 {
		return nil
	}
	return val
}

var structFieldDepth int

// freeVarValue1 resolves a captured variable (v = the FreeVar itself, or a load through it) to the
// value bound in the creating function when there is exactly one creation site and, for cells,
// exactly one store. Returns nil if not resolvable.
func freeVarValue1(v ssa.Value) ssa.Value {
	var fv *ssa.FreeVar
	deref := false
	switch x := v.(type) {
	case *ssa.FreeVar:
		fv = x
	case *ssa.UnOp:
		if f, ok := x.X.(*ssa.FreeVar); ok && x.Op == token.MUL {
			fv, deref = f, true
		}
	}
	if fv == nil {
		return nil
	}
	fn := fv.Parent()
	par := fn.Parent()
	if par == nil {
		return nil
	}
	idx := -1
	for i, f := range fn.FreeVars {
		if f == fv {
			idx = i
		}
	}
	var bound ssa.Value
	n := 0
	allInstrs(par, func(ins ssa.Instruction) {
		if mc, ok := ins.(*ssa.MakeClosure); ok && mc.Fn == fn && idx >= 0 {
			bound = mc.Bindings[idx]
			n++
		}
	})
	if n != 1 {
		return nil
	}
	if !deref {
		return bound
	}
	switch b := bound.(type) {
	case *ssa.Alloc:
		var val ssa.Value
		cnt := 0
		for _, ref := range *b.Referrers() {
			if st, ok := ref.(*ssa.Store); ok && st.Addr == b {
				val = st.Val
				cnt++
			}
		}
		if cnt != 1 || escapesToWriter(b) {
			return nil
		}
		return val
	case *ssa.FreeVar:
		// a cell captured through two closure levels: resolve the outer level
		inner := &ssa.UnOp{Op: token.MUL, X: b}
		return freeVarValue1(inner)
	}
	return nil
}

// asFunc: the function a function-typed operand denotes when it is a closure literal (with or
// without captured variables) or a named function.
func asFunc(v ssa.Value) *ssa.Function {
	switch x := v.(type) {
	case *ssa.MakeClosure:
		f := x.Fn.(*ssa.Function)
		if m := boundTarget(f); m != nil {
			return m
		}
		return f
	case *ssa.Function:
		// a method expression (sortIndexItem.less) is a synthetic thunk around the method
		if m := boundTarget(x); m != nil {
			return m
		}
		return x
	}
	return nil
}

// boundTarget: for the synthetic wrapper of a method value (`txn.markDirty` handed over where a
// function literal could stand) the library method it forwards to; nil otherwise.
func boundTarget(f *ssa.Function) *ssa.Function {
	if f == nil || f.Synthetic == "" || !(strings.HasSuffix(f.Name(), "$bound") || strings.HasSuffix(f.Name(), "$thunk")) || f.Prog == nil {
		return nil
	}
	obj, ok := f.Object().(*types.Func)
	if !ok {
		return nil
	}
	m := f.Prog.FuncValue(obj)
	if m == nil {
		m = f.Prog.FuncValue(obj.Origin())
	}
	if m == nil || m.Blocks == nil {
		return nil
	}
	return m
}

// cbParam: the i-th parameter of a callback as its invoker sees it — for a method value the bound
// receiver does not count.
func cbParam(f *ssa.Function, i int) *ssa.Parameter {
	if f.Signature.Recv() != nil {
		i++
	}
	if i < len(f.Params) {
		return f.Params[i]
	}
	return nil
}

// freeVarValue resolves a (load of a) captured variable to the value bound in the creating
// function when that is unambiguous.
func freeVarValue(v ssa.Value) ssa.Value { return norm(v) }

// escapesToWriter: the cell is captured by a closure that stores into it.
func escapesToWriter(al *ssa.Alloc) bool {
	for _, ref := range *al.Referrers() {
		mc, ok := ref.(*ssa.MakeClosure)
		if !ok {
			continue
		}
		fn := mc.Fn.(*ssa.Function)
		for i, b := range mc.Bindings {
			if b != al {
				continue
			}
			fv := fn.FreeVars[i]
			for _, r2 := range *fv.Referrers() {
				if st, ok := r2.(*ssa.Store); ok && st.Addr == fv {
					return true
				}
			}
		}
	}
	return false
}

// sameExpr: structural equality of pure address/value expressions (two loads of the same field
// of the same base, conversions of the same value …). go/ssa performs no CSE, so `c.slock`
// evaluated twice yields two loads; for pairing lock operations that is the same lock.
func sameExpr(a, b ssa.Value) bool {
	if isNilValue(a) || isNilValue(b) {
		return false
	}
	return sameE(a, nil, b, nil, 0)
}

// isNilValue: a nil interface or a typed nil parameter (an absent callback parameter).
func isNilValue(v ssa.Value) bool {
	if v == nil {
		return true
	}
	if p, ok := v.(*ssa.Parameter); ok && p == nil {
		return true
	}
	return false
}

// callCommon extracts the CallCommon of call-like instructions.
func callCommon(ins ssa.Instruction) (cc *ssa.CallCommon, isDefer, isGo bool) {
	switch x := ins.(type) {
	case *ssa.Call:
		return &x.Call, false, false
	case *ssa.Defer:
		return &x.Call, true, false
	case *ssa.Go:
		return &x.Call, false, true
	}
	return nil, false, false
}

// originOf maps an instantiation to its generic origin (or returns fn itself).
func originOf(fn *ssa.Function) *ssa.Function {
	if fn == nil {
		return nil
	}
	if o := fn.Origin(); o != nil {
		return o
	}
	return fn
}

// baseName: method/function name without instantiation suffix ("Delete[column.sortIndexItem]" →
// "Delete").
func baseName(fn *ssa.Function) string {
	n := fn.Name()
	if i := strings.Index(n, "["); i >= 0 {
		n = n[:i]
	}
	return n
}

// calleeShort returns the short name of the static callee's generic origin ("" if dynamic).
func calleeShort(cc *ssa.CallCommon) string {
	if sc := cc.StaticCallee(); sc != nil {
		return Short(originOf(sc).String())
	}
	return ""
}

// calleeIs reports whether the static callee (origin) has one of the given short names.
func calleeIs(cc *ssa.CallCommon, names ...string) bool {
	n := calleeShort(cc)
	if n == "" {
		return false
	}
	for _, x := range names {
		if n == x {
			return true
		}
	}
	return false
}

// methodOn reports whether the static callee is method `name` of the (pointer to) named type
// pkgpath.typ, generic instantiations included (e.g. btree.BTreeG[...]).
func methodOn(cc *ssa.CallCommon, pkgSuffix, typ string, names ...string) bool {
	sc := cc.StaticCallee()
	if sc == nil || sc.Signature.Recv() == nil {
		return false
	}
	ok := false
	for _, n := range names {
		if baseName(sc) == n {
			ok = true
		}
	}
	if !ok {
		return false
	}
	return isNamed(sc.Signature.Recv().Type(), pkgSuffix, typ)
}

// isNamed: t (or *t) is the named type typ of a package whose path ends in pkgSuffix.
func isNamed(t types.Type, pkgSuffix, typ string) bool {
	if p, ok := t.(*types.Pointer); ok {
		t = p.Elem()
	}
	n, ok := t.(*types.Named)
	if !ok {
		if a, ok2 := t.(*types.Alias); ok2 {
			return isNamed(types.Unalias(a), pkgSuffix, typ)
		}
		return false
	}
	o := n.Obj()
	if o.Name() != typ || o.Pkg() == nil {
		return false
	}
	return o.Pkg().Path() == pkgSuffix || strings.HasSuffix(o.Pkg().Path(), "/"+pkgSuffix)
}

func isBitmap(t types.Type) bool { return isNamed(t, "github.com/kelindar/bitmap", "Bitmap") }

// fieldRef describes struct field access.
type fieldRef struct {
	Struct string // short named type, e.g. "column.Collection", "commit.Reader"
	Field  string
	X      ssa.Value // the struct (pointer) operand
}

func structName(t types.Type) string {
	if p, ok := t.Underlying().(*types.Pointer); ok {
		t = p.Elem()
	}
	if p, ok := t.(*types.Pointer); ok {
		t = p.Elem()
	}
	if n, ok := t.(*types.Named); ok {
		s := n.Obj().Name()
		if n.Obj().Pkg() != nil {
			s = n.Obj().Pkg().Name() + "." + s
		}
		return s
	}
	return t.String()
}

// fieldOf recognises FieldAddr and Field instructions.
func fieldOf(v ssa.Value) (fieldRef, bool) {
	switch x := v.(type) {
	case *ssa.FieldAddr:
		pt, ok := x.X.Type().Underlying().(*types.Pointer)
		if !ok {
			return fieldRef{}, false
		}
		st, ok := pt.Elem().Underlying().(*types.Struct)
		if !ok {
			return fieldRef{}, false
		}
		return fieldRef{Struct: structName(pt.Elem()), Field: st.Field(x.Field).Name(), X: x.X}, true
	case *ssa.Field:
		st, ok := x.X.Type().Underlying().(*types.Struct)
		if !ok {
			return fieldRef{}, false
		}
		return fieldRef{Struct: structName(x.X.Type()), Field: st.Field(x.Field).Name(), X: x.X}, true
	}
	return fieldRef{}, false
}

// loadedField: v is `*(&x.f)` or `x.f`; returns the field.
func loadedField(v ssa.Value) (fieldRef, bool) {
	v = strip(v)
	if u, ok := v.(*ssa.UnOp); ok && u.Op == token.MUL {
		return fieldOf(u.X)
	}
	if f, ok := v.(*ssa.Field); ok {
		return fieldOf(f)
	}
	return fieldRef{}, false
}

// constInt returns the integer value of a constant operand.
func constInt(v ssa.Value) (int64, bool) {
	c, ok := strip(v).(*ssa.Const)
	if !ok || c.Value == nil {
		return 0, false
	}
	if c.Value.Kind() != constant.Int {
		return 0, false
	}
	i, ok := constant.Int64Val(c.Value)
	return i, ok
}

// allInstrs visits every instruction of fn (not of nested closures).
func allInstrs(fn *ssa.Function, f func(ssa.Instruction)) {
	for _, b := range fn.Blocks {
		for _, ins := range b.Instrs {
			f(ins)
		}
	}
}

// withClosures visits fn and, transitively, every anonymous function nested in it.
func withClosures(fn *ssa.Function, f func(*ssa.Function)) {
	withClosures1(fn, f, map[*ssa.Function]bool{})
}

func withClosures1(fn *ssa.Function, f func(*ssa.Function), seen map[*ssa.Function]bool) {
	if seen[fn] {
		return
	}
	seen[fn] = true
	f(fn)
	for _, a := range fn.AnonFuncs {
		withClosures1(a, f, seen)
	}
	// a helper method handed over as a method value stands where a function literal could
	for _, b := range fn.Blocks {
		for _, ins := range b.Instrs {
			if mc, ok := ins.(*ssa.MakeClosure); ok {
				if m := boundTarget(mc.Fn.(*ssa.Function)); m != nil && isHelper(m) {
					withClosures1(originOf(m), f, seen)
				}
			}
		}
	}
}

// reachAvoiding reports whether `to` is reachable from `from` in fn's CFG without entering any
// block for which avoid returns true (from itself is entered regardless; `to` may be avoided —
// reaching it counts before the test). `allowed` (optional) restricts the walk to blocks in it.
func reachAvoiding(from, to *ssa.BasicBlock, avoid func(*ssa.BasicBlock) bool, allowed func(*ssa.BasicBlock) bool) bool {
	seen := map[*ssa.BasicBlock]bool{from: true}
	work := []*ssa.BasicBlock{from}
	for len(work) > 0 {
		b := work[len(work)-1]
		work = work[:len(work)-1]
		for _, s := range b.Succs {
			if s == to {
				return true
			}
			if seen[s] {
				continue
			}
			seen[s] = true
			if avoid != nil && avoid(s) {
				continue
			}
			if allowed != nil && !allowed(s) {
				continue
			}
			work = append(work, s)
		}
	}
	return false
}

// instrIndex returns the index of ins within its block.
func instrIndex(ins ssa.Instruction) int {
	for i, x := range ins.Block().Instrs {
		if x == ins {
			return i
		}
	}
	return -1
}

// precedes: every path from the function entry to b passes a (dominance, or same block and
// earlier).
func precedes(a, b ssa.Instruction) bool {
	if a.Block() == b.Block() {
		return instrIndex(a) < instrIndex(b)
	}
	return a.Block().Dominates(b.Block())
}

// returnsOf lists the Return (and Panic-free) exits of fn.
func returnsOf(fn *ssa.Function) []*ssa.Return {
	var out []*ssa.Return
	for _, b := range fn.Blocks {
		if len(b.Instrs) == 0 {
			continue
		}
		if r, ok := b.Instrs[len(b.Instrs)-1].(*ssa.Return); ok {
			out = append(out, r)
		}
	}
	return out
}

// exprRoot walks backwards through value-preserving/arith instructions collecting leaf values.
// Used for cheap "depends on" def-use questions inside one function.
func dependsOn(v ssa.Value, pred func(ssa.Value) bool, depth int) bool {
	seen := map[ssa.Value]bool{}
	var rec func(v ssa.Value, d int) bool
	rec = func(v ssa.Value, d int) bool {
		if v == nil || seen[v] || d > depth {
			return false
		}
		seen[v] = true
		if pred(v) {
			return true
		}
		// a single-assignment local, a captured variable, a field of a local struct value
		if n := norm1(v); n != nil && rec(n, d+1) {
			return true
		}
		switch x := v.(type) {
		case *ssa.Phi:
			for _, e := range x.Edges {
				if rec(e, d+1) {
					return true
				}
			}
		case *ssa.Parameter:
			if a := paramArg(x); a != nil {
				return rec(a, d+1)
			}
		case *ssa.FreeVar:
			if a := freeVarValue1(x); a != nil {
				return rec(a, d+1)
			}
		case *ssa.Call:
			// the result of a helper depends on what the helper returns
			if sc := x.Call.StaticCallee(); sc != nil && isHelper(sc) {
				for _, ret := range returnsOf(originOf(sc)) {
					for _, res := range ret.Results {
						if rec(res, d+1) {
							return true
						}
					}
				}
			}
			for _, op := range x.Operands(nil) {
				if *op != nil && rec(*op, d+1) {
					return true
				}
			}
		case ssa.Instruction:
			for _, op := range x.Operands(nil) {
				if *op != nil && rec(*op, d+1) {
					return true
				}
			}
		}
		// loads from a captured cell: the stores into it in this closure and in the function that owns it
		if u, ok := v.(*ssa.UnOp); ok && u.Op == token.MUL {
			if fv, ok := u.X.(*ssa.FreeVar); ok {
				for _, ref := range *fv.Referrers() {
					if st, ok := ref.(*ssa.Store); ok && st.Addr == ssa.Value(fv) && rec(st.Val, d+1) {
						return true
					}
				}
				if a, ok := freeVarValue1(fv).(*ssa.Alloc); ok {
					for _, ref := range *a.Referrers() {
						if st, ok := ref.(*ssa.Store); ok && st.Addr == a && rec(st.Val, d+1) {
							return true
						}
					}
				}
			}
		}
		// loads from a local cell: follow the stores into it
		if u, ok := v.(*ssa.UnOp); ok && u.Op == token.MUL {
			if a, ok := u.X.(*ssa.Alloc); ok {
				for _, ref := range *a.Referrers() {
					if st, ok := ref.(*ssa.Store); ok && st.Addr == a && rec(st.Val, d+1) {
						return true
					}
				}
			}
		}
		return false
	}
	return rec(v, 0)
}
