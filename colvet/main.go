package colvet

import (
	"fmt"
	"os"
	"path/filepath"
	"runtime"
	"sort"
	"strings"
	"time"

	"golang.org/x/tools/go/ssa"
)

// Specs is the registry of property checks, filled by the cNN.go files.
var Specs = map[string]*PropSpec{}

func register(s *PropSpec) { Specs[s.ID] = s }

// Main runs one property (or all) and returns the process exit code.
func Main(repo, verifDir, property, tier, onlyKey string, t0 time.Time) int {
	var ids []string
	if property == "all" {
		for id := range Specs {
			ids = append(ids, id)
		}
		sort.Strings(ids)
	} else {
		if Specs[property] == nil {
			fmt.Fprintf(os.Stderr, "colvet: no check registered for property %q\n", property)
			return 2
		}
		ids = []string{property}
	}
	known, err := LoadKnown(filepath.Join(verifDir, "known_findings.json"))
	if err != nil {
		fmt.Fprintln(os.Stderr, "colvet:", err)
		return 2
	}
	archs := []string{""}
	if tier == "thorough" {
		archs = append(archs, "arm64")
	}
	exit := 0
	witness := map[string][]WitnessResult{}
	if tier == "thorough" && onlyKey == "" && !KeysOnly {
		for _, id := range ids {
			res, code := RunWitnesses(repo, verifDir, id)
			witness[id] = res
			if code > exit {
				exit = code
			}
		}
	}
	for ai, arch := range archs {
		p, err := Load(repo, arch)
		if err != nil {
			fmt.Fprintln(os.Stderr, "colvet: cannot analyse:", err)
			return 2
		}
		sh := &Shared{P: p}
		for _, id := range ids {
			start := time.Now()
			if len(ids) == 1 && ai == 0 {
				start = t0
			}
			spec := Specs[id]
			r := NewReport(p, id, tier)
			r.Shared = sh
			r.VerifDir = verifDir
			r.Witness = witness[id]
			r.Configs = []string{"GOARCH=" + runtimeArch()}
			if tier == "thorough" {
				r.Configs = append(r.Configs, "GOARCH=arm64")
			}
			spec.Run(r)
			if arch != "" {
				r.Note("this evidence file was written by the second configuration GOARCH=%s; the default configuration ran first with the same rules", arch)
			}
			// The evidence file is written by the last configuration analysed; both must pass.
			out := r.Finish(verifDir, known, spec, time.Since(start), onlyKey)
			if out.Exit > exit {
				exit = out.Exit
			}
		}
	}
	return exit
}

func runtimeArch() string { return runtime.GOARCH }

// Shared caches whole-program analyses between the properties of one process.
type Shared struct {
	P      *Prog
	l      *LFacts
	bodies []*applyBody
	u      *Units
	fp     map[string][]string
	fpw    map[string]map[string]footWitness
}

func (s *Shared) Footprints() (map[string][]string, map[string]map[string]footWitness) {
	if s.fp == nil {
		s.fp, s.fpw = computeFootprints(s.Lockset())
	}
	return s.fp, s.fpw
}

func (s *Shared) Lockset() *LFacts {
	if s.l == nil {
		s.l = RunLockset(s.P)
	}
	return s.l
}

// Dump prints debug views.
func Dump(p *Prog, what, filter string) {
	switch what {
	case "funcs":
		for _, n := range p.FuncNames() {
			if strings.Contains(n, filter) {
				fmt.Println(n)
			}
		}
	case "lockset":
		t := time.Now()
		L := RunLockset(p)
		fmt.Printf("contexts=%d roots=%d sites=%d usercb=%d acq=%d unbalanced=%d unresolved-dynamic=%d in %v\n",
			len(L.Ctxs), len(L.Roots), len(L.At), len(L.UserCB), len(L.Acq), len(L.Unbal), len(L.Unres), time.Since(t))
		type row struct{ s string }
		var rows []string
		for ins, ss := range L.At {
			cc, _, _ := callCommon(ins)
			if cc == nil {
				continue
			}
			name := calleeShort(cc)
			if cc.IsInvoke() {
				name = "invoke " + cc.Method.Name()
			}
			line := fmt.Sprintf("%s  CALL %s in %s", p.InstrPos(ins), name, Short(ins.Parent().String()))
			if !strings.Contains(line, filter) {
				continue
			}
			hs := map[string]string{}
			for _, s := range ss {
				hs[s.Held.key()] = strings.Join(s.Ctx.PathNames(), " > ")
			}
			var ks []string
			for k := range hs {
				ks = append(ks, k)
			}
			sort.Strings(ks)
			for _, k := range ks {
				line += fmt.Sprintf("\n      held={%s} via %s", k, hs[k])
			}
			rows = append(rows, line)
		}
		sort.Strings(rows)
		for _, r := range rows {
			fmt.Println(r)
		}
		fmt.Println("--- user callbacks")
		rows = nil
		for ins, ss := range L.UserCB {
			line := fmt.Sprintf("%s  USERCB in %s", p.InstrPos(ins), Short(ins.Parent().String()))
			hs := map[string]bool{}
			for _, s := range ss {
				hs[s.Held.key()+"  root="+s.Ctx.Root] = true
			}
			var ks []string
			for k := range hs {
				ks = append(ks, k)
			}
			sort.Strings(ks)
			for _, k := range ks {
				line += "\n      held={" + k
			}
			rows = append(rows, line)
		}
		sort.Strings(rows)
		for _, r := range rows {
			fmt.Println(r)
		}
		fmt.Println("--- acquisition edges")
		es := map[string]string{}
		for _, a := range L.Acq {
			k := a.From + " -> " + a.To
			if _, ok := es[k]; !ok {
				es[k] = p.InstrPos(a.Site) + " via " + strings.Join(a.Ctx.PathNames(), " > ")
			}
		}
		var ks []string
		for k := range es {
			ks = append(ks, k)
		}
		sort.Strings(ks)
		for _, k := range ks {
			fmt.Printf("%s   @%s\n", k, es[k])
		}
		fmt.Println("--- unbalanced")
		for _, u := range L.Unbal {
			fmt.Printf("%s in %s entry={%s} exit={%s}\n", p.InstrPos(u.Exit), Short(u.Ctx.Fn.String()), u.Entry, u.AtEnd)
		}
		fmt.Println("--- unresolved dynamic calls in library")
		rows = nil
		for ins := range L.Unres {
			if p.InLib(ins.Parent()) {
				rows = append(rows, fmt.Sprintf("%s in %s: %s", p.InstrPos(ins), Short(ins.Parent().String()), ins.String()))
			}
		}
		sort.Strings(rows)
		for _, r := range rows {
			fmt.Println(r)
		}
	default:
		if f, ok := dumpers[what]; ok {
			f(p, filter)
			return
		}
		fmt.Println("unknown dump")
	}
}

var dumpers = map[string]func(p *Prog, filter string){}

var _ = ssa.BuilderMode(0)
