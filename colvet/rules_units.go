package colvet

import (
	"fmt"
	"go/token"
	"go/types"
	"strings"

	"golang.org/x/tools/go/ssa"
)

// unitsExempt: functions whose unclassified sinks are understood and not offsets.
var unitsExempt = map[string]string{
	"(*column.chunks[T]).Grow":           "the argument is a capacity (highest offset to cover), only its block number is used",
	"(*column.Collection).findFreeIndex": "word index derived from the row count, not from an offset",
	"(*column.Collection).readState$1$1": "block number is the loop index of the stream reader",
}

func (s *Shared) Units() *Units {
	if s.u == nil {
		s.u = RunUnits(s.P)
	}
	return s.u
}

// ruleUnits emits one obligation per function that contains offset/bitmap sinks selected by sel.
func ruleUnits(r *Report, id, text string, floor int, sel func(fn string) bool) {
	u := r.Shared.Units()
	h := r.Rule(id, "U", text, floor)
	type agg struct {
		n     int
		bad   *USink
		first *USink
	}
	by := map[string]*agg{}
	for i := range u.Sinks {
		s := &u.Sinks[i]
		n := fnName(s.Fn)
		if sel != nil && !sel(n) && !reachedFromSelected(s.Fn, sel) {
			continue
		}
		a := by[n]
		if a == nil {
			a = &agg{first: s}
			by[n] = a
		}
		a.n++
		switch s.Status() {
		case "mismatch":
			if a.bad == nil || a.bad.Status() != "mismatch" {
				a.bad = s
			}
		case "unclassified":
			if _, ex := unitsExempt[n]; ex {
				r.Stats["units_exempt_unclassified"]++
				continue
			}
			if a.bad == nil {
				a.bad = s
			}
		}
	}
	r.Stats["units_sinks_total"] = len(u.Sinks)
	for _, n := range sortedKeys(by) {
		a := by[n]
		if a.bad != nil {
			msg := fmt.Sprintf("%s needs %s but gets %s", a.bad.What, a.bad.Want, a.bad.Got)
			if a.bad.Status() == "unclassified" {
				msg += " (the unit of the expression is not derivable from chunk.Min()/IndexAtChunk()/the offset sources)"
			} else {
				msg += ": wrong for every block other than block 0"
			}
			h.Bad(n, r.P.InstrPos(a.bad.Ins), msg)
		} else {
			h.OK(n, r.P.InstrPos(a.first.Ins), fmt.Sprintf("%d sinks agree", a.n))
		}
	}
}

// ruleUnitDefs: the functions that define the units agree on the block size.
func ruleUnitDefs(r *Report) {
	h := r.Rule("U.defs", "S", "the block arithmetic is defined consistently: both packages use the same chunkShift, bitmapShift = chunkShift-6, chunkSize = 1<<chunkShift; ChunkAt/Min/IndexAtChunk/OfBitmap/writeChunk shift by those constants; the scratch bitmap of WithUnion has chunkSize/64 words", 7)
	get := func(pkg, name string) (string, bool) {
		v, ok := r.P.ConstVal(pkg, name)
		if !ok {
			r.Unresolve("constant " + pkg + "." + name)
		}
		return v, ok
	}
	cs1, ok1 := get("column", "chunkShift")
	cs2, ok2 := get("commit", "chunkShift")
	if !ok1 || !ok2 {
		return
	}
	h.Check(cs1 == cs2, "chunkShift", "-", "column.chunkShift == commit.chunkShift == "+cs1, "column.chunkShift ("+cs1+") != commit.chunkShift ("+cs2+")")
	var shift int64
	fmt.Sscanf(cs1, "%d", &shift)
	for _, pkg := range []string{"column", "commit"} {
		// the derived constants are checked where a package declares them (an unused one may be
		// removed; the functions that would have used it are checked by their arithmetic below)
		if bs, ok := r.P.ConstVal(pkg, "bitmapShift"); ok {
			h.Check(bs == fmt.Sprint(shift-6), pkg+".bitmapShift", "-", "= chunkShift-6", pkg+".bitmapShift is "+bs+", expected chunkShift-6")
		}
		if sz, ok := r.P.ConstVal(pkg, "chunkSize"); ok {
			h.Check(sz == fmt.Sprint(int64(1)<<shift), pkg+".chunkSize", "-", "= 1<<chunkShift", pkg+".chunkSize is "+sz)
		}
		if bsz, ok := r.P.ConstVal(pkg, "bitmapSize"); ok {
			h.Check(bsz == fmt.Sprint(int64(1)<<(shift-6)), pkg+".bitmapSize", "-", "= chunkSize/64", pkg+".bitmapSize is "+bsz)
		}
	}
	// scaling inside the defining functions: every shift / multiplication / division / mask by a
	// constant, brought to the form "× or ÷ or mod 2^k", uses the block size (resp. the words per
	// block) and nothing else — whatever the spelling
	type def struct {
		fn    string
		scale int64
	}
	for _, d := range []def{
		{"commit.ChunkAt", int64(1) << shift},
		{"(commit.Chunk).Min", int64(1) << shift},
		{"(*commit.Reader).IndexAtChunk", int64(1) << shift},
		{"(commit.Chunk).OfBitmap", int64(1) << (shift - 6)},
		{"(*commit.Buffer).writeChunk", int64(1) << shift},
	} {
		fn := r.Anchor(d.fn)
		if fn == nil {
			continue
		}
		var got []int64
		allInstrs(fn, func(ins ssa.Instruction) {
			bo, ok := ins.(*ssa.BinOp)
			if !ok {
				return
			}
			switch bo.Op {
			case token.SHL, token.SHR, token.MUL, token.QUO, token.REM, token.AND:
			default:
				return
			}
			if _, isBool := bo.Type().Underlying().(*types.Basic); !isBool {
				return
			}
			if op, _, _, c, isC := canonBin(bo); isC && (op == token.QUO || op == token.MUL || op == token.REM) {
				got = append(got, c)
			} else if bo.Op == token.SHL || bo.Op == token.SHR {
				got = append(got, -1) // shift by a variable
			}
		})
		if d.fn == "(*commit.Buffer).writeChunk" {
			// the block may be computed through ChunkAt: read it off the comparison (analysis W)
			got = nil
			if k := wireBlockOfWriteChunk(fn); k >= 0 {
				got = []int64{int64(1) << uint(k)}
			}
		}
		ok := len(got) > 0
		for _, g := range got {
			if g != d.scale {
				ok = false
			}
		}
		h.Check(ok, d.fn, r.P.Pos(fn.Pos()), fmt.Sprintf("scales by %v", got), fmt.Sprintf("scales by %v, expected only %d", got, d.scale))
	}
	// Max = Min + chunkSize - 1
	if fn := r.Anchor("(commit.Chunk).Max"); fn != nil {
		ok := false
		for _, ret := range returnsOf(fn) {
			if len(ret.Results) == 1 {
				calls, k, lin := linearForm(ret.Results[0])
				if lin && len(calls) == 1 && calleeIs(&calls[0].Call, "(commit.Chunk).Min") && k == int64(1)<<shift-1 {
					ok = true
				}
			}
		}
		h.Check(ok, "(commit.Chunk).Max", r.P.Pos(fn.Pos()), "Min()+chunkSize-1", "Chunk.Max is not Min()+chunkSize-1")
	}
	// WithUnion scratch bitmap: make(bitmap.Bitmap, chunkSize/64)
	if fn := r.Anchor("(*column.Txn).WithUnion"); fn != nil {
		ok, seen := true, false
		allInstrs(fn, func(ins ssa.Instruction) {
			if ms, isMS := ins.(*ssa.MakeSlice); isMS && isBitmap(ms.Type()) {
				seen = true
				if c, isC := constInt(ms.Len); !isC || c < int64(1)<<(shift-6) { // at least a block's words: a longer scratch is intersected over the block's words only
					ok = false
				}
			}
			// make with a constant length is compiled to new([N]uint64)[:]
			if sl, isSl := ins.(*ssa.Slice); isSl && isBitmap(sl.Type()) {
				if al, isAl := sl.X.(*ssa.Alloc); isAl {
					if arr, isArr := al.Type().Underlying().(*types.Pointer).Elem().Underlying().(*types.Array); isArr {
						seen = true
						if arr.Len() < int64(1)<<(shift-6) {
							ok = false
						}
					}
				}
			}
		})
		if seen {
			h.Check(ok, "(*column.Txn).WithUnion/scratch", r.P.Pos(fn.Pos()), "scratch bitmap covers one block", "the scratch bitmap of WithUnion has fewer than chunkSize/64 words: the union of a block is truncated")
		}
	}
	_ = strings.TrimSpace
}

// linearForm reads v as (sum of calls, each with coefficient +1) + constant.
func linearForm(v ssa.Value) (calls []*ssa.Call, k int64, ok bool) {
	switch x := strip(v).(type) {
	case *ssa.Const:
		c, isC := constInt(x)
		return nil, c, isC
	case *ssa.Call:
		return []*ssa.Call{x}, 0, true
	case *ssa.BinOp:
		if x.Op != token.ADD && x.Op != token.SUB {
			return nil, 0, false
		}
		c1, k1, ok1 := linearForm(x.X)
		c2, k2, ok2 := linearForm(x.Y)
		if !ok1 || !ok2 {
			return nil, 0, false
		}
		if x.Op == token.SUB {
			if len(c2) > 0 {
				return nil, 0, false
			}
			return c1, k1 - k2, true
		}
		return append(c1, c2...), k1 + k2, true
	}
	return nil, 0, false
}
