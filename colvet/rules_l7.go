package colvet

// ruleL7: cross-block shared state (DESIGN.md L7) — placeholder until implemented.
func ruleL7(r *Report) {}
