package colvet

import (
	"fmt"
	"sort"
	"strings"

	"golang.org/x/tools/go/ssa"
)

// ruleL7: cross-block shared state (DESIGN.md L7). The block latch serialises one block only.
// Column state that is not selected by block — the slice header of chunks[T], the
// whole-collection bitmaps of bool/index columns, the enum's string table — is shared by the
// writers and readers of all blocks. For every such field the rule collects the contexts of all
// header-writing sites (store to the field, Grow on it) and of all reading sites and requires
// (L7.write) that the writers hold a common exclusive lock and (L7.read) that every reader holds
// that lock too.
func ruleL7(r *Report) { ruleL7sel(r, nil, true) }

// ruleL7mode: mode 2 emits the writer-side obligations and, of the reader side, only the readers that
// hold a lock which some but not all writers hold (the class that is no known finding).
func ruleL7mode(r *Report, sel func(field string) bool, mode int) {
	l7HoldingOnly = mode == 2
	defer func() { l7HoldingOnly = false }()
	ruleL7sel(r, sel, mode != 0)
}

var l7HoldingOnly bool

// ruleL7sel: sel restricts the fields; withRead=false emits only the writer-side obligations.
func ruleL7sel(r *Report, sel func(field string) bool, withRead bool) {
	L := r.Shared.Lockset()
	hw := r.Rule("L7.write", "L", "every site that replaces the header of cross-block column state (chunks slice, whole-collection bitmap, enum table) holds a common exclusive lock", 1)
	hr := r.Rule("L7.read", "L", "every reader of cross-block column state holds the lock under which that state's header is replaced (the block latch does not order accesses of different blocks)", 0)
	type site struct {
		ins ssa.Instruction
		s   *LSite
		fn  string
	}
	type acc struct{ writes, reads []site }
	fields := map[string]*acc{}
	for ins, ss := range L.At {
		fa, ok := ins.(*ssa.FieldAddr)
		if !ok {
			continue
		}
		fr, _ := fieldOf(fa)
		k := storageField(fr)
		if k != stHeader && k != stWhole {
			continue
		}
		if fr.Struct == "column.columnKey" || fr.Struct == "column.columnSortIndex" {
			continue // L6
		}
		name := fr.Struct + "." + fr.Field
		write := false
		for _, ref := range *fa.Referrers() {
			switch x := ref.(type) {
			case *ssa.Store:
				if x.Addr == fa {
					write = true
				}
			case *ssa.Call:
				if sc := x.Call.StaticCallee(); sc != nil && len(x.Call.Args) > 0 && x.Call.Args[0] == ssa.Value(fa) && baseName(sc) == "Grow" {
					write = true
				}
			}
		}
		a := fields[name]
		if a == nil {
			a = &acc{}
			fields[name] = a
		}
		for i := range ss {
			s := &ss[i]
			if constructorCtx(s.Ctx) {
				continue
			}
			// a column that is not yet registered is private to its creator
			if pathHas(s.Ctx, "(*column.Collection).CreateColumn") && !pathHas(s.Ctx, "(*column.column).Grow") {
				continue
			}
			st := site{ins, s, fnName(ins.Parent())}
			if write {
				a.writes = append(a.writes, st)
			} else {
				a.reads = append(a.reads, st)
			}
		}
	}
	names := make([]string, 0, len(fields))
	for n := range fields {
		names = append(names, n)
	}
	sort.Strings(names)
	for _, n := range names {
		if sel != nil && !sel(n) {
			continue
		}
		a := fields[n]
		if len(a.writes) == 0 {
			hw.OK(n, "-", "never replaced after construction")
			continue
		}
		// common exclusive locks of the writers
		var common heldSet
		for _, w := range a.writes {
			ex := heldSet{}
			for k := range w.s.Held {
				if strings.HasSuffix(k, ":W") && !strings.HasPrefix(k, "latch") {
					ex[lockBase(k)] = true
				}
			}
			if common == nil {
				common = ex
			} else {
				common = meetHeld(common, ex)
			}
		}
		if len(common) == 0 {
			w := a.writes[0]
			for _, x := range a.writes {
				hasEx := false
				for k := range x.s.Held {
					if strings.HasSuffix(k, ":W") && !strings.HasPrefix(k, "latch") {
						hasEx = true
					}
				}
				if !hasEx {
					w = x
				}
			}
			o := hw.Bad(n, r.P.InstrPos(w.ins), "the header of this cross-block state is replaced without a common exclusive lock")
			setWitness(o, w.s)
			continue
		}
		hw.OK(n, r.P.InstrPos(a.writes[0].ins), fmt.Sprintf("%d writing contexts hold {%s}", len(a.writes), common.key()))
		if !withRead {
			continue
		}
		// readers
		via := map[string]*site{}
		nread := 0
		mis := map[string]bool{}
		someWriter := heldSet{}
		for _, w := range a.writes {
			for k := range w.s.Held {
				if !strings.HasPrefix(k, "latch") {
					someWriter[lockBase(k)] = true
				}
			}
		}
		for i := range a.reads {
			rd := &a.reads[i]
			nread++
			ok := false
			for l := range common {
				if rd.s.Held.has(l) {
					ok = true
				}
			}
			if !ok {
				// a reader that holds a lock which some, but not all, of the writers hold is a
				// different defect from a reader that relies on its block latch alone (the lock it
				// takes stopped ordering it against one of the writers): it gets its own key
				other := heldSet{}
				for k := range rd.s.Held {
					if !strings.HasPrefix(k, "latch") && someWriter[lockBase(k)] {
						other[lockBase(k)] = true
					}
				}
				if len(other) > 0 {
					if !mis[other.key()] {
						mis[other.key()] = true
						o := hr.Bad(n+"/holding "+other.key(), r.P.InstrPos(rd.ins), fmt.Sprintf("read in %s holding {%s}, but the header is replaced under {%s} only: the lock this reader takes no longer orders it against the writers that grow or append", rd.fn, other.key(), common.key()))
						setWitness(o, rd.s)
					}
					continue
				}
			}
			if !ok {
				// one key per entry point from which the unordered read is reached: a known finding
				// lists the entry points that race on the pinned tree, a reader that loses its lock
				// later shows up under the entry points it adds
				for _, rt := range L.RootsOf(rd.s.Ctx) {
					if via[rt] == nil {
						via[rt] = rd
					}
				}
				if len(L.RootsOf(rd.s.Ctx)) == 0 && via["?"] == nil {
					via["?"] = rd
				}
			}
		}
		if l7HoldingOnly {
			continue
		}
		if len(via) > 0 {
			for _, rt := range sortedKeys(via) {
				rd := via[rt]
				o := hr.Bad(n+"/via "+rt, r.P.InstrPos(rd.ins), fmt.Sprintf("read in %s, reached from %s, without any of the locks {%s} under which the header is replaced: a reader of one block races with a writer of another block that grows or appends", rd.fn, rt, common.key()))
				setWitness(o, rd.s)
			}
		} else {
			hr.OK(n, "-", fmt.Sprintf("%d reading contexts hold a writer's lock", nread))
		}
	}
}
