package colvet

import (
	"fmt"
	"go/token"
	"go/types"
	"strings"

	"golang.org/x/tools/go/ssa"
)

type applyBody struct {
	Kind string // numeric, string, enum, key, bool, index, trigger, sortindex
	Name string
	Fn   *ssa.Function
	Loop *ArmLoop
	// a dispatch loop in front of the real one: `for r.Next() { if Put||Delete { c.applyLocked(…, r); return } }`
	// skips the leading operations of other types and hands the rest of the section to a helper
	// whose loop processes the current operation and everything after it
	Outer    *ArmLoop
	OuterOps opset // the operation types that enter the helper; the others are skipped without effect
}

var kindOfType = map[string]string{
	"numericColumn": "numeric", "columnString": "string", "columnEnum": "enum", "columnKey": "key",
	"columnBool": "bool", "columnIndex": "index", "columnTrigger": "trigger", "columnSortIndex": "sortindex",
	"columnRecord": "record",
}

// applyBodies discovers the functions that implement Column.Apply for every column kind of the
// library: the Apply method of each implementing type, and for the numeric family the closure
// each generated constructor hands to makeNumeric.
func applyBodies(r *Report) []*applyBody {
	if r.Shared.bodies != nil {
		return r.Shared.bodies
	}
	var out []*applyBody
	iface := r.P.columnIface()
	if iface == nil {
		r.Unresolve("interface column.Column")
		return nil
	}
	sc := r.P.Col.Pkg.Scope()
	for _, name := range sc.Names() {
		tn, ok := sc.Lookup(name).(*types.TypeName)
		if !ok || name == "column" {
			continue
		}
		n, ok := tn.Type().(*types.Named)
		if !ok {
			continue
		}
		if _, isStruct := n.Underlying().(*types.Struct); !isStruct {
			continue
		}
		ms := types.NewMethodSet(types.NewPointer(n))
		sel := ms.Lookup(r.P.Col.Pkg, "Apply")
		if sel == nil {
			continue
		}
		// implements Column? (generic types: compare method names)
		impl := true
		for i := 0; i < iface.NumMethods(); i++ {
			if ms.Lookup(r.P.Col.Pkg, iface.Method(i).Name()) == nil {
				impl = false
			}
		}
		if !impl {
			continue
		}
		kind := kindOfType[name]
		if kind == "" {
			r.Unresolve("column kind of type column." + name + " (implements Column, not in the checker's table)")
			continue
		}
		fobj := sel.Obj().(*types.Func)
		fn := r.P.SSA.FuncValue(fobj.Origin())
		if fn == nil {
			r.Unresolve("SSA body of column." + name + ".Apply")
			continue
		}
		switch kind {
		case "record":
			// inherits the string column's Apply through embedding
			if rn := recvNamed(fn); rn == nil || rn.Obj().Name() != "columnString" {
				out = append(out, &applyBody{Kind: "string", Name: "column." + name, Fn: fn})
			}
			continue
		case "numeric":
			continue // delegates to the generated closure, discovered below
		}
		out = append(out, &applyBody{Kind: kind, Name: "column." + name, Fn: fn})
	}
	// numeric closures
	for fn := range r.P.modFunc {
		if fn.Parent() != nil || fn.Origin() != nil {
			continue
		}
		allInstrs(fn, func(ins ssa.Instruction) {
			c, ok := ins.(*ssa.Call)
			if !ok || !calleeIs(&c.Call, "column.makeNumeric") || len(c.Call.Args) < 2 {
				return
			}
			var body *ssa.Function
			switch v := c.Call.Args[1].(type) {
			case *ssa.Function:
				body = v
			case *ssa.MakeClosure:
				body = v.Fn.(*ssa.Function)
			}
			if body == nil {
				r.Unresolve("apply closure passed to makeNumeric in " + fnName(fn))
				return
			}
			out = append(out, &applyBody{Kind: "numeric", Name: "numeric/" + fn.Name(), Fn: body})
		})
	}
	for _, b := range out {
		loops := FindArmLoops(r.P, b.Fn)
		if len(loops) == 1 {
			b.Loop = loops[0]
			delegateLoop(r.P, b)
		}
	}
	sortBodies(out)
	r.Shared.bodies = out
	return out
}

func sortBodies(bs []*applyBody) {
	for i := 1; i < len(bs); i++ {
		for j := i; j > 0 && bs[j].Name < bs[j-1].Name; j-- {
			bs[j], bs[j-1] = bs[j-1], bs[j]
		}
	}
}

func effPos(p *Prog, es []Effect) string {
	if len(es) == 0 {
		return "-"
	}
	return p.InstrPos(es[0].Ins)
}

// armCheck helpers -----------------------------------------------------------------------------

type armRule struct {
	h *RuleH
	b *applyBody
	p *Prog
}

func (ar armRule) must(op int, what string, kinds ...string) bool {
	key := fmt.Sprintf("%s/%s/must-%s", ar.b.Name, opNames[op], what)
	ok := ar.b.Loop.Must(op, kinds...)
	if ar.b.Outer != nil && !ar.b.OuterOps.has(op) {
		ok = false // a leading operation of this type is skipped by the dispatch loop
	}
	pos := ar.p.Pos(ar.b.Fn.Pos())
	if es := ar.b.Loop.May(op, kinds[0]); len(es) > 0 {
		pos = ar.p.InstrPos(es[0].Ins)
	}
	ar.h.Check(ok, key, pos, "on every path of the arm", fmt.Sprintf("an operation of type %s can complete an iteration of %s without %s", opNames[op], fnName(ar.b.Fn), what))
	return ok
}

func (ar armRule) never(op int, what string, kinds ...string) {
	key := fmt.Sprintf("%s/%s/never-%s", ar.b.Name, opNames[op], what)
	var found []Effect
	for _, k := range kinds {
		found = append(found, ar.b.Loop.May(op, k)...)
	}
	ar.h.Check(len(found) == 0, key, effPos(ar.p, found), "absent", fmt.Sprintf("an operation of type %s performs %s in %s", opNames[op], what, fnName(ar.b.Fn)))
}

func (ar armRule) may(op int, what string, kind string) []Effect {
	key := fmt.Sprintf("%s/%s/some-%s", ar.b.Name, opNames[op], what)
	es := ar.b.Loop.May(op, kind)
	ar.h.Check(len(es) > 0, key, ar.p.Pos(ar.b.Fn.Pos()), "present", fmt.Sprintf("no path of the %s arm of %s performs %s", opNames[op], fnName(ar.b.Fn), what))
	return es
}

// sameRow: every presence effect and value store of the body addresses the same row expression.
func (ar armRule) sameRow() {
	key := ar.b.Name + "/same-row"
	var ref ssa.Value
	var bad *Effect
	n := 0
	for _, es := range ar.b.Loop.Effects {
		for i := range es {
			e := &es[i]
			switch e.Kind {
			case "presence-set", "presence-clear", "value-store":
			default:
				continue
			}
			if e.Inlined {
				continue // inside a helper: the row expression is the helper's parameter
			}
			n++
			if e.Offset == nil {
				bad = e
				continue
			}
			if ref == nil {
				ref = e.Offset
			} else if !sameExpr(ref, e.Offset) {
				bad = e
			}
		}
	}
	if bad != nil {
		ar.h.Bad(key, ar.p.InstrPos(bad.Ins), "presence bit and value are not addressed by one and the same row offset (word index, bit mask and value index must derive from the same expression)")
	} else {
		ar.h.OK(key, ar.p.Pos(ar.b.Fn.Pos()), fmt.Sprintf("%d storage effects address one row expression", n))
	}
}

// unwrapCopy strips sanitising copies (strings.Clone, string(bytes)) from a stored value.
func unwrapCopy(v ssa.Value) ssa.Value {
	v, _ = unwrapCopyE(v, nil)
	return v
}

// inlineVal follows a value through conversions, single-assignment locals, bound parameters and —
// when it is the single result of a helper with one return — into the helper, binding the helper's
// parameters to the arguments of the call.
func inlineVal(v ssa.Value, env *venv) (ssa.Value, *venv) {
	for i := 0; i < 6; i++ {
		v, env = normE(v, env, false)
		c, ok := v.(*ssa.Call)
		if !ok {
			return v, env
		}
		sc := c.Call.StaticCallee()
		if sc == nil || !isHelper(sc) {
			return v, env
		}
		o := originOf(sc)
		rets := returnsOf(o)
		if len(rets) != 1 || len(rets[0].Results) != 1 {
			return v, env
		}
		ne := &venv{bind: map[*ssa.Parameter]ssa.Value{}, outer: env}
		for j, par := range o.Params {
			if j < len(c.Call.Args) {
				ne.bind[par] = c.Call.Args[j]
			}
		}
		v, env = rets[0].Results[0], ne
	}
	return v, env
}

func unwrapCopyE(v ssa.Value, env *venv) (ssa.Value, *venv) {
	for i := 0; i < 8; i++ {
		v, env = inlineVal(v, env)
		c, ok := v.(*ssa.Call)
		if ok && calleeIs(&c.Call, "strings.Clone") {
			v = c.Call.Args[0]
			continue
		}
		return v, env
	}
	return v, env
}

// mergeFlow: in the Merge arm the value stored is swap(merge(old, delta)) with old loaded from
// the element that is stored and delta read from the reader (each step may sit in a helper).
func (ar armRule) mergeFlow() {
	key := ar.b.Name + "/Merge/rmw"
	stores := ar.b.Loop.May(opMerge, "value-store")
	var exclusive []Effect
	for _, e := range stores {
		if ar.b.Loop.Ops[e.Ins.Block()] == 1<<opMerge {
			exclusive = append(exclusive, e)
		}
	}
	if len(exclusive) != 1 {
		ar.h.Bad(key, ar.p.Pos(ar.b.Fn.Pos()), fmt.Sprintf("expected exactly one value store in the Merge arm, found %d", len(exclusive)))
		return
	}
	st := exclusive[0]
	pos := ar.p.InstrPos(st.Ins)
	sv, senv := unwrapCopyE(st.Val, nil)
	sw, ok := sv.(*ssa.Call)
	if !ok || sw.Call.StaticCallee() == nil || !strings.HasPrefix(sw.Call.StaticCallee().Name(), "Swap") || !isNamed(sw.Call.StaticCallee().Signature.Recv().Type(), CommitPath, "Reader") {
		ar.h.Bad(key, pos, "the value stored by the Merge arm is not the result of Reader.Swap* (the delta in the buffer is not replaced by the merged value)")
		return
	}
	mv, menv := inlineVal(sw.Call.Args[1], senv)
	mg, ok := mv.(*ssa.Call)
	if !ok || mg.Call.StaticCallee() != nil {
		ar.h.Bad(key, pos, "the value swapped into the buffer is not the result of the column's merge function")
		return
	}
	if fr, ok := loadedField(mg.Call.Value); !ok || fr.Field != "Merge" {
		ar.h.Bad(key, pos, "the value swapped into the buffer is not the result of the column's merge function")
		return
	}
	if len(mg.Call.Args) != 2 {
		ar.h.Bad(key, pos, "merge function not called with (old, delta)")
		return
	}
	// old value: load of the same element
	oldOK := false
	ov, oenv := inlineVal(mg.Call.Args[0], menv)
	if ld, ok := ov.(*ssa.UnOp); ok && ld.Op == token.MUL {
		if ia, ok := ld.X.(*ssa.IndexAddr); ok {
			if sx, si, isIA := effElem(st); isIA {
				oldOK = sameE(ia.X, oenv, sx, nil, 0) && sameE(ia.Index, oenv, si, nil, 0)
			}
			// load and store side by side in one helper: compared in the helper's own terms
			if inner, isSt := st.Inner.(*ssa.Store); !oldOK && isSt && inner.Parent() == ld.Parent() {
				if sia, isIA := inner.Addr.(*ssa.IndexAddr); isIA {
					oldOK = sameExpr(ia.X, sia.X) && sameExpr(ia.Index, sia.Index)
				}
			}
		}
	}
	// delta: a value read from the reader
	deltaOK := false
	dv, _ := inlineVal(mg.Call.Args[1], menv)
	if dc, ok := dv.(*ssa.Call); ok {
		if sc := dc.Call.StaticCallee(); sc != nil && sc.Signature.Recv() != nil && isNamed(sc.Signature.Recv().Type(), CommitPath, "Reader") && !strings.HasPrefix(sc.Name(), "Swap") {
			deltaOK = true
		}
	}
	switch {
	case !oldOK:
		ar.h.Bad(key, pos, "the old value handed to the merge function is not loaded from the element that is stored (read-modify-write of one element inside the latched Apply)")
	case !deltaOK:
		ar.h.Bad(key, pos, "the delta handed to the merge function is not read from the commit reader")
	default:
		ar.h.OK(key, pos, "data[i] = swap(merge(data[i], delta))")
	}
}

// ---------------------------------------------------------------------------------------------

// ruleStorageArms: C01.arms for the 14 storage kinds.
func ruleStorageArms(r *Report) {
	h := r.Rule("C01.arms", "A", "per storage column kind and operation type: Put sets the presence bit and stores the value; Merge does the same with swap(merge(old element, delta)); Delete clears the presence bit and sets nothing; Insert and Skip have no effect; presence bit and value address the same row", 60)
	n := 0
	for _, b := range applyBodies(r) {
		switch b.Kind {
		case "numeric", "string", "enum", "key", "bool":
		default:
			continue
		}
		n++
		if b.Loop == nil {
			h.Unknown(b.Name+"/loop", r.P.Pos(b.Fn.Pos()), "no single `for r.Next()` loop recognised in the Apply body")
			continue
		}
		ar := armRule{h, b, r.P}
		ar.must(opPut, "presence-set", "presence-set")
		ar.never(opPut, "presence-clear", "presence-clear")
		if b.Kind != "bool" {
			ar.must(opPut, "value-store", "value-store")
		}
		ar.must(opDelete, "presence-clear", "presence-clear")
		if b.Kind == "numeric" || b.Kind == "string" {
			// a kind that merges combines the delta with whatever the slot holds: the slot of a deleted
			// row is reset to the zero value, so that a merge into the next row at that offset starts
			// where it starts at an offset that was never used
			ar.never(opDelete, "presence-set", "presence-set")
			ok := ar.b.Loop.Must(opDelete, "value-store")
			for _, e := range ar.b.Loop.May(opDelete, "value-store") {
				z := false
				if k, isC := constInt(e.Val); isC && k == 0 {
					z = true
				}
				if c, isC := strip(e.Val).(*ssa.Const); isC && c.Value != nil && (c.Value.String() == "0" || c.Value.String() == `""`) {
					z = true
				}
				if cs, isS := constString(e.Val); isS && cs == "" {
					z = true
				}
				if !z {
					ok = false
				}
			}
			h.Check(ok, b.Name+"/Delete/must-value-clear", r.P.Pos(b.Fn.Pos()), "the slot of a deleted row is reset to the zero value", "deleting a row leaves its value in the slot of a column kind that merges: a Merge into the next row inserted at that offset combines its delta with the dead row's value (MergeInt64(1) over a deleted 5 reads 6)")
		} else {
			ar.never(opDelete, "presence-set or value-store", "presence-set", "value-store")
		}
		for _, op := range []int{opInsert, opSkip} {
			ar.never(op, "a storage effect", "presence-set", "presence-clear", "value-store", "table-insert", "table-delete")
		}
		if b.Kind == "numeric" || b.Kind == "string" {
			ar.must(opMerge, "presence-set", "presence-set")
			ar.must(opMerge, "value-store", "value-store")
			ar.must(opMerge, "swap", "swap")
			ar.mergeFlow()
		} else {
			ar.never(opMerge, "a storage effect", "presence-set", "presence-clear", "value-store", "table-insert", "table-delete")
		}
		ar.sameRow()
	}
	if n < 14 {
		h.Unknown("kinds", "-", fmt.Sprintf("only %d storage Apply bodies discovered (10 numeric, string, enum, key, bool expected)", n))
	}
}

// ruleIndexArms: C03.arms
func ruleIndexArms(r *Report) {
	h := r.Rule("C03.arms", "A", "bitmap index Apply: Put evaluates the predicate and sets the bit on its true edge, clears it on its false edge; Delete clears the bit; no other operation type writes the index", 8)
	for _, b := range applyBodies(r) {
		if b.Kind != "index" {
			continue
		}
		if b.Loop == nil {
			h.Unknown(b.Name+"/loop", r.P.Pos(b.Fn.Pos()), "no single `for r.Next()` loop recognised")
			continue
		}
		ar := armRule{h, b, r.P}
		ar.must(opPut, "predicate-call", "callback")
		ar.must(opPut, "presence-set-or-clear", "presence-set", "presence-clear")
		sets := ar.may(opPut, "presence-set", "presence-set")
		clears := ar.may(opPut, "presence-clear", "presence-clear")
		// guard: set on the true edge of the predicate result, clear on the false edge
		cbs := b.Loop.May(opPut, "callback")
		guard := false
		if len(cbs) > 0 && len(sets) > 0 && len(clears) > 0 {
			// decided semantically: with the operation fixed to Put (every test of Reader.Type and the
			// reader's own predicates evaluated accordingly) and the predicate's result forced to
			// true, no clearing block is reachable and every setting block is; forced to false, the
			// other way round
			cb, _ := cbs[0].Ins.(*ssa.Call)
			if cbs[0].Inlined && cbs[0].Inner != nil {
				// the predicate is called inside a helper (put(r)): its result is the inner call's
				if ic, isCall := cbs[0].Inner.(*ssa.Call); isCall {
					cb = ic
				}
			}
			if cb == nil {
				h.Unknown(b.Name+"/Put/guard", r.P.Pos(b.Fn.Pos()), "predicate call not recognised")
				continue
			}
			under := func(pred bool) map[*ssa.BasicBlock]bool {
				return reachableUnder(b.Fn, func(v ssa.Value) (bool, bool) {
					if v == ssa.Value(cb) {
						return pred, true
					}
					if k, eq, ok := typeTest(v); ok {
						return (k == opPut) == eq, true
					}
					return false, false
				})
			}
			rt, rf := under(true), under(false)
			// an effect inside a helper (assign(idx, matched)): additionally reachable inside the
			// helper, whose parameters read as the arguments of the call
			inHelper := func(e Effect, pred bool) bool {
				if !e.Inlined || e.H == nil || e.hBlock == nil {
					return true
				}
				reach := reachableUnder(e.H.fn, func(v ssa.Value) (bool, bool) {
					if v == ssa.Value(cb) {
						return pred, true // the predicate is called inside the helper itself (put(r))
					}
					if k, eq, ok := typeTest(v); ok {
						return (k == opPut) == eq, true
					}
					if par, isPar := v.(*ssa.Parameter); isPar && e.Bind != nil {
						if a := e.Bind(par); a != nil {
							a = norm(a)
							if a == ssa.Value(cb) {
								return pred, true
							}
							if c, isC := a.(*ssa.Const); isC && c.Value != nil && (c.Value.String() == "true" || c.Value.String() == "false") {
								return c.Value.String() == "true", true
							}
						}
					}
					return false, false
				})
				return reach[e.hBlock]
			}
			guard = true
			for _, e := range sets {
				if !(rt[e.Ins.Block()] && inHelper(e, true)) || (rf[e.Ins.Block()] && inHelper(e, false)) {
					guard = false
				}
			}
			for _, e := range clears {
				if !(rf[e.Ins.Block()] && inHelper(e, false)) || (rt[e.Ins.Block()] && inHelper(e, true)) {
					guard = false
				}
			}
		}
		h.Check(guard, b.Name+"/Put/guard", effPos(r.P, sets), "set ⇐ predicate true, clear ⇐ predicate false", "the bit is not set exactly on the true edge and cleared on the false edge of the predicate's result")
		ar.must(opDelete, "presence-clear", "presence-clear")
		ar.never(opDelete, "presence-set", "presence-set")
		ar.never(opDelete, "predicate-call", "callback")
		for _, op := range []int{opInsert, opMerge, opSkip} {
			ar.never(op, "an index write", "presence-set", "presence-clear")
		}
		ar.sameRow()
	}
}

// ruleTriggerArms: C19.arms
func ruleTriggerArms(r *Report) {
	h := r.Rule("C19.arms", "A", "trigger Apply invokes the callback on every path for Put and Delete operations, exactly one call site, with the reader positioned on the operation, and never for Insert, Merge or Skip", 6)
	for _, b := range applyBodies(r) {
		if b.Kind != "trigger" {
			continue
		}
		if b.Loop == nil {
			h.Unknown(b.Name+"/loop", r.P.Pos(b.Fn.Pos()), "no single `for r.Next()` loop recognised")
			continue
		}
		ar := armRule{h, b, r.P}
		ar.must(opPut, "callback", "callback")
		ar.must(opDelete, "callback", "callback")
		for _, op := range []int{opInsert, opMerge, opSkip} {
			ar.never(op, "a callback", "callback")
		}
		// once: no callback can be followed by another callback within one iteration
		once := true
		var cbs []Effect
		for _, es := range b.Loop.Effects {
			for _, e := range es {
				if e.Kind == "callback" {
					cbs = append(cbs, e)
				}
			}
		}
		for _, e1 := range cbs {
			for _, e2 := range cbs {
				if e1.Ins == e2.Ins {
					continue
				}
				b1, b2 := e1.Ins.Block(), e2.Ins.Block()
				if b1 == b2 || reachAvoiding(b1, b2, func(x *ssa.BasicBlock) bool { return x == b.Loop.Head }, nil) {
					once = false
				}
			}
		}
		h.Check(once, b.Name+"/once", effPos(r.P, cbs), "at most one callback per operation", "two callback invocations can execute for one operation")
		// the argument is the reader being iterated
		argOK := len(cbs) > 0
		for _, e := range cbs {
			c := e.Ins.(*ssa.Call)
			if len(c.Call.Args) != 1 {
				argOK = false
				continue
			}
			a := c.Call.Args[0]
			if mi, ok := a.(*ssa.MakeInterface); ok {
				a = mi.X
			}
			if !sameExpr(a, b.Loop.Reader) {
				argOK = false
			}
		}
		h.Check(argOK, b.Name+"/arg", effPos(r.P, cbs), "callback receives the reader positioned on the operation", "the callback does not receive the reader that is positioned on the operation")
	}
}

// ruleKeyArms: C12.arms
func ruleKeyArms(r *Report) {
	h := r.Rule("C12.arms", "A", "key column Apply: Put stores the key, sets presence, inserts (key → absolute offset) into the lookup table and removes the row's previous key from the table when it is overwritten; Delete clears presence and removes the stored key from the table", 5)
	for _, b := range applyBodies(r) {
		if b.Kind != "key" {
			continue
		}
		if b.Loop == nil {
			h.Unknown(b.Name+"/loop", r.P.Pos(b.Fn.Pos()), "no single `for r.Next()` loop recognised")
			continue
		}
		ar := armRule{h, b, r.P}
		ar.must(opPut, "table-insert", "table-insert")
		ar.must(opDelete, "table-delete", "table-delete")
		// the key inserted is the value stored, the key deleted is the value stored at the row
		ins := b.Loop.May(opPut, "table-insert")
		sts := b.Loop.May(opPut, "value-store")
		same := len(ins) > 0 && len(sts) > 0
		for _, i := range ins {
			for _, s := range sts {
				if !sameExpr(i.Val, s.Val) {
					same = false
				}
			}
		}
		h.Check(same, b.Name+"/Put/key=value", effPos(r.P, ins), "the table key is the value stored in the row", "the key inserted into the lookup table is not the value stored in the row")
		// the table is maintained in the same pass that stores the key and sets the presence bit: the
		// re-key test of an operation reads the row as the earlier operations of the batch left it
		// (a separate table pass over the whole batch sees the state before the batch, and a row
		// keyed twice in one transaction keeps its intermediate key in the table)
		samePass := len(sts) > 0 && b.Loop.Must(opPut, "value-store") && b.Loop.Must(opPut, "presence-set") && len(b.Loop.May(opDelete, "presence-clear")) > 0
		h.Check(samePass, b.Name+"/same-pass", r.P.Pos(b.Fn.Pos()), "table maintenance, presence bit and stored key change in one pass over the operations", "the lookup table is maintained in a different pass over the operations than the one that stores the keys and presence bits: the re-key test of a later operation on the same row reads the state from before the batch, and the intermediate key of a row keyed twice in one transaction stays in the table")
		// re-key: on Put, some path deletes the previous key of the row (loaded from the row's element)
		dels := b.Loop.May(opPut, "table-delete")
		rekey := false
		for _, d := range dels {
			if ld, ok := unwrapCopy(d.Val).(*ssa.UnOp); ok && ld.Op == token.MUL {
				if ia, ok := ld.X.(*ssa.IndexAddr); ok && len(sts) > 0 {
					if sx, si, isIA := effElem(sts[0]); isIA {
						dx, di := bound(d, ia.X), bound(d, ia.Index)
						if sameExpr(dx, sx) && sameExpr(di, si) {
							rekey = true
						}
					}
				}
			}
		}
		// … and not only when the previous key equals the new one (a removal on the equal edge of a
		// comparison of the two is the test inverted: the key that differs stays)
		for _, d := range dels {
			blk := d.Ins.Block()
			if d.Inner != nil {
				blk = d.Inner.Block()
			}
			isStored := func(v ssa.Value) bool {
				ld, ok := unwrapCopy(v).(*ssa.UnOp)
				if !ok || ld.Op != token.MUL {
					return false
				}
				_, isIA := ld.X.(*ssa.IndexAddr)
				return isIA
			}
			for _, want := range []bool{true, false} {
				want := want
				if edgeGuarded(blk, func(c ssa.Value) (bool, bool) {
					bo, isB := c.(*ssa.BinOp)
					if !isB || (bo.Op != token.EQL && bo.Op != token.NEQ) || !(isStored(bo.X) || isStored(bo.Y)) {
						return false, false
					}
					// on which edge are the two equal?
					return (bo.Op == token.EQL) == want, want
				}) {
					rekey = false
				}
			}
		}
		h.Check(rekey, b.Name+"/Put/rekey", ar.p.Pos(b.Fn.Pos()), "overwriting a key removes the row's previous key from the lookup table", "overwriting the key of a row leaves the previous key in the lookup table: the old key still resolves (to the re-keyed row) and cannot be inserted again")
		// … but only when the row really held a key: the value array of a deleted row is stale, so
		// the removal must be guarded by the presence bit of the same row, tested before this
		// arm sets it
		if rekey {
			sets := b.Loop.May(opPut, "presence-set")
			guardOK := true
			for _, d := range dels {
				// the removal may sit in a helper: the guard is then looked for around the inner
				// instruction, its row argument read through the helper's parameter binding, and
				// "before the bit is set" refers to the helper's call in the loop body
				blk := d.Ins.Block()
				if d.Inner != nil {
					blk = d.Inner.Block()
				}
				g := edgeGuarded(blk, func(c ssa.Value) (bool, bool) {
					call, isC := c.(*ssa.Call)
					if !isC || !methodOn(&call.Call, "github.com/kelindar/bitmap", "Bitmap", "Contains") {
						return false, false
					}
					row := call.Call.Args[1]
					at := ssa.Instruction(call)
					if d.Inner != nil {
						at = d.Ins
						if d.Bind != nil {
							if v := d.Bind(strip(row)); v != nil {
								row = v
							}
						}
					}
					if len(sets) == 0 || sets[0].Offset == nil || !sameExpr(row, sets[0].Offset) {
						return false, false
					}
					// evaluated before the bit is set
					for _, s := range sets {
						sb, cb := s.Ins.Block(), at.Block()
						if sb == cb && instrIndex(s.Ins) < instrIndex(at) {
							return false, false
						}
						if sb != cb && reachAvoiding(sb, cb, func(x *ssa.BasicBlock) bool { return x == b.Loop.Head }, nil) {
							return false, false
						}
					}
					return true, true
				})
				if !g {
					guardOK = false
				}
			}
			h.Check(guardOK, b.Name+"/Put/rekey-live-only", effPos(r.P, dels), "previous key removed only when the row was present", "the previous key is removed from the lookup table without testing (before this Put sets it) the presence bit of the row: the value array of a deleted row is stale, so reusing its offset removes a key that is live again at another row")
		}
		// delete removes the key loaded from the row being deleted
		ddel := b.Loop.May(opDelete, "table-delete")
		clr := b.Loop.May(opDelete, "presence-clear")
		delOK := len(ddel) > 0 && len(clr) > 0
		for _, d := range ddel {
			ok := false
			if ld, isLd := unwrapCopy(d.Val).(*ssa.UnOp); isLd && ld.Op == token.MUL {
				if ia, isIA := ld.X.(*ssa.IndexAddr); isIA && len(clr) > 0 && clr[0].Offset != nil && sameExpr(ia.Index, clr[0].Offset) {
					ok = true
				}
			}
			if !ok {
				delOK = false
			}
		}
		h.Check(delOK, b.Name+"/Delete/key=stored", effPos(r.P, ddel), "the key removed is the one stored at the deleted row", "the key removed from the lookup table on Delete is not the key stored at the deleted row")
	}
}

// ruleSortArms: C16.arms
func ruleSortArms(r *Report) {
	h := r.Rule("C16.arms", "A", "sorted index Apply: Put removes the row's previous (key, offset) entry when one exists, records the new key in the back map and inserts (key, offset) into the tree; Delete removes the row's entry; no other operation type touches the tree", 6)
	for _, b := range applyBodies(r) {
		if b.Kind != "sortindex" {
			continue
		}
		if b.Loop == nil {
			h.Unknown(b.Name+"/loop", r.P.Pos(b.Fn.Pos()), "no single `for r.Next()` loop recognised")
			continue
		}
		ar := armRule{h, b, r.P}
		ar.must(opPut, "tree-insert", "tree-insert")
		ar.must(opPut, "back-map-update", "table-insert")
		ar.may(opPut, "tree-delete-of-previous-entry", "tree-delete")
		ar.must(opDelete, "tree-delete", "tree-delete")
		ar.never(opDelete, "tree-insert", "tree-insert")
		for _, op := range []int{opInsert, opMerge, opSkip} {
			ar.never(op, "a tree or back-map write", "tree-insert", "tree-delete", "table-insert", "table-delete")
		}
		// the previous entry is removed before the new one is inserted (otherwise Set on an equal
		// item replaces and the following Delete removes the fresh entry)
		order := true
		for _, d := range b.Loop.May(opPut, "tree-delete") {
			for _, i := range b.Loop.May(opPut, "tree-insert") {
				db, ib := d.Ins.Block(), i.Ins.Block()
				if db == ib && instrIndex(d.Ins) > instrIndex(i.Ins) {
					order = false
				}
				if db != ib && reachAvoiding(ib, db, func(x *ssa.BasicBlock) bool { return x == b.Loop.Head }, nil) {
					order = false
				}
			}
		}
		h.Check(order, b.Name+"/Put/delete-before-insert", r.P.Pos(b.Fn.Pos()), "previous entry removed before the new one is inserted", "the previous entry is removed after the new entry was inserted")
		// items carry both identifying fields: Key from back map / reader, Value = reader index
		itemsOK := true
		for _, op := range []int{opPut, opDelete} {
			for _, kind := range []string{"tree-insert", "tree-delete"} {
				for _, e := range b.Loop.May(op, kind) {
					if !sortItemComplete(e.Val) {
						itemsOK = false
					}
				}
			}
		}
		h.Check(itemsOK, b.Name+"/items", r.P.Pos(b.Fn.Pos()), "every tree item names key and offset", "a tree item is built without its key or without its offset")
	}
}

// sortItemComplete: the sortIndexItem value handed to the tree has both fields assigned.
func sortItemComplete(v ssa.Value) bool {
	ld, ok := v.(*ssa.UnOp)
	if !ok || ld.Op != token.MUL {
		return false
	}
	al, ok := ld.X.(*ssa.Alloc)
	if !ok {
		return false
	}
	fields := map[string]bool{}
	for _, ref := range *al.Referrers() {
		if fa, ok := ref.(*ssa.FieldAddr); ok {
			fr, _ := fieldOf(fa)
			for _, r2 := range *fa.Referrers() {
				if st, ok := r2.(*ssa.Store); ok && st.Addr == fa {
					fields[fr.Field] = true
				}
			}
		}
	}
	return fields["Key"] && fields["Value"]
}

// ruleMarkerArms: C11.rowdelete (fill list part)
func ruleMarkerArms(r *Report) {
	h := r.Rule("C11.markers", "A", "commitMarkers: an Insert marker sets the row's bit in the collection's fill list, a Delete marker clears it, nothing else changes the fill list there; the counter is recomputed from the fill list afterwards", 6)
	fn := r.Anchor("(*column.Txn).commitMarkers")
	if fn == nil {
		return
	}
	var loop *ArmLoop
	var lf *ssa.Function
	look := func(f *ssa.Function) {
		for _, l := range FindArmLoops(r.P, f) {
			// the loop that sets/clears bits of a bitmap under Insert/Delete markers
			if len(l.May(opInsert, "presence-set")) > 0 || len(l.May(opDelete, "presence-clear")) > 0 || loop == nil {
				for _, es := range l.Effects {
					for _, e := range es {
						if e.Kind == "presence-set" || e.Kind == "presence-clear" {
							loop, lf = l, f
						}
					}
				}
			}
		}
	}
	withClosures(fn, look)
	if loop == nil {
		// the marker loop moved into an unexported helper that is handed the reader
		for _, f := range deepFuncs(fn) {
			if loop == nil && f != fn && f.Parent() == nil {
				look(f)
			}
		}
	}
	if loop == nil {
		h.Bad("commitMarkers/loop", r.P.Pos(fn.Pos()), "commitMarkers has no loop that sets the fill bit for Insert markers and clears it for Delete markers")
		return
	}
	// the bits are written in the collection's fill list itself, addressed through the field under
	// the mutex — not through a slice of it obtained earlier (the list is re-allocated when a
	// concurrent insert grows it, and the slice then points into the abandoned array)
	direct := true
	var viaSlice ssa.Instruction
	for _, es := range loop.Effects {
		for _, e := range es {
			if e.Kind != "presence-set" && e.Kind != "presence-clear" {
				continue
			}
			if fr, ok := fieldOf(e.Target); !ok || fr.Struct != "column.Collection" || fr.Field != "fill" {
				direct, viaSlice = false, e.Ins
			}
		}
	}
	h.Check(direct, "commitMarkers/target", r.P.InstrPos(viaSlice), "markers write Collection.fill itself", "the markers are applied to a bitmap value other than the collection's fill-list field (a slice taken before the mutex was re-acquired): when a concurrent insert grows the fill list the slice points into the abandoned array and the committed insert/delete is lost")
	for _, par := range fn.Params {
		if isBitmap(par.Type()) {
			h.Check(len(*par.Referrers()) == 0, "commitMarkers/param-"+par.Name(), r.P.Pos(fn.Pos()), "fill slice handed in by rangeWrite is not used", "commitMarkers uses the fill slice that rangeWrite computed before releasing the collection mutex")
		}
	}
	b := &applyBody{Kind: "markers", Name: "commitMarkers", Fn: lf, Loop: loop}
	ar := armRule{h, b, r.P}
	ar.must(opInsert, "fill-set", "presence-set")
	ar.never(opInsert, "fill-clear", "presence-clear")
	ar.must(opDelete, "fill-clear", "presence-clear")
	ar.never(opDelete, "fill-set", "presence-set")
	for _, op := range []int{opPut, opMerge, opSkip} {
		ar.never(op, "a fill-list write", "presence-set", "presence-clear")
	}
	// offsets are the reader's absolute index
	ok := true
	for _, es := range loop.Effects {
		for _, e := range es {
			if e.Kind != "presence-set" && e.Kind != "presence-clear" {
				continue
			}
			c, isCall := e.Offset.(*ssa.Call)
			if !isCall || !calleeIs(&c.Call, "(*commit.Reader).Index") {
				if fr, isF := loadedField(e.Offset); !isF || fr.Field != "Offset" {
					ok = false
				}
			}
		}
	}
	h.Check(ok, "commitMarkers/offset", r.P.Pos(lf.Pos()), "fill list addressed by the reader's absolute offset", "the fill list is not addressed by the marker's absolute offset")
	// recount after the loop: atomic store of fill.Count() in commitMarkers
	recount := false
	deepVisit(fn, func(ins, _ ssa.Instruction) {
		if c, ok := ins.(*ssa.Call); ok && calleeIs(&c.Call, "sync/atomic.StoreUint64") {
			if fr, ok := fieldOf(c.Call.Args[0]); ok && fr.Field == "count" {
				if dependsOn(c.Call.Args[1], func(v ssa.Value) bool {
					cc, ok := v.(*ssa.Call)
					return ok && methodOn(&cc.Call, "github.com/kelindar/bitmap", "Bitmap", "Count")
				}, 6) {
					recount = true
				}
			}
		}
	})
	h.Check(recount, "commitMarkers/recount", r.P.Pos(fn.Pos()), "count := popcount(fill) after the markers", "the row counter is not recomputed from the fill list after markers were applied")
}

// delegateLoop: b.Loop is a dispatch loop — its body has no effect of its own and, under some
// operation types, calls a helper with the same reader and returns; the helper holds exactly one
// arm loop that starts with the current operation (`for ok := true; ok; ok = r.Next()`). The
// helper's loop becomes the body's loop.
func delegateLoop(p *Prog, b *applyBody) {
	outer := b.Loop

	for _, es := range outer.Effects {
		for _, e := range es {
			switch e.Kind {
			case "lock", "unlock":
			default:
				if !e.Inlined {
					return // the loop does something itself
				}
			}
		}
	}
	var site *ssa.Call
	var inner *ArmLoop
	// blocks reachable from the body entry under each operation type (the block that calls the
	// helper and returns is not part of the cycle)
	opsAt := map[*ssa.BasicBlock]opset{}
	for op := 0; op <= opOther; op++ {
		seen := map[*ssa.BasicBlock]bool{}
		var dfs func(x *ssa.BasicBlock)
		dfs = func(x *ssa.BasicBlock) {
			if seen[x] || x == outer.Head {
				return
			}
			seen[x] = true
			opsAt[x] |= 1 << uint(op)
			for _, s2 := range x.Succs {
				if outer.feas[op][cfgEdge{x, s2}] {
					dfs(s2)
				}
			}
		}
		if outer.entryOps.has(op) {
			dfs(outer.BodyEntry)
		}
	}
	for _, blk := range outer.Fn.Blocks {
		if opsAt[blk] == 0 {
			continue
		}
		for _, ins := range blk.Instrs {
			c, ok := ins.(*ssa.Call)
			if !ok {
				continue
			}
			sc := c.Call.StaticCallee()
			if sc == nil || !isHelper(sc) {
				continue
			}
			passes := false
			for _, a := range c.Call.Args {
				if sameExpr(a, outer.Reader) {
					passes = true
				}
			}
			if !passes {
				continue
			}
			ls := FindArmLoops(p, originOf(sc))
			if len(ls) != 1 {
				continue
			}
			if _, isPhi := ls[0].Head.Instrs[len(ls[0].Head.Instrs)-1].(*ssa.If).Cond.(*ssa.Phi); !isPhi {
				continue // the helper's loop would skip the operation the reader stands on
			}
			if site != nil {
				return
			}
			site, inner = c, ls[0]
		}
	}
	if site == nil {
		return
	}
	// after the helper the function returns (the helper consumed the rest of the section)
	blk := site.Block()
	if _, isRet := blk.Instrs[len(blk.Instrs)-1].(*ssa.Return); !isRet {
		return
	}
	b.Outer, b.OuterOps, b.Loop = outer, opsAt[blk], inner
}

// bound: a value of the helper an inlined effect sits in, seen from the loop body (the helper's
// parameter replaced by the argument of the call).
func bound(e Effect, v ssa.Value) ssa.Value {
	if e.Bind != nil {
		if a := e.Bind(strip(v)); a != nil {
			return a
		}
	}
	return v
}

// effElem: the slice and index of the element a value-store effect writes, in the loop body's terms.
func effElem(e Effect) (x, idx ssa.Value, ok bool) {
	ins := e.Ins
	if e.Inner != nil {
		ins = e.Inner
	}
	st, isSt := ins.(*ssa.Store)
	if !isSt {
		return nil, nil, false
	}
	ia, isIA := st.Addr.(*ssa.IndexAddr)
	if !isIA {
		return nil, nil, false
	}
	return bound(e, ia.X), bound(e, ia.Index), true
}
