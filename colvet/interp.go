package colvet

import (
	"fmt"
	"go/token"
	"go/types"
	"sort"
	"strings"

	"golang.org/x/tools/go/ssa"
)

// Analysis W: a path-sensitive constant/term propagation for the few short functions that define
// the wire format (header byte, payload bounds, varint offset, block headers). Every path of a
// function — loops unrolled up to a small bound, library callees inlined on request — is walked
// forward once; SSA registers and the fields of the objects involved hold *terms*: constants,
// named inputs (parameters, the initial value of a field) and operator trees over them, folded as
// they are built. Branch conditions that fold to a constant select one edge; others fork the
// walk, and a decision once taken for a condition is reused when the same condition (or its
// negation) is tested again. The result of a walk is a list of paths, each with the conditions
// assumed, the observable events (appends, stores, calls that were not inlined) and the final
// value of every field written. Rules read the writer's and the reader's tables off these paths
// and compare them; nothing is executed and no solver is involved.

type expr struct {
	op   string // const sym add sub mul quo rem and or xor andnot shl shr conv not eq ne lt le gt ge idx len field ptr elem opaque
	k    int64  // const value; conv: width in bits (negative = signed)
	name string
	args []*expr
	key  string
}

func (e *expr) String() string { return e.key }

func mkConst(k int64) *expr { return &expr{op: "const", k: k, key: fmt.Sprintf("%d", k)} }
func mkSym(n string) *expr  { return &expr{op: "sym", name: n, key: n} }

func mkRaw(op string, k int64, name string, args ...*expr) *expr {
	var sb strings.Builder
	sb.WriteString(op)
	if k != 0 || op == "conv" {
		fmt.Fprintf(&sb, "%d", k)
	}
	if name != "" {
		sb.WriteString(":" + name)
	}
	sb.WriteString("(")
	for i, a := range args {
		if i > 0 {
			sb.WriteString(",")
		}
		sb.WriteString(a.key)
	}
	sb.WriteString(")")
	return &expr{op: op, k: k, name: name, args: args, key: sb.String()}
}

func (e *expr) isConst() (int64, bool) {
	if e != nil && e.op == "const" {
		return e.k, true
	}
	return 0, false
}

func truncTo(v int64, width int64) int64 {
	signed := width < 0
	if signed {
		width = -width
	}
	if width >= 64 {
		return v
	}
	m := int64(1)<<uint(width) - 1
	v &= m
	if signed && v&(int64(1)<<uint(width-1)) != 0 {
		v |= ^m
	}
	return v
}

var commutative = map[string]bool{"add": true, "mul": true, "and": true, "or": true, "xor": true, "eq": true, "ne": true}

func mkOp(op string, args ...*expr) *expr {
	// constant folding
	if len(args) == 2 {
		a, okA := args[0].isConst()
		b, okB := args[1].isConst()
		if okA && okB {
			boolc := func(x bool) *expr {
				if x {
					return mkConst(1)
				}
				return mkConst(0)
			}
			switch op {
			case "add":
				return mkConst(a + b)
			case "sub":
				return mkConst(a - b)
			case "mul":
				return mkConst(a * b)
			case "quo":
				if b != 0 {
					return mkConst(a / b)
				}
			case "rem":
				if b != 0 {
					return mkConst(a % b)
				}
			case "and":
				return mkConst(a & b)
			case "or":
				return mkConst(a | b)
			case "xor":
				return mkConst(a ^ b)
			case "andnot":
				return mkConst(a &^ b)
			case "shl":
				if b >= 0 && b < 63 {
					return mkConst(a << uint(b))
				}
			case "shr":
				if b >= 0 && b < 63 {
					return mkConst(a >> uint(b))
				}
			case "eq":
				return boolc(a == b)
			case "ne":
				return boolc(a != b)
			case "lt":
				return boolc(a < b)
			case "le":
				return boolc(a <= b)
			case "gt":
				return boolc(a > b)
			case "ge":
				return boolc(a >= b)
			}
		}
		// constant to the right for commutative operators
		if commutative[op] && okA && !okB {
			args = []*expr{args[1], args[0]}
			a, okA, b, okB = b, okB, a, okA
		}
		_ = a
		x := args[0]
		if okB {
			switch op {
			case "add", "sub":
				if op == "sub" {
					b = -b
				}
				if b == 0 {
					return x
				}
				// (y + c1) + c2
				if x.op == "add" {
					if c1, ok := x.args[1].isConst(); ok {
						return mkOp("add", x.args[0], mkConst(c1+b))
					}
				}
				return mkRaw("add", 0, "", x, mkConst(b))
			case "or", "xor", "shl", "shr":
				if b == 0 {
					return x
				}
				if (op == "shl" || op == "shr") && x.op == op {
					if c1, ok := x.args[1].isConst(); ok {
						return mkOp(op, x.args[0], mkConst(c1+b))
					}
				}
				if op == "or" && x.op == "or" {
					if c1, ok := x.args[1].isConst(); ok {
						return mkOp("or", x.args[0], mkConst(c1|b))
					}
				}
			case "and":
				if x.op == "and" {
					if c1, ok := x.args[1].isConst(); ok {
						return mkOp("and", x.args[0], mkConst(c1&b))
					}
				}
			case "mul":
				if b == 1 {
					return x
				}
				if b == 0 {
					return mkConst(0)
				}
			}
		}
		if commutative[op] && !okB && args[0].key > args[1].key {
			args = []*expr{args[1], args[0]}
		}
	}
	if op == "not" && len(args) == 1 {
		if c, ok := args[0].isConst(); ok {
			if c == 0 {
				return mkConst(1)
			}
			return mkConst(0)
		}
		if args[0].op == "not" {
			return args[0].args[0]
		}
		// push the negation into comparisons
		neg := map[string]string{"eq": "ne", "ne": "eq", "lt": "ge", "ge": "lt", "gt": "le", "le": "gt"}
		if n, ok := neg[args[0].op]; ok {
			return mkOp(n, args[0].args...)
		}
	}
	// mirrored comparisons: keep lt / le only
	switch op {
	case "gt":
		return mkOp("lt", args[1], args[0])
	case "ge":
		return mkOp("le", args[1], args[0])
	}
	return mkRaw(op, 0, "", args...)
}

func mkConv(width int64, x *expr) *expr {
	if c, ok := x.isConst(); ok {
		return mkConst(truncTo(c, width))
	}
	if x.op == "conv" {
		w0, w1 := x.k, width
		if w0 < 0 {
			w0 = -w0
		}
		if w1 < 0 {
			w1 = -w1
		}
		if w1 <= w0 {
			return mkConv(width, x.args[0]) // narrowing again: the inner conversion is irrelevant
		}
	}
	return mkRaw("conv", width, "", x)
}

// ---------------------------------------------------------------------------------------------

type ievent struct {
	Kind string // append, spread, store, call, defer
	Ins  ssa.Instruction
	Name string           // callee / field key
	Args []*expr          // append: target, elems…; store: value; call: arguments
	Heap map[string]*expr // dynamic calls: the fields as they are when the callback runs
}

type icond struct {
	E   *expr
	Val bool
	Ins ssa.Instruction
}

type ipath struct {
	Events []ievent
	Conds  []icond
	Heap   map[string]*expr
	Ret    []*expr
}

// Field returns the final term of field f of the object named obj (nil if never touched).
func (p *ipath) Field(obj, f string) *expr { return p.Heap["&"+obj+"."+f] }

type istate struct {
	env    map[int]map[ssa.Value]*expr
	visits map[int]map[*ssa.BasicBlock]int
	heap   map[string]*expr
	known  map[string]bool
	events []ievent
	conds  []icond
}

func (s *istate) clone() *istate {
	n := &istate{env: map[int]map[ssa.Value]*expr{}, visits: map[int]map[*ssa.BasicBlock]int{}, heap: map[string]*expr{}, known: map[string]bool{}}
	for id, m := range s.env {
		c := make(map[ssa.Value]*expr, len(m))
		for k, v := range m {
			c[k] = v
		}
		n.env[id] = c
	}
	for id, m := range s.visits {
		c := make(map[*ssa.BasicBlock]int, len(m))
		for k, v := range m {
			c[k] = v
		}
		n.visits[id] = c
	}
	for k, v := range s.heap {
		n.heap[k] = v
	}
	for k, v := range s.known {
		n.known[k] = v
	}
	n.events = append([]ievent{}, s.events...)
	n.conds = append([]icond{}, s.conds...)
	return n
}

type iframe struct {
	id int
	fn *ssa.Function
}

type Interp struct {
	bounds    map[string]int64 // largest value of an unsigned input symbol
	Inline    func(fn *ssa.Function) bool
	MaxVisits int
	Paths     []*ipath
	Truncated int // paths given up because a loop exceeded the unrolling bound
	budget    int
	nframe    int
	nopaque   int
	why       string
}

// Run walks fn with its parameters bound to symbols named after them.
func (in *Interp) Run(fn *ssa.Function) {
	if in.MaxVisits == 0 {
		in.MaxVisits = 8
	}
	in.budget = 400000
	st := &istate{env: map[int]map[ssa.Value]*expr{}, visits: map[int]map[*ssa.BasicBlock]int{}, heap: map[string]*expr{}, known: map[string]bool{}}
	fr := &iframe{id: 0, fn: fn}
	in.nframe = 1
	st.env[0] = map[ssa.Value]*expr{}
	st.visits[0] = map[*ssa.BasicBlock]int{}
	in.bounds = map[string]int64{}
	for _, p := range fn.Params {
		st.env[0][p] = mkSym(p.Name())
		if w, ok := intWidth(p.Type()); ok && w > 0 && w < 63 {
			in.bounds[p.Name()] = int64(1)<<uint(w) - 1
		}
	}
	for i, fv := range fn.FreeVars {
		st.env[0][fv] = mkSym(fmt.Sprintf("&free%d.%s", i, fv.Name()))
	}
	in.block(fr, fn.Blocks[0], nil, st, func(s *istate, rets []*expr) {
		in.Paths = append(in.Paths, &ipath{Events: s.events, Conds: s.conds, Heap: s.heap, Ret: rets})
	})
}

func (in *Interp) opaque(tag string) *expr {
	in.nopaque++
	return mkSym(fmt.Sprintf("?%s#%d", tag, in.nopaque))
}

func (in *Interp) val(fr *iframe, st *istate, v ssa.Value) *expr {
	if v == nil {
		return mkConst(0)
	}
	if e, ok := st.env[fr.id][v]; ok {
		return e
	}
	switch x := v.(type) {
	case *ssa.Const:
		if c, ok := constInt(x); ok {
			return mkConst(c)
		}
		if x.Value == nil {
			return mkSym("nil")
		}
		if x.Value.String() == "true" {
			return mkConst(1)
		}
		if x.Value.String() == "false" {
			return mkConst(0)
		}
		return mkSym("const:" + x.Value.ExactString())
	case *ssa.Global:
		return mkSym("&global." + x.Name())
	case *ssa.Function:
		return mkSym("func:" + fnName(x))
	case *ssa.Builtin:
		return mkSym("builtin:" + x.Name())
	}
	// defined later in a loop or not modelled: a fresh unknown, remembered
	e := in.opaque(v.Name())
	st.env[fr.id][v] = e
	return e
}

func intWidth(t types.Type) (int64, bool) {
	b, ok := t.Underlying().(*types.Basic)
	if !ok || b.Info()&types.IsInteger == 0 {
		return 0, false
	}
	w := int64(64)
	switch b.Kind() {
	case types.Int8, types.Uint8:
		w = 8
	case types.Int16, types.Uint16:
		w = 16
	case types.Int32, types.Uint32:
		w = 32
	}
	if b.Info()&types.IsUnsigned == 0 {
		w = -w
	}
	return w, true
}

var binNames = map[token.Token]string{token.ADD: "add", token.SUB: "sub", token.MUL: "mul", token.QUO: "quo", token.REM: "rem",
	token.AND: "and", token.OR: "or", token.XOR: "xor", token.AND_NOT: "andnot", token.SHL: "shl", token.SHR: "shr",
	token.EQL: "eq", token.NEQ: "ne", token.LSS: "lt", token.LEQ: "le", token.GTR: "gt", token.GEQ: "ge"}

// load reads the cell a pointer term designates.
func (in *Interp) load(st *istate, ptr *expr) *expr {
	if v, ok := st.heap[ptr.key]; ok {
		return v
	}
	switch ptr.op {
	case "elem":
		// element of a slice value that was not written on this path
		return mkRaw("idx", 0, "", ptr.args[0], ptr.args[1])
	case "fieldptr":
		return mkRaw("field", 0, ptr.name, in.load(st, ptr.args[0]))
	}
	// a struct whose fields were stored one by one
	if ptr.op == "sym" {
		var names []string
		for k := range st.heap {
			if strings.HasPrefix(k, ptr.key+".") && !strings.Contains(k[len(ptr.key)+1:], ".") && !strings.Contains(k[len(ptr.key)+1:], "[") {
				names = append(names, k[len(ptr.key)+1:])
			}
		}
		if len(names) > 0 {
			sort.Strings(names)
			args := make([]*expr, len(names))
			for i, n := range names {
				args[i] = st.heap[ptr.key+"."+n]
			}
			return mkRaw("struct", 0, strings.Join(names, ","), args...)
		}
	}
	// a field of a struct variable that was assigned as a whole
	if ptr.op == "sym" {
		if i := strings.LastIndex(ptr.key, "."); i > 0 && !strings.HasSuffix(ptr.key, "]") {
			if whole, ok := st.heap[ptr.key[:i]]; ok && whole.op != "struct" {
				return mkRaw("field", 0, ptr.key[i+1:], whole)
			}
		}
	}
	v := mkSym(strings.TrimPrefix(ptr.key, "&") + "@0")
	st.heap[ptr.key] = v
	return v
}

func (in *Interp) block(fr *iframe, b *ssa.BasicBlock, pred *ssa.BasicBlock, st *istate, k func(*istate, []*expr)) {
	in.budget--
	if in.budget < 0 {
		in.why = "path budget exhausted"
		in.Truncated++
		return
	}
	st.visits[fr.id][b]++
	if st.visits[fr.id][b] > in.MaxVisits {
		in.Truncated++
		return
	}
	// φ-nodes read the values of the edge taken, all at once
	var phis []*ssa.Phi
	var vals []*expr
	for _, ins := range b.Instrs {
		phi, ok := ins.(*ssa.Phi)
		if !ok {
			break
		}
		for i, p := range b.Preds {
			if p == pred {
				phis = append(phis, phi)
				vals = append(vals, in.val(fr, st, phi.Edges[i]))
				break
			}
		}
	}
	for i, phi := range phis {
		st.env[fr.id][phi] = vals[i]
	}
	in.instrs(fr, b, len(phis), st, k)
}

func (in *Interp) instrs(fr *iframe, b *ssa.BasicBlock, i int, st *istate, k func(*istate, []*expr)) {
	env := st.env[fr.id]
	for ; i < len(b.Instrs); i++ {
		ins := b.Instrs[i]
		switch x := ins.(type) {
		case *ssa.DebugRef, *ssa.RunDefers:
		case *ssa.Phi:
			// a φ whose predecessor was not found (entry): unknown
			env[x] = in.opaque("phi")
		case *ssa.Alloc:
			env[x] = mkSym(fmt.Sprintf("&f%d.%s", fr.id, x.Name()))
		case *ssa.FieldAddr:
			st0 := x.X.Type().Underlying().(*types.Pointer).Elem().Underlying().(*types.Struct)
			base := in.val(fr, st, x.X)
			if base.op == "elem" || base.op == "fieldptr" {
				// field of an element of a slice value: read structurally
				env[x] = mkRaw("fieldptr", 0, st0.Field(x.Field).Name(), base)
				break
			}
			name := strings.TrimPrefix(base.key, "&")
			if base.op != "sym" {
				name = "(" + base.key + ")"
			}
			env[x] = mkSym("&" + name + "." + st0.Field(x.Field).Name())
		case *ssa.Field:
			st0 := x.X.Type().Underlying().(*types.Struct)
			sv := in.val(fr, st, x.X)
			fname := st0.Field(x.Field).Name()
			if sv.op == "struct" {
				found := false
				for j, n := range strings.Split(sv.name, ",") {
					if n == fname {
						env[x], found = sv.args[j], true
					}
				}
				if found {
					break
				}
			}
			env[x] = mkRaw("field", 0, fname, sv)
		case *ssa.IndexAddr:
			base := in.val(fr, st, x.X)
			idx := in.val(fr, st, x.Index)
			if base.op == "sym" && strings.HasPrefix(base.key, "&") {
				// pointer to a local array
				env[x] = mkSym(fmt.Sprintf("%s[%s]", base.key, idx.key))
			} else {
				env[x] = mkRaw("elem", 0, "", base, idx)
			}
		case *ssa.Index:
			env[x] = mkRaw("idx", 0, "", in.val(fr, st, x.X), in.val(fr, st, x.Index))
		case *ssa.UnOp:
			switch x.Op {
			case token.MUL:
				env[x] = in.load(st, in.val(fr, st, x.X))
			case token.NOT:
				env[x] = mkOp("not", in.val(fr, st, x.X))
			case token.SUB:
				env[x] = mkOp("sub", mkConst(0), in.val(fr, st, x.X))
			case token.XOR:
				env[x] = mkOp("xor", in.val(fr, st, x.X), mkConst(-1))
			default:
				env[x] = in.opaque("unop")
			}
		case *ssa.BinOp:
			a, c := in.val(fr, st, x.X), in.val(fr, st, x.Y)
			opn := binNames[x.Op]
			// one spelling for powers of two: x/2^k ≡ x>>k and x%2^k ≡ x&(2^k-1) on unsigned
			// operands, x*2^k ≡ x<<k
			if cv, isC := c.isConst(); isC && cv > 0 && cv&(cv-1) == 0 {
				k := int64(0)
				for int64(1)<<uint(k) < cv {
					k++
				}
				uns := false
				if w, ok := intWidth(x.X.Type()); ok && w > 0 {
					uns = true
				}
				switch {
				case opn == "quo" && uns:
					opn, c = "shr", mkConst(k)
				case opn == "rem" && uns:
					opn, c = "and", mkConst(cv-1)
				case opn == "mul":
					opn, c = "shl", mkConst(k)
				}
			}
			e := mkOp(opn, a, c)
			// arithmetic wraps at the operand width
			if w, ok := intWidth(x.Type()); ok {
				if cv, isC := e.isConst(); isC {
					e = mkConst(truncTo(cv, w))
				}
			}
			env[x] = e
		case *ssa.Convert:
			v := in.val(fr, st, x.X)
			if w, ok := intWidth(x.Type()); ok {
				if w0, ok0 := intWidth(x.X.Type()); ok0 {
					a0, a1 := w0, w
					if a0 < 0 {
						a0 = -a0
					}
					if a1 < 0 {
						a1 = -a1
					}
					if a1 > a0 && w0 > 0 {
						env[x] = v // widening an unsigned value changes nothing
						break
					}
					if a1 == a0 && v.op == "conv" {
						env[x] = mkConv(w, v.args[0])
						break
					}
				}
				env[x] = mkConv(w, v)
			} else {
				env[x] = mkRaw("cast", 0, x.Type().String(), v)
			}
		case *ssa.ChangeType:
			env[x] = in.val(fr, st, x.X)
		case *ssa.MakeInterface:
			env[x] = in.val(fr, st, x.X)
		case *ssa.Slice:
			lo, hi := mkSym("_"), mkSym("_")
			if x.Low != nil {
				lo = in.val(fr, st, x.Low)
			}
			if x.High != nil {
				hi = in.val(fr, st, x.High)
			}
			env[x] = mkRaw("slice", 0, "", in.val(fr, st, x.X), lo, hi)
		case *ssa.Extract:
			t := in.val(fr, st, x.Tuple)
			if t.op == "tuple" && x.Index < len(t.args) {
				env[x] = t.args[x.Index]
			} else {
				env[x] = mkRaw("extract", int64(x.Index), "", t)
			}
		case *ssa.Store:
			ptr := in.val(fr, st, x.Addr)
			v := in.val(fr, st, x.Val)
			for hk := range st.heap {
				if strings.HasPrefix(hk, ptr.key+".") {
					delete(st.heap, hk) // fields of a struct that is overwritten as a whole
				}
			}
			st.heap[ptr.key] = v
			if v.op == "struct" {
				for j, n := range strings.Split(v.name, ",") {
					st.heap[ptr.key+"."+n] = v.args[j]
				}
			}
			if !strings.HasPrefix(ptr.key, fmt.Sprintf("&f%d.", fr.id)) {
				st.events = append(st.events, ievent{Kind: "store", Ins: ins, Name: ptr.key, Args: []*expr{v, ptr}})
			}
		case *ssa.Defer:
			st.events = append(st.events, ievent{Kind: "defer", Ins: ins, Name: calleeShort(&x.Call)})
		case *ssa.Call:
			if in.call(fr, b, i, x, st, k) {
				return // continued inside the callee
			}
		case *ssa.If:
			c := in.val(fr, st, x.Cond)
			if cv, ok := c.isConst(); ok {
				if cv != 0 {
					in.block(fr, b.Succs[0], b, st, k)
				} else {
					in.block(fr, b.Succs[1], b, st, k)
				}
				return
			}
			// decided by the value range of an unsigned input (a uint32 shifted right by 28 is below 16)
			if c.op == "lt" || c.op == "le" {
				if lo, ok := c.args[0].isConst(); ok {
					if hi, okB := in.upperBound(c.args[1]); okB && (hi < lo || (c.op == "lt" && hi == lo)) {
						in.block(fr, b.Succs[1], b, st, k)
						return
					}
				}
				if hi, ok := c.args[1].isConst(); ok {
					if ub, okB := in.upperBound(c.args[0]); okB && (ub < hi || (c.op == "le" && ub == hi)) {
						in.block(fr, b.Succs[0], b, st, k)
						return
					}
				}
			}
			key, neg := c.key, false
			if c.op == "ne" || c.op == "le" { // canonical polarity: eq / lt
				n := mkOp("not", c)
				key, neg = n.key, true
			} else if c.op == "not" {
				key, neg = c.args[0].key, true
			}
			if v, ok := st.known[key]; ok {
				if v != neg {
					in.block(fr, b.Succs[0], b, st, k)
				} else {
					in.block(fr, b.Succs[1], b, st, k)
				}
				return
			}
			other := st.clone()
			st.known[key] = !neg // condition true
			st.conds = append(st.conds, icond{c, true, ins})
			in.block(fr, b.Succs[0], b, st, k)
			other.known[key] = neg // condition false
			other.conds = append(other.conds, icond{c, false, ins})
			in.block(fr, b.Succs[1], b, other, k)
			return
		case *ssa.Jump:
			in.block(fr, b.Succs[0], b, st, k)
			return
		case *ssa.Return:
			rets := make([]*expr, len(x.Results))
			for j, r := range x.Results {
				rets[j] = in.val(fr, st, r)
			}
			k(st, rets)
			return
		case *ssa.Panic:
			return
		default:
			if v, ok := ins.(ssa.Value); ok {
				env[v] = in.opaque(v.Name())
			}
		}
	}
}

// upperBound: the largest value a non-negative term can take, when the inputs' types tell.
func (in *Interp) upperBound(e *expr) (int64, bool) {
	switch e.op {
	case "const":
		return e.k, e.k >= 0
	case "sym":
		b, ok := in.bounds[e.key]
		return b, ok
	case "conv":
		if e.k > 0 && e.k < 63 {
			m := int64(1)<<uint(e.k) - 1
			if b, ok := in.upperBound(e.args[0]); ok && b < m {
				return b, true
			}
			return m, true
		}
	case "shr":
		if c, ok := e.args[1].isConst(); ok && c >= 0 && c < 63 {
			if b, okB := in.upperBound(e.args[0]); okB {
				return b >> uint(c), true
			}
		}
	case "and":
		if c, ok := e.args[1].isConst(); ok && c >= 0 {
			return c, true
		}
	}
	return 0, false
}

// call handles one call; returns true when execution continued inside an inlined callee.
func (in *Interp) call(fr *iframe, b *ssa.BasicBlock, i int, x *ssa.Call, st *istate, k func(*istate, []*expr)) bool {
	env := st.env[fr.id]
	cc := &x.Call
	args := make([]*expr, len(cc.Args))
	for j, a := range cc.Args {
		args[j] = in.val(fr, st, a)
	}
	if bi, ok := cc.Value.(*ssa.Builtin); ok {
		switch bi.Name() {
		case "len":
			env[x] = mkRaw("len", 0, "", args[0])
		case "cap":
			env[x] = mkRaw("cap", 0, "", args[0])
		case "append":
			ev := ievent{Kind: "append", Ins: x, Args: []*expr{args[0]}}
			// fixed elements: a slice of a local array whose cells were just stored
			if args[1].op == "slice" && args[1].args[0].op == "sym" && strings.HasPrefix(args[1].args[0].key, "&f") {
				base := args[1].args[0].key
				for n := 0; ; n++ {
					cell := mkSym(fmt.Sprintf("%s[%d]", base, n))
					v, ok := st.heap[cell.key]
					if !ok {
						v = in.load(st, cell)
						if v.op != "struct" {
							delete(st.heap, cell.key)
							break
						}
					}
					ev.Args = append(ev.Args, v)
				}
			} else {
				ev.Kind = "spread"
				ev.Args = append(ev.Args, args[1])
			}
			st.events = append(st.events, ev)
			env[x] = in.opaque("append")
		case "copy":
			st.events = append(st.events, ievent{Kind: "copy", Ins: x, Args: args})
			env[x] = in.opaque("copy")
		case "min", "max":
			env[x] = mkRaw(bi.Name(), 0, "", args...)
		default:
			env[x] = in.opaque(bi.Name())
		}
		return false
	}
	sc := cc.StaticCallee()
	if sc != nil && sc.Blocks != nil && in.Inline != nil && in.Inline(sc) {
		nf := &iframe{id: in.nframe, fn: sc}
		in.nframe++
		st.env[nf.id] = map[ssa.Value]*expr{}
		st.visits[nf.id] = map[*ssa.BasicBlock]int{}
		for j, p := range sc.Params {
			if j < len(args) {
				st.env[nf.id][p] = args[j]
			}
		}
		next := i + 1
		in.block(nf, sc.Blocks[0], nil, st, func(s *istate, rets []*expr) {
			switch len(rets) {
			case 0:
			case 1:
				s.env[fr.id][x] = rets[0]
			default:
				s.env[fr.id][x] = mkRaw("tuple", 0, "", rets...)
			}
			in.instrs(fr, b, next, s, k)
		})
		return true
	}
	name := calleeShort(cc)
	if cc.IsInvoke() {
		name = "invoke:" + cc.Method.Name()
	} else if sc == nil {
		name = "dynamic"
		args = append([]*expr{in.val(fr, st, cc.Value)}, args...)
	}
	ev := ievent{Kind: "call", Ins: x, Name: name, Args: args}
	if name == "dynamic" {
		ev.Heap = make(map[string]*expr, len(st.heap))
		for hk, hv := range st.heap {
			ev.Heap[hk] = hv
		}
	}
	st.events = append(st.events, ev)
	// pure library accessors keep a structural result so that two calls compare equal
	if sc != nil && pureGetter(sc) != nil {
		env[x] = mkRaw("call", 0, name, args...)
	} else {
		in.nopaque++
		env[x] = mkRaw("call", int64(in.nopaque), name, args...)
	}
	return false
}

// ---------------------------------------------------------------------------------------------
// queries on terms

// orParts flattens an OR tree.
func orParts(e *expr) []*expr {
	if e.op == "or" {
		return append(orParts(e.args[0]), orParts(e.args[1])...)
	}
	return []*expr{e}
}

// constBits: the constant part of an OR tree (conversions looked through).
func constBits(e *expr) int64 {
	for e.op == "conv" {
		e = e.args[0]
	}
	k := int64(0)
	for _, p := range orParts(e) {
		for p.op == "conv" {
			p = p.args[0]
		}
		if c, ok := p.isConst(); ok {
			k |= c
		} else if p.op == "or" {
			k |= constBits(p)
		}
	}
	return k
}

// shiftedTerm reads e as (base [& mask]) << shift (shift may be 0, mask -1 when absent);
// conversions that do not narrow below the mask are looked through.
type bitTerm struct {
	Base  *expr
	Mask  int64
	Shift int64
}

func shiftedTerm(e *expr) bitTerm {
	t := bitTerm{Mask: -1}
	for {
		switch e.op {
		case "conv":
			w := e.k
			if w < 0 {
				w = -w
			}
			if w < 64 && t.Mask == -1 && t.Shift == 0 {
				// a narrowing conversion is a mask
				inner := shiftedTerm(e.args[0])
				if inner.Shift == 0 {
					m := int64(1)<<uint(w) - 1
					if inner.Mask != -1 {
						m &= inner.Mask
					}
					return bitTerm{inner.Base, m, 0}
				}
			}
			e = e.args[0]
			continue
		case "shl":
			if c, ok := e.args[1].isConst(); ok {
				t.Shift += c
				e = e.args[0]
				continue
			}
		case "and":
			if c, ok := e.args[1].isConst(); ok && t.Mask == -1 {
				t.Mask = c
				e = e.args[0]
				continue
			}
		}
		break
	}
	t.Base = e
	return t
}

// linearOf reads e as Σ coef·atom + k (conversions between same-or-wider widths looked through).
func linearOf(e *expr) (map[string]int64, map[string]*expr, int64) {
	terms, atoms := map[string]int64{}, map[string]*expr{}
	k := int64(0)
	var walk func(e *expr, sign int64)
	walk = func(e *expr, sign int64) {
		switch e.op {
		case "const":
			k += sign * e.k
		case "add":
			walk(e.args[0], sign)
			walk(e.args[1], sign)
		case "sub":
			walk(e.args[0], sign)
			walk(e.args[1], -sign)
		default:
			terms[e.key] += sign
			atoms[e.key] = e
		}
	}
	walk(e, 1)
	for key, c := range terms {
		if c == 0 {
			delete(terms, key)
			delete(atoms, key)
		}
	}
	return terms, atoms, k
}

// evalExpr evaluates a term with the given symbols/atoms bound to concrete values (by key).
func evalExpr(e *expr, bind map[string]int64) (int64, bool) {
	if v, ok := bind[e.key]; ok {
		return v, true
	}
	switch e.op {
	case "const":
		return e.k, true
	case "conv":
		v, ok := evalExpr(e.args[0], bind)
		return truncTo(v, e.k), ok
	case "not":
		v, ok := evalExpr(e.args[0], bind)
		if v == 0 {
			return 1, ok
		}
		return 0, ok
	}
	if len(e.args) == 2 {
		a, ok1 := evalExpr(e.args[0], bind)
		b, ok2 := evalExpr(e.args[1], bind)
		if !ok1 || !ok2 {
			return 0, false
		}
		r := mkOp(e.op, mkConst(a), mkConst(b))
		return r.isConst()
	}
	return 0, false
}

// symbolsOf lists the atoms (symbols, element reads, calls) of a term.
func atomsOf(e *expr, out map[string]*expr) {
	switch e.op {
	case "const":
	case "call":
		out[e.key] = e
		for _, a := range e.args {
			atomsOf(a, out) // what the call was given
		}
	case "sym", "idx", "len", "field", "extract":
		out[e.key] = e
	default:
		for _, a := range e.args {
			atomsOf(a, out)
		}
	}
}

func sortedExprKeys(m map[string]*expr) []string {
	ks := make([]string, 0, len(m))
	for k := range m {
		ks = append(ks, k)
	}
	sort.Strings(ks)
	return ks
}
