package colvet

import (
	"go/constant"
	"go/token"
	"go/types"
	"strings"
	"unicode"

	"golang.org/x/tools/go/ssa"
)

// Helper transparency. A maintainer may move any statement of an anchored function into a small
// unexported helper. Rules therefore search "deep": through calls to library helpers (unexported
// functions that no rule anchors on by name), up to depth 3, and values are compared after
// resolving a helper's parameters to the arguments of its call site.

var curProg *Prog

// isHelper: an unexported library function or method (of either package) that is not itself an
// anchor of some rule, not a closure, and has a body.
func isHelper(fn *ssa.Function) bool {
	if fn == nil || fn.Blocks == nil || fn.Parent() != nil || curProg == nil || !curProg.InLib(fn) {
		return false
	}
	o := originOf(fn)
	n := baseName(o)
	if n == "" || unicode.IsUpper(rune(n[0])) || n == "init" {
		return false
	}
	return !anchorNames[fnName(o)]
}

// uniqueCallOf: the single static call site of helper fn (by origin) in the library, if it has
// exactly one (call sites inside generic instances repeat their origin and are not counted).
func uniqueCallOf(fn *ssa.Function) ssa.CallInstruction {
	p := curProg
	if p == nil {
		return nil
	}
	if p.uniq == nil {
		p.uniq = map[*ssa.Function][]ssa.CallInstruction{}
		for f := range p.modFunc {
			if topFn(f).Origin() != nil {
				continue
			}
			allInstrs(f, func(ins ssa.Instruction) {
				ci, ok := ins.(ssa.CallInstruction)
				if !ok {
					return
				}
				if sc := ci.Common().StaticCallee(); sc != nil && p.InLib(sc) {
					o := originOf(sc)
					p.uniq[o] = append(p.uniq[o], ci)
				}
			})
		}
	}
	cs := p.uniq[originOf(fn)]
	if len(cs) == 1 {
		return cs[0]
	}
	return nil
}

// reachedFromSelected: helper fn (or the helper a closure is nested in) is called — through at most
// three levels of helpers — by a function whose name sel accepts. Rules that select the functions
// they look at by name use this to follow statements that were moved into a helper.
func reachedFromSelected(fn *ssa.Function, sel func(string) bool) bool {
	seen := map[*ssa.Function]bool{}
	var rec func(f *ssa.Function, depth int) bool
	rec = func(f *ssa.Function, depth int) bool {
		f = originOf(topFn(f))
		if seen[f] || depth > 3 || !isHelper(f) {
			return false
		}
		seen[f] = true
		uniqueCallOf(f) // builds the call-site index
		for _, ci := range curProg.uniq[f] {
			caller := ci.Parent()
			if sel(fnName(caller)) || sel(fnName(originOf(topFn(caller)))) {
				return true
			}
			if rec(caller, depth+1) {
				return true
			}
		}
		return false
	}
	return rec(fn, 0)
}

// paramArg: the argument bound to parameter par at the unique call site of its (helper) function.
func paramArg(par *ssa.Parameter) ssa.Value {
	// inside the evaluation of a helper's result for one particular call: the arguments of that call
	for e := dynEnv; e != nil; e = e.outer {
		if a, ok := e.bind[par]; ok {
			return a
		}
	}
	fn := par.Parent()
	if fn != nil && fn.Parent() != nil {
		return closureParamArg(par)
	}
	if !isHelper(fn) {
		return nil
	}
	ci := uniqueCallOf(fn)
	if ci == nil || ci.Common().IsInvoke() {
		return nil
	}
	for i, q := range fn.Params {
		if q == par && i < len(ci.Common().Args) {
			return ci.Common().Args[i]
		}
	}
	return nil
}

// closureParamArg: parameter #i of a function literal that is created once, handed to exactly one
// library function g as an argument and invoked by g (or g's own closures) at exactly one site —
// and used by g for nothing else — is the i-th argument of that invocation.
var closureParamDepth int
var closureParamMemo = map[*ssa.Parameter]ssa.Value{}

func closureParamArg(par *ssa.Parameter) (res ssa.Value) {
	if v, ok := closureParamMemo[par]; ok {
		return v
	}
	if closureParamDepth > 2 {
		return nil
	}
	closureParamDepth++
	defer func() {
		closureParamDepth--
		if closureParamDepth == 0 {
			closureParamMemo[par] = res
		}
	}()
	f := par.Parent()
	idx := -1
	for i, q := range f.Params {
		if q == par {
			idx = i
		}
	}
	if idx < 0 || curProg == nil {
		return nil
	}
	// the creation site and the single call it is an argument of
	var site ssa.CallInstruction
	argIdx, uses := -1, 0
	allInstrs(f.Parent(), func(ins ssa.Instruction) {
		for _, op := range ins.Operands(nil) {
			if *op == nil {
				continue
			}
			v := strip(*op)
			isF := false
			if mc, ok := v.(*ssa.MakeClosure); ok && mc.Fn == ssa.Value(f) {
				isF = true
			} else if fv, ok := v.(*ssa.Function); ok && fv == f {
				isF = true
			}
			if !isF {
				continue
			}
			if _, isMk := ins.(*ssa.MakeClosure); isMk {
				continue
			}
			uses++
			if ci, ok := ins.(ssa.CallInstruction); ok {
				if _, isCall := ins.(*ssa.Call); isCall {
					for k, a := range ci.Common().Args {
						if a == *op {
							site, argIdx = ci, k
						}
					}
				}
			}
		}
	})
	if uses != 1 || site == nil || site.Common().IsInvoke() {
		return nil
	}
	g := site.Common().StaticCallee()
	if g == nil || g.Blocks == nil || !curProg.InLib(g) {
		return nil
	}
	g = originOf(g)
	if argIdx >= len(g.Params) {
		return nil
	}
	formal := g.Params[argIdx]
	var inv *ssa.Call
	ok := true
	withClosures(g, func(h *ssa.Function) {
		allInstrs(h, func(ins ssa.Instruction) {
			if _, isDbg := ins.(*ssa.DebugRef); isDbg {
				return
			}
			for _, op := range ins.Operands(nil) {
				if *op == nil {
					continue
				}
				if _, isFn := (*op).Type().Underlying().(*types.Signature); !isFn {
					continue
				}
				if norm(*op) != ssa.Value(formal) {
					continue
				}
				switch x := ins.(type) {
				case *ssa.Store:
					if x.Val == *op {
						if _, isAl := x.Addr.(*ssa.Alloc); isAl {
							continue
						}
					}
					ok = false
				case *ssa.Call:
					if x.Call.Value == *op && !x.Call.IsInvoke() && inv == nil {
						inv = x
						continue
					}
					ok = false
				default:
					ok = false
				}
			}
		})
	})
	if !ok || inv == nil || idx >= len(inv.Call.Args) {
		return nil
	}
	return inv.Call.Args[idx]
}

// deepVisit visits the instructions of fn and, through calls to helpers, of the helpers (depth ≤ 3).
// site is the instruction of fn itself through which inner is reached (inner when it is in fn).
func deepVisit(fn *ssa.Function, visit func(inner, site ssa.Instruction)) {
	deepVisitE(fn, func(inner, site ssa.Instruction, _ *venv) { visit(inner, site) })
}

// deepVisitE additionally hands the visitor the environment that binds the parameters of the
// helpers entered on the way to the arguments of the calls they were entered through (so that a
// helper shared by several callers is read in the context of this caller).
func deepVisitE(fn *ssa.Function, visit func(inner, site ssa.Instruction, env *venv)) {
	deepVisitFrom(fn, nil, visit)
}

// deepVisitFrom starts in an environment (fn is itself reached through helpers whose parameters
// are bound there) and also follows calls of function values that the environment resolves to a
// function of the library: a step or filter handed down as an argument is read where it is called.
func deepVisitFrom(fn *ssa.Function, env0 *venv, visit func(inner, site ssa.Instruction, env *venv)) {
	seen := map[*ssa.Function]bool{fn: true}
	var rec func(f *ssa.Function, site ssa.Instruction, env *venv, depth int)
	rec = func(f *ssa.Function, site ssa.Instruction, env *venv, depth int) {
		allInstrs(f, func(ins ssa.Instruction) {
			s := site
			if s == nil {
				s = ins
			}
			visit(ins, s, env)
			if depth >= 3 {
				return
			}
			if cc, _, isGo := callCommon(ins); cc != nil && !isGo {
				if sc := cc.StaticCallee(); sc != nil && isHelper(sc) && !seen[originOf(sc)] {
					o := originOf(sc)
					seen[o] = true
					ne := &venv{bind: map[*ssa.Parameter]ssa.Value{}, outer: env}
					for j, par := range o.Params {
						if j < len(cc.Args) {
							ne.bind[par] = cc.Args[j]
						}
					}
					rec(o, s, ne, depth+1)
					delete(seen, o)
				} else if sc == nil && !cc.IsInvoke() {
					// a function value: a parameter bound in env, a captured variable of a closure
					v, _ := normE(cc.Value, env, false)
					if g := asFunc(v); g != nil && g.Blocks != nil && curProg != nil && curProg.InLib(g) && !seen[originOf(g)] {
						o := originOf(g)
						seen[o] = true
						ne := &venv{bind: map[*ssa.Parameter]ssa.Value{}, outer: env}
						for j := 0; j < len(cc.Args); j++ {
							if par := cbParam(o, j); par != nil {
								ne.bind[par] = cc.Args[j]
							}
						}
						rec(o, s, ne, depth+1)
						delete(seen, o)
					}
				}
			}
		})
	}
	rec(fn, nil, env0, 0)
}

// deepVisitC is deepVisitE that also enters the function literals nested in every function it
// visits (their captured variables resolve through norm to values of the creating function, and
// from there through the environment).
func deepVisitC(fn *ssa.Function, visit func(inner ssa.Instruction, env *venv)) {
	seen := map[*ssa.Function]bool{}
	var rec func(f *ssa.Function, env *venv, depth int)
	rec = func(f *ssa.Function, env *venv, depth int) {
		if seen[f] {
			return
		}
		seen[f] = true
		defer delete(seen, f)
		allInstrs(f, func(ins ssa.Instruction) {
			visit(ins, env)
			if depth >= 4 {
				return
			}
			if cc, _, isGo := callCommon(ins); cc != nil && !isGo {
				if sc := cc.StaticCallee(); sc != nil && isHelper(sc) {
					o := originOf(sc)
					ne := &venv{bind: map[*ssa.Parameter]ssa.Value{}, outer: env}
					for j, par := range o.Params {
						if j < len(cc.Args) {
							ne.bind[par] = cc.Args[j]
						}
					}
					rec(o, ne, depth+1)
				}
			}
		})
		for _, a := range f.AnonFuncs {
			rec(a, env, depth)
		}
	}
	rec(fn, nil, 0)
}

// calleeNameE: the short name of the function a call invokes — its static callee, or the function
// its callee value denotes once parameters are bound through env (a fold handed down as a function
// value).
func calleeNameE(cc *ssa.CallCommon, env *venv) string {
	if n := calleeShort(cc); n != "" {
		return n
	}
	if cc.IsInvoke() {
		return ""
	}
	v, _ := normE(cc.Value, env, false)
	if f := asFunc(v); f != nil {
		return Short(originOf(f).String())
	}
	return ""
}

// deepCall is a call found by a deep search.
type deepCall struct {
	Site  ssa.Instruction // in the searched function
	Inner ssa.Instruction // the call itself
	Env   *venv           // parameter bindings of the helpers entered on the way
}

// same compares a value seen at the inner call with a value of the searched function.
func (d deepCall) same(inner, outer ssa.Value) bool { return sameE(inner, d.Env, outer, nil, 0) }

// callsToDeep: like callsTo, looking through helpers.
func callsToDeep(fn *ssa.Function, withDefer bool, names ...string) []deepCall {
	var out []deepCall
	deepVisitE(fn, func(inner, site ssa.Instruction, env *venv) {
		cc, isDefer, isGo := callCommon(inner)
		if cc == nil || isGo || (isDefer && !withDefer) {
			return
		}
		if calleeIs(cc, names...) {
			out = append(out, deepCall{site, inner, env})
		}
	})
	return out
}

// callsWhereDeep: like callsWhere, looking through helpers.
func callsWhereDeep(fn *ssa.Function, pred func(ins ssa.Instruction, cc *ssa.CallCommon) bool) []deepCall {
	var out []deepCall
	deepVisitE(fn, func(inner, site ssa.Instruction, env *venv) {
		if cc, _, _ := callCommon(inner); cc != nil && pred(inner, cc) {
			out = append(out, deepCall{site, inner, env})
		}
	})
	return out
}

func sitesOf(ds []deepCall) []ssa.Instruction {
	out := make([]ssa.Instruction, len(ds))
	for i, d := range ds {
		out[i] = d.Site
	}
	return out
}

// alwaysDoes: every path through helper fn from entry to a return passes an instruction accepted
// by pred (itself evaluated deep).
func alwaysDoes(fn *ssa.Function, pred func(ssa.Instruction) bool, depth int) bool {
	if fn == nil || fn.Blocks == nil || depth > 3 {
		return false
	}
	ok, _ := mustPassToReturnD(fn.Blocks[0], 0, pred, depth+1)
	return ok
}

// deepPred lifts an instruction predicate: a call to a helper that always does it counts.
func deepPred(pred func(ssa.Instruction) bool, depth int) func(ssa.Instruction) bool {
	return func(ins ssa.Instruction) bool {
		if pred(ins) {
			return true
		}
		if cc, _, isGo := callCommon(ins); cc != nil && !isGo {
			if sc := cc.StaticCallee(); sc != nil && isHelper(sc) {
				// inside the helper its parameters read as the arguments of this call
				o := originOf(sc)
				saved := dynEnv
				ne := &venv{bind: map[*ssa.Parameter]ssa.Value{}, outer: dynEnv}
				for j, par := range o.Params {
					if j < len(cc.Args) {
						ne.bind[par] = cc.Args[j]
					}
				}
				dynEnv = ne
				defer func() { dynEnv = saved }()
				return alwaysDoes(o, pred, depth)
			}
		}
		return false
	}
}

// mayDo: some path of fn (deep) contains an instruction accepted by pred.
func mayDo(fn *ssa.Function, pred func(ssa.Instruction) bool) bool {
	hit := false
	deepVisit(fn, func(inner, _ ssa.Instruction) {
		if pred(inner) {
			hit = true
		}
	})
	return hit
}

// storesDeep lists the values stored into field `field` of struct `structName` by fn (deep).
func storesDeep(fn *ssa.Function, structName string) map[string][]ssa.Value {
	out := map[string][]ssa.Value{}
	deepVisit(fn, func(inner, _ ssa.Instruction) {
		st, ok := inner.(*ssa.Store)
		if !ok {
			return
		}
		if fr, ok := fieldOf(st.Addr); ok && fr.Struct == structName {
			out[fr.Field] = append(out[fr.Field], st.Val)
		}
	})
	return out
}

// ---------------------------------------------------------------------------------------------
// semantic guards

// evalCond evaluates a boolean SSA value under an assignment of recognised leaves; φ-nodes of the
// block the path just entered are resolved by the predecessor. Returns (value, known).
func evalCond(v ssa.Value, assign func(ssa.Value) (bool, bool), at, pred *ssa.BasicBlock, depth int) (bool, bool) {
	if depth > 8 || v == nil {
		return false, false
	}
	if val, ok := assign(v); ok {
		return val, true
	}
	switch x := v.(type) {
	case *ssa.Const:
		if x.Value != nil {
			return x.Value.String() == "true", true
		}
	case *ssa.UnOp:
		if x.Op == token.NOT {
			val, ok := evalCond(x.X, assign, at, pred, depth+1)
			return !val, ok
		}
		if x.Op == token.MUL {
			// a named boolean held in a single-assignment local
			if n := norm(x); n != ssa.Value(x) {
				return evalCond(n, assign, at, pred, depth+1)
			}
		}
	case *ssa.Phi:
		if x.Block() == at && pred != nil {
			for i, p := range at.Preds {
				if p == pred {
					return evalCond(x.Edges[i], assign, at, pred, depth+1)
				}
			}
		}
		// all incoming values agree
		var val, have bool
		for _, e := range x.Edges {
			ev, ok := evalCond(e, assign, nil, nil, depth+1)
			if !ok {
				return false, false
			}
			if have && ev != val {
				return false, false
			}
			val, have = ev, true
		}
		return val, have
	case *ssa.Extract:
		if call, ok := x.Tuple.(*ssa.Call); ok {
			return evalHelperResult(call, x.Index, assign, depth)
		}
	case *ssa.Call:
		return evalHelperResult(x, 0, assign, depth)
	case *ssa.BinOp:
		// b == true / b != false on booleans
		if x.Op == token.EQL || x.Op == token.NEQ {
			if c, ok := x.Y.(*ssa.Const); ok && c.Value != nil && (c.Value.String() == "true" || c.Value.String() == "false") {
				val, known := evalCond(x.X, assign, at, pred, depth+1)
				if known {
					want := c.Value.String() == "true"
					if x.Op == token.NEQ {
						want = !want
					}
					return val == want, true
				}
			}
		}
	}
	return false, false
}

// reachableUnder: blocks of fn reachable from the entry when the leaves take the assigned values
// (conditions that cannot be evaluated allow both edges).
func reachableUnder(fn *ssa.Function, assign func(ssa.Value) (bool, bool)) map[*ssa.BasicBlock]bool {
	reach, _ := feasibleUnder(fn, assign)
	return reach
}

type cfgEdge struct{ from, to *ssa.BasicBlock }

// feasibleUnder: reachable blocks and feasible edges of fn under the assignment.
func feasibleUnder(fn *ssa.Function, assign func(ssa.Value) (bool, bool)) (map[*ssa.BasicBlock]bool, map[cfgEdge]bool) {
	seenE := map[cfgEdge]bool{}
	reach := map[*ssa.BasicBlock]bool{}
	var work []cfgEdge
	push := func(from, to *ssa.BasicBlock) {
		e := cfgEdge{from, to}
		if !seenE[e] {
			seenE[e] = true
			work = append(work, e)
		}
	}
	push(nil, fn.Blocks[0])
	for len(work) > 0 {
		e := work[len(work)-1]
		work = work[:len(work)-1]
		b := e.to
		reach[b] = true
		if len(b.Instrs) == 0 {
			continue
		}
		if iff, ok := b.Instrs[len(b.Instrs)-1].(*ssa.If); ok {
			if val, known := evalCond(iff.Cond, assign, b, e.from, 0); known {
				if val {
					push(b, b.Succs[0])
				} else {
					push(b, b.Succs[1])
				}
				continue
			}
		}
		for _, s := range b.Succs {
			push(b, s)
		}
	}
	return reach, seenE
}

// evalHelperResult evaluates result #idx of a call to a boolean-valued helper under the
// assignment: the helper's own control flow is restricted to the edges feasible under the
// assignment, and every feasible return must yield the same known value.
var helperEvalDepth int

// dynEnv binds the parameters of the helpers whose results are being evaluated (evalHelperResult)
// to the arguments of the calls under evaluation, so that a recogniser looking at a condition
// inside the helper compares it with values of the caller (a helper with several call sites has no
// unique binding otherwise).
var dynEnv *venv

func evalHelperResult(call *ssa.Call, idx int, assign func(ssa.Value) (bool, bool), depth int) (bool, bool) {
	sc := call.Call.StaticCallee()
	if sc == nil || !isHelper(sc) || helperEvalDepth >= 2 {
		return false, false
	}
	o := originOf(sc)
	helperEvalDepth++
	saved := dynEnv
	ne := &venv{bind: map[*ssa.Parameter]ssa.Value{}, outer: dynEnv}
	for j, par := range o.Params {
		if j < len(call.Call.Args) {
			ne.bind[par] = call.Call.Args[j]
		}
	}
	dynEnv = ne
	defer func() { helperEvalDepth--; dynEnv = saved }()
	reach, feas := feasibleUnder(o, assign)
	var evalF func(v ssa.Value, d int) (bool, bool)
	evalF = func(v ssa.Value, d int) (bool, bool) {
		if d > 10 || v == nil {
			return false, false
		}
		if phi, ok := v.(*ssa.Phi); ok {
			var val, have bool
			for i, p := range phi.Block().Preds {
				if !feas[cfgEdge{p, phi.Block()}] {
					continue
				}
				ev, known := evalF(phi.Edges[i], d+1)
				if !known || (have && ev != val) {
					return false, false
				}
				val, have = ev, true
			}
			return val, have
		}
		if u, ok := v.(*ssa.UnOp); ok && u.Op == token.NOT {
			x, known := evalF(u.X, d+1)
			return !x, known
		}
		return evalCond(v, assign, nil, nil, depth+1)
	}
	var val, have bool
	for _, ret := range returnsOf(o) {
		if !reach[ret.Block()] || idx >= len(ret.Results) {
			continue
		}
		res := ret.Results[idx]
		// named results: the value stored into the result cell in the returning block
		if ld, ok := res.(*ssa.UnOp); ok && ld.Op == token.MUL {
			if vals := cellStoresBefore(ret); idx < len(vals) && len(vals) == len(ret.Results) {
				res = vals[idx]
			}
		}
		ev, known := evalF(res, 0)
		if !known || (have && ev != val) {
			return false, false
		}
		val, have = ev, true
	}
	return val, have
}

// leavesOf collects the boolean leaf values appearing in the branch conditions of fn.
func leavesOf(fn *ssa.Function) []ssa.Value {
	seen := map[ssa.Value]bool{}
	var out []ssa.Value
	var walk func(v ssa.Value, d int)
	walk = func(v ssa.Value, d int) {
		if v == nil || seen[v] || d > 8 {
			return
		}
		seen[v] = true
		out = append(out, v)
		switch x := v.(type) {
		case *ssa.UnOp:
			if x.Op == token.NOT {
				walk(x.X, d+1)
			}
			if x.Op == token.MUL {
				if n := norm(x); n != ssa.Value(x) {
					walk(n, d+1)
				}
			}
		case *ssa.Phi:
			for _, e := range x.Edges {
				walk(e, d+1)
			}
		case *ssa.BinOp:
			if x.Op == token.EQL || x.Op == token.NEQ {
				if c, ok := x.Y.(*ssa.Const); ok && c.Value != nil && (c.Value.String() == "true" || c.Value.String() == "false") {
					walk(x.X, d+1)
				}
			}
		}
	}
	for _, b := range fn.Blocks {
		if len(b.Instrs) == 0 {
			continue
		}
		if iff, ok := b.Instrs[len(b.Instrs)-1].(*ssa.If); ok {
			walk(iff.Cond, 0)
		}
	}
	return out
}

// guardedSem: block b executes only when the condition recognised by match has the value match
// asks for — decided semantically: b is unreachable when every recognised leaf takes the opposite
// value (and reachable otherwise). Handles negations, De Morgan rewrites, named booleans,
// short-circuit merges and early returns alike.
func guardedSem(b *ssa.BasicBlock, match func(cond ssa.Value) (bool, bool)) bool {
	fn := b.Parent()
	memo := map[ssa.Value][2]bool{}
	look := func(v ssa.Value) (bool, bool) {
		if m, ok := memo[v]; ok {
			return m[0], m[1]
		}
		rec, w := false, false
		if _, isBool := v.Type().Underlying().(*types.Basic); isBool {
			rec, w = match(v)
		}
		memo[v] = [2]bool{rec, w}
		return rec, w
	}
	opposite := reachableUnder(fn, func(v ssa.Value) (bool, bool) {
		if rec, w := look(v); rec {
			return !w, true
		}
		return false, false
	})
	if opposite[b] {
		return false
	}
	same := reachableUnder(fn, func(v ssa.Value) (bool, bool) {
		if rec, w := look(v); rec {
			return w, true
		}
		return false, false
	})
	return same[b]
}

// deepFuncs: fn, the helpers it reaches (depth ≤ 3), and all closures nested in any of them.
func deepFuncs(fn *ssa.Function) []*ssa.Function {
	seen := map[*ssa.Function]bool{}
	var out []*ssa.Function
	var add func(f *ssa.Function, depth int)
	add = func(f *ssa.Function, depth int) {
		if f == nil || seen[f] {
			return
		}
		seen[f] = true
		out = append(out, f)
		for _, a := range f.AnonFuncs {
			add(a, depth)
		}
		if depth >= 3 {
			return
		}
		allInstrs(f, func(ins ssa.Instruction) {
			if cc, _, isGo := callCommon(ins); cc != nil && !isGo {
				if sc := cc.StaticCallee(); sc != nil && isHelper(sc) {
					add(originOf(sc), depth+1)
				}
			}
			// a named helper handed over as a function value (c.Query(deleteExpired)) or as a method
			// value (readChunk(chunk, e.writeChunk))
			for _, op := range ins.Operands(nil) {
				if g, ok := (*op).(*ssa.Function); ok && g.Parent() == nil && isHelper(g) {
					add(originOf(g), depth+1)
				}
			}
			if mc, ok := ins.(*ssa.MakeClosure); ok {
				if m := boundTarget(mc.Fn.(*ssa.Function)); m != nil && isHelper(m) {
					add(originOf(m), depth+1)
				}
			}
		})
	}
	add(fn, 0)
	return out
}

// condLeaves decomposes a branch condition into its boolean leaves (through !, named booleans and
// short-circuit φ-nodes); constants are dropped.
func condLeaves(cond ssa.Value) []ssa.Value {
	var out []ssa.Value
	seen := map[ssa.Value]bool{}
	var walk func(v ssa.Value, d int)
	walk = func(v ssa.Value, d int) {
		if v == nil || seen[v] || d > 8 {
			return
		}
		seen[v] = true
		switch x := v.(type) {
		case *ssa.Const:
			return
		case *ssa.UnOp:
			if x.Op == token.NOT {
				walk(x.X, d+1)
				return
			}
			if x.Op == token.MUL {
				if n := norm(x); n != ssa.Value(x) {
					walk(n, d+1)
					return
				}
			}
		case *ssa.Phi:
			if b, ok := x.Type().Underlying().(*types.Basic); ok && b.Kind() == types.Bool {
				for _, e := range x.Edges {
					walk(e, d+1)
				}
				return
			}
		}
		out = append(out, v)
	}
	walk(cond, 0)
	return out
}

// feasibleWithConsts: the instruction (found inside a helper entered with environment env) can
// execute given the constants the helper was handed: every equality test of the helper between two
// values that normalise to constants under env is decided, and the instruction's block is reachable
// under those decisions (writeNumber(acc, commit.Put, v): only the Set arm).
func feasibleWithConsts(ins ssa.Instruction, env *venv) bool {
	f := ins.Parent()
	if f == nil || ins.Block() == nil {
		return true
	}
	reach := reachableUnder(f, func(v ssa.Value) (bool, bool) {
		bo, ok := v.(*ssa.BinOp)
		if !ok || (bo.Op != token.EQL && bo.Op != token.NEQ) {
			return false, false
		}
		x, _ := normE(bo.X, env, false)
		y, _ := normE(bo.Y, env, false)
		cx, okx := x.(*ssa.Const)
		cy, oky := y.(*ssa.Const)
		if !okx || !oky || cx.Value == nil || cy.Value == nil {
			return false, false
		}
		eq := constant.Compare(cx.Value, token.EQL, cy.Value)
		return eq == (bo.Op == token.EQL), true
	})
	return reach[ins.Block()]
}

// accessorMethodCall: the call is method `name` of one of the library's read-write accessors (rw*),
// called statically or — inside a generic helper — through a type parameter.
func accessorMethodCall(cc *ssa.CallCommon, name string) bool {
	if sc := cc.StaticCallee(); sc != nil && sc.Name() == name {
		if rn := recvNamed(sc); rn != nil && strings.HasPrefix(rn.Obj().Name(), "rw") {
			return true
		}
	}
	if cc.IsInvoke() && cc.Method != nil && cc.Method.Name() == name {
		if _, isTP := cc.Value.Type().(*types.TypeParam); isTP {
			return true
		}
	}
	return false
}
