package colvet

import (
	"fmt"
	"go/token"

	"golang.org/x/tools/go/ssa"
)

// Deep path evaluator. Enumerates the paths of a (loop-free on the relevant part) function under
// every valuation of a few recognised boolean guards, inlining calls to helpers (deep.go) to depth
// 3, and hands the visitor the sequence of classified events of each path. Conditions that are not
// recognised are explored on both edges. A loop on a path that carries an event makes the result
// unknown; loops without events are passed over once (zero or one iteration is enough to count
// events that are not inside them).

type pathEvent struct {
	Name string
	Ins  ssa.Instruction
	Env  *venv // parameter bindings of the helpers entered on the way (nil in the function itself)
}

// same compares a value at the event with a value of the enumerated function.
func (e pathEvent) same(inner, outer ssa.Value) bool { return sameE(inner, e.Env, outer, nil, 0) }

type pathCfg struct {
	// leaf recognises a guard: its name and whether the condition is the negation of the guard
	leaf  func(cond ssa.Value) (name string, neg bool, ok bool)
	names []string
	// classify names the event an instruction stands for ("" = none)
	classify func(ins ssa.Instruction) string
	// consistent valuations only (optional)
	valid func(assign map[string]bool) bool
	// withEval (optional) is handed, just before the visitor runs for a path, an evaluator of
	// boolean values of the enumerated function as they stand at the end of that path
	withEval func(eval func(v ssa.Value) (val, known bool))
	// withResolve (optional) is handed a function that follows a value of the enumerated function,
	// as it stands at the end of the current path, through the φ-nodes the path decided and the
	// results of inlined helpers down to the value it was computed from
	withResolve func(resolve func(v ssa.Value) ssa.Value)
	// inlineAll: calls to any library function that carries an event are inlined, not only helpers
	inlineAll bool
	// starLoops: an event met again on the second pass through a loop ends that path quietly (the
	// first pass stands for the iterations) instead of making the result unknown
	starLoops bool
}

type pathFrame struct {
	path []*ssa.BasicBlock
	on   map[*ssa.BasicBlock]int
	env  *venv
	// results of the helper calls inlined on the current path: the return taken and the frame
	// (with the path walked inside the helper) in which its operands are to be read
	rets map[*ssa.Call]pathRet
}

type pathRet struct {
	ret *ssa.Return
	fr  *pathFrame
}

func evalPathsDeep(fn *ssa.Function, cfg pathCfg, visit func(assign map[string]bool, events []pathEvent, ret *ssa.Return) bool) (okAll bool, why string) {
	okAll = true
	n := len(cfg.names)
	budget := 200000
	for mask := 0; mask < 1<<uint(n); mask++ {
		assign := map[string]bool{}
		for i, nm := range cfg.names {
			assign[nm] = mask&(1<<uint(i)) != 0
		}
		if cfg.valid != nil && !cfg.valid(assign) {
			continue
		}
		// conditions that are not recognised are explored on both edges; the edge taken is remembered
		// for the rest of the path, so that a second test of the same value agrees with the first
		decided := map[ssa.Value]bool{}
		var evalV func(v ssa.Value, fr *pathFrame, depth int) (bool, bool)
		evalV = func(v ssa.Value, fr *pathFrame, depth int) (bool, bool) {
			if depth > 8 || v == nil {
				return false, false
			}
			if nm, neg, ok := cfg.leaf(v); ok {
				return assign[nm] != neg, true
			}
			if d, ok := decided[v]; ok {
				return d, true
			}
			switch x := v.(type) {
			case *ssa.Const:
				if x.Value != nil {
					return x.Value.String() == "true", true
				}
			case *ssa.UnOp:
				if x.Op == token.NOT {
					val, ok := evalV(x.X, fr, depth+1)
					return !val, ok
				}
				if x.Op == token.MUL {
					if nv := norm(x); nv != ssa.Value(x) {
						return evalV(nv, fr, depth+1)
					}
				}
			case *ssa.Phi:
				pb := x.Block()
				if fr != nil && x.Parent() == fr.path[0].Parent() {
					for i := len(fr.path) - 1; i > 0; i-- {
						if fr.path[i] == pb {
							for k, pred := range pb.Preds {
								if pred == fr.path[i-1] {
									return evalV(x.Edges[k], fr, depth+1)
								}
							}
						}
					}
				}
			case *ssa.BinOp:
				if x.Op == token.EQL || x.Op == token.NEQ {
					if c, ok := x.Y.(*ssa.Const); ok && c.Value != nil && (c.Value.String() == "true" || c.Value.String() == "false") {
						if val, known := evalV(x.X, fr, depth+1); known {
							want := c.Value.String() == "true"
							if x.Op == token.NEQ {
								want = !want
							}
							return val == want, true
						}
					}
				}
				// a comparison of integers that are constants along this path (the first test of a
				// counted loop over a literal table)
				switch x.Op {
				case token.LSS, token.LEQ, token.GTR, token.GEQ, token.EQL, token.NEQ:
					if a, okA := intAlong(x.X, fr, 0); okA {
						if b, okB := intAlong(x.Y, fr, 0); okB {
							switch x.Op {
							case token.LSS:
								return a < b, true
							case token.LEQ:
								return a <= b, true
							case token.GTR:
								return a > b, true
							case token.GEQ:
								return a >= b, true
							case token.EQL:
								return a == b, true
							case token.NEQ:
								return a != b, true
							}
						}
					}
				}
			case *ssa.Parameter:
				if a := paramArg(x); a != nil {
					return evalV(a, nil, depth+1)
				}
			case *ssa.Call, *ssa.Extract:
				call, idx := (*ssa.Call)(nil), 0
				if c, ok := x.(*ssa.Call); ok {
					call = c
				} else if e := x.(*ssa.Extract); true {
					call, _ = e.Tuple.(*ssa.Call)
					idx = e.Index
				}
				if call == nil {
					return false, false
				}
				if fr != nil && fr.rets != nil {
					if pr, ok := fr.rets[call]; ok && idx < len(pr.ret.Results) {
						res := pr.ret.Results[idx]
						if ld, isLd := res.(*ssa.UnOp); isLd && ld.Op == token.MUL {
							if vals := cellStoresBefore(pr.ret); idx < len(vals) && len(vals) == len(pr.ret.Results) {
								res = vals[idx]
							}
						}
						return evalV(res, pr.fr, depth+1)
					}
				}
				// a boolean helper that was not inlined (it carries no event): evaluate its result
				return evalHelperResult(call, idx, func(v ssa.Value) (bool, bool) {
					if nm, neg, ok := cfg.leaf(v); ok {
						return assign[nm] != neg, true
					}
					return false, false
				}, depth)
			}
			return false, false
		}
		// atomOf follows a condition through negations, named booleans, the φ-nodes resolved by the
		// path and the results of inlined helpers down to the value that is actually unknown
		atomOf := func(v ssa.Value, fr *pathFrame) (ssa.Value, bool) {
			neg := false
			for i := 0; i < 12 && v != nil; i++ {
				switch x := v.(type) {
				case *ssa.UnOp:
					if x.Op == token.NOT {
						v, neg = x.X, !neg
						continue
					}
					if x.Op == token.MUL {
						if nv := norm(x); nv != ssa.Value(x) {
							v = nv
							continue
						}
					}
					return v, neg
				case *ssa.Phi:
					pb := x.Block()
					var next ssa.Value
					if fr != nil && len(fr.path) > 0 && x.Parent() == fr.path[0].Parent() {
						for j := len(fr.path) - 1; j > 0 && next == nil; j-- {
							if fr.path[j] == pb {
								for k, pred := range pb.Preds {
									if pred == fr.path[j-1] {
										next = x.Edges[k]
									}
								}
							}
						}
					}
					if next == nil {
						return v, neg
					}
					v = next
					continue
				case *ssa.Call, *ssa.Extract:
					call, idx := (*ssa.Call)(nil), 0
					if c, ok := x.(*ssa.Call); ok {
						call = c
					} else {
						e := x.(*ssa.Extract)
						call, _ = e.Tuple.(*ssa.Call)
						idx = e.Index
					}
					if call != nil && fr != nil && fr.rets != nil {
						if pr, ok := fr.rets[call]; ok && idx < len(pr.ret.Results) {
							res := pr.ret.Results[idx]
							if ld, isLd := res.(*ssa.UnOp); isLd && ld.Op == token.MUL {
								if vals := cellStoresBefore(pr.ret); idx < len(vals) && len(vals) == len(pr.ret.Results) {
									res = vals[idx]
								}
							}
							v, fr = res, pr.fr
							continue
						}
					}
					return v, neg
				default:
					return v, neg
				}
			}
			return v, neg
		}
		var instrs func(b *ssa.BasicBlock, i int, fr *pathFrame, depth int, ev []pathEvent, k func(ev []pathEvent, ret *ssa.Return) bool) bool
		var enter func(b *ssa.BasicBlock, fr *pathFrame, depth int, ev []pathEvent, k func(ev []pathEvent, ret *ssa.Return) bool) bool
		enter = func(b *ssa.BasicBlock, fr *pathFrame, depth int, ev []pathEvent, k func(ev []pathEvent, ret *ssa.Return) bool) bool {
			budget--
			if budget < 0 {
				why = "too many paths"
				return false
			}
			if fr.on[b] >= 1 {
				// second visit of a block: a loop. Allowed once when the loop body carries no event
				// (the walk then leaves through the exit edge), otherwise unknown.
				if fr.on[b] >= 2 {
					return true // this unrolling adds nothing new
				}
			}
			fr.on[b]++
			fr.path = append(fr.path, b)
			ok := instrs(b, 0, fr, depth, ev, k)
			fr.path = fr.path[:len(fr.path)-1]
			fr.on[b]--
			return ok
		}
		instrs = func(b *ssa.BasicBlock, i int, fr *pathFrame, depth int, ev []pathEvent, k func(ev []pathEvent, ret *ssa.Return) bool) bool {
			for ; i < len(b.Instrs); i++ {
				ins := b.Instrs[i]
				if nm := cfg.classify(ins); nm != "" {
					if fr.on[b] >= 2 {
						if cfg.starLoops {
							// the path so far is handed to the visitor (no return reached)
							return k(ev, nil)
						}
						why = "an event lies inside a loop"
						return false
					}
					ev = append(ev[:len(ev):len(ev)], pathEvent{nm, ins, fr.env})
					continue
				}
				if cc, isDefer, isGo := callCommon(ins); cc != nil && !isGo && !isDefer && depth < 3 {
					if sc := cc.StaticCallee(); sc != nil && (isHelper(sc) || (cfg.inlineAll && curProg != nil && curProg.InLib(sc) && originOf(sc).Blocks != nil && sc.Parent() == nil)) {
						o := originOf(sc)
						has := false
						deepVisit(o, func(inner, _ ssa.Instruction) {
							if cfg.classify(inner) != "" {
								has = true
							}
						})
						if has {
							next := i + 1
							sub := &pathFrame{on: map[*ssa.BasicBlock]int{}, env: &venv{bind: map[*ssa.Parameter]ssa.Value{}, outer: fr.env}}
							for j, par := range o.Params {
								if j < len(cc.Args) {
									sub.env.bind[par] = cc.Args[j]
								}
							}
							callIns, _ := ins.(*ssa.Call)
							return enter(o.Blocks[0], sub, depth+1, ev, func(ev2 []pathEvent, ret *ssa.Return) bool {
								if callIns != nil && ret != nil {
									if fr.rets == nil {
										fr.rets = map[*ssa.Call]pathRet{}
									}
									snap := &pathFrame{path: append([]*ssa.BasicBlock(nil), sub.path...), env: sub.env, rets: sub.rets}
									old, had := fr.rets[callIns]
									fr.rets[callIns] = pathRet{ret, snap}
									defer func() {
										if had {
											fr.rets[callIns] = old
										} else {
											delete(fr.rets, callIns)
										}
									}()
								}
								return instrs(b, next, fr, depth, ev2, k)
							})
						}
					}
				}
				switch x := ins.(type) {
				case *ssa.Return:
					return k(ev, x)
				case *ssa.Panic:
					return true
				case *ssa.If:
					if fr.on[b] >= 2 {
						// the second evaluation of a loop condition is a new value: neither what was
						// decided for the first nor what was folded from the loop's initial values
						// binds it — unless it is a recognised guard
						if _, _, isLeaf := cfg.leaf(x.Cond); !isLeaf {
							base, _ := atomOf(x.Cond, fr)
							old, had := decided[base]
							if had {
								delete(decided, base)
							}
							okB := enter(b.Succs[0], fr, depth, ev, k) && enter(b.Succs[1], fr, depth, ev, k)
							if had {
								decided[base] = old
							}
							return okB
						}
					}
					if v, known := evalV(x.Cond, fr, 0); known {
						if v {
							return enter(b.Succs[0], fr, depth, ev, k)
						}
						return enter(b.Succs[1], fr, depth, ev, k)
					}
					base, neg := atomOf(x.Cond, fr)
					if _, isConst := base.(*ssa.Const); base == nil || isConst {
						return enter(b.Succs[0], fr, depth, ev, k) && enter(b.Succs[1], fr, depth, ev, k)
					}
					if _, had := decided[base]; had {
						return enter(b.Succs[0], fr, depth, ev, k) && enter(b.Succs[1], fr, depth, ev, k)
					}
					decided[base] = !neg
					okT := enter(b.Succs[0], fr, depth, ev, k)
					decided[base] = neg
					okF := okT && enter(b.Succs[1], fr, depth, ev, k)
					delete(decided, base)
					return okF
				case *ssa.Jump:
					return enter(b.Succs[0], fr, depth, ev, k)
				}
			}
			return true
		}
		top := &pathFrame{on: map[*ssa.BasicBlock]int{}}
		if !enter(fn.Blocks[0], top, 0, nil, func(ev []pathEvent, ret *ssa.Return) bool {
			if cfg.withEval != nil {
				cfg.withEval(func(v ssa.Value) (bool, bool) { return evalV(v, top, 0) })
			}
			if cfg.withResolve != nil {
				cfg.withResolve(func(v ssa.Value) ssa.Value {
					for i := 0; i < 6; i++ {
						b, _ := atomOf(v, top)
						if b == v {
							break
						}
						v = b
					}
					return v
				})
			}
			return visit(assign, ev, ret)
		}) {
			okAll = false
			if why == "" {
				why = fmt.Sprintf("valuation %v", assign)
			}
			return
		}
	}
	return
}

// intAlong: the integer value of v when it is a constant along the path of fr — a constant, a
// φ-node whose block was entered exactly once on the path (resolved by the predecessor), sums and
// differences of such.
func intAlong(v ssa.Value, fr *pathFrame, depth int) (int64, bool) {
	if depth > 4 || v == nil {
		return 0, false
	}
	switch x := v.(type) {
	case *ssa.Const:
		return constInt(x)
	case *ssa.Convert:
		return intAlong(x.X, fr, depth+1)
	case *ssa.ChangeType:
		return intAlong(x.X, fr, depth+1)
	case *ssa.BinOp:
		if x.Op == token.ADD || x.Op == token.SUB {
			a, okA := intAlong(x.X, fr, depth+1)
			b, okB := intAlong(x.Y, fr, depth+1)
			if okA && okB {
				if x.Op == token.ADD {
					return a + b, true
				}
				return a - b, true
			}
		}
	case *ssa.Phi:
		if fr == nil || len(fr.path) == 0 || x.Parent() != fr.path[0].Parent() || fr.on[x.Block()] != 1 {
			return 0, false
		}
		pb := x.Block()
		for i := len(fr.path) - 1; i > 0; i-- {
			if fr.path[i] == pb {
				for k, pred := range pb.Preds {
					if pred == fr.path[i-1] {
						// the incoming value must not itself hang on this φ (a later iteration)
						if c, isC := x.Edges[k].(*ssa.Const); isC {
							return constInt(c)
						}
						return 0, false
					}
				}
			}
		}
	}
	return 0, false
}

func countEvents(ev []pathEvent, name string) int {
	n := 0
	for _, e := range ev {
		if e.Name == name {
			n++
		}
	}
	return n
}
