package colvet

import (
	"fmt"
	"go/token"
	"go/types"
	"sort"
	"strings"

	"golang.org/x/tools/go/ssa"
)

// ---------------------------------------------------------------------------------------------
// small path evaluator: enumerate the paths of a loop-free function under every valuation of a
// few recognised boolean guards; unrecognised conditions are explored on both edges.

type guardLeaf func(cond ssa.Value) (name string, ok bool)

func evalPaths(fn *ssa.Function, leaf guardLeaf, names []string, visit func(assign map[string]bool, path []*ssa.BasicBlock) bool) (okAll bool, why string) {
	okAll = true
	n := len(names)
	for mask := 0; mask < 1<<uint(n); mask++ {
		assign := map[string]bool{}
		for i, nm := range names {
			assign[nm] = mask&(1<<uint(i)) != 0
		}
		var rec func(b *ssa.BasicBlock, path []*ssa.BasicBlock, onPath map[*ssa.BasicBlock]bool) bool
		rec = func(b *ssa.BasicBlock, path []*ssa.BasicBlock, onPath map[*ssa.BasicBlock]bool) bool {
			if onPath[b] {
				why = "a loop lies on the path"
				return false
			}
			onPath[b] = true
			defer delete(onPath, b)
			path = append(path, b)
			last := b.Instrs[len(b.Instrs)-1]
			switch x := last.(type) {
			case *ssa.Return:
				return visit(assign, path)
			case *ssa.Panic:
				return true
			case *ssa.If:
				// evaluate the condition: leaves, negations, constants and the φ of a short-circuit
				// expression (resolved by the predecessor the path came through)
				var eval func(v ssa.Value, depth int) (val bool, known bool)
				eval = func(v ssa.Value, depth int) (bool, bool) {
					if depth > 6 {
						return false, false
					}
					if inner, isN := isNot(v); isN {
						x, ok := eval(inner, depth+1)
						return !x, ok
					}
					if c, isC := v.(*ssa.Const); isC && c.Value != nil {
						return c.Value.String() == "true", true
					}
					if nm, ok := leaf(v); ok {
						return assign[nm], true
					}
					if phi, isPhi := v.(*ssa.Phi); isPhi {
						pb := phi.Block()
						for i := len(path) - 1; i > 0; i-- {
							if path[i] == pb {
								for k, pred := range pb.Preds {
									if pred == path[i-1] {
										return eval(phi.Edges[k], depth+1)
									}
								}
							}
						}
					}
					return false, false
				}
				if v, known := eval(x.Cond, 0); known {
					if v {
						return rec(b.Succs[0], path, onPath)
					}
					return rec(b.Succs[1], path, onPath)
				}
				return rec(b.Succs[0], path, onPath) && rec(b.Succs[1], path, onPath)
			default:
				for _, s := range b.Succs {
					if !rec(s, path, onPath) {
						return false
					}
				}
				return true
			}
		}
		if !rec(fn.Blocks[0], nil, map[*ssa.BasicBlock]bool{}) {
			okAll = false
			if why == "" {
				why = fmt.Sprintf("valuation %v", assign)
			}
			return
		}
	}
	return
}

// ---------------------------------------------------------------------------------------------
// the commit callback

// commitCallback finds the function that applies one block: the one calling commitUpdates.
func commitCallback(r *Report) *ssa.Function {
	fn := r.Anchor("(*column.Txn).commit")
	if fn == nil {
		return nil
	}
	var cb *ssa.Function
	// the function handed to the latch loop (a literal, a named helper or a method value) …
	for _, c := range callsToDeep(fn, false, "(*column.Txn).rangeWrite") {
		cc, _, _ := callCommon(c.Inner)
		if len(cc.Args) > 1 {
			if f := asFunc(cc.Args[1]); f != nil && len(callsToDeep(originOf(f), false, "(*column.Txn).commitUpdates")) > 0 {
				cb = originOf(f)
			}
		}
	}
	// … or, failing that, whichever nested function applies the updates
	if cb == nil {
		withClosures(fn, func(f *ssa.Function) {
			if len(callsTo(f, false, "(*column.Txn).commitUpdates")) > 0 {
				cb = f
			}
		})
	}
	if cb == nil {
		r.Unresolve("the per-block commit callback (caller of commitUpdates inside Txn.commit)")
	}
	return cb
}

func isLoggerAppend(cc *ssa.CallCommon) bool {
	return cc.IsInvoke() && cc.Method.Name() == "Append" && isNamed(cc.Value.Type(), CommitPath, "Logger")
}
func isRecorderAppend(cc *ssa.CallCommon) bool {
	return calleeIs(cc, "(*commit.Log).Append")
}

// commitEvents enumerates every path through the commit callback (helpers inlined, both edges of
// every condition) and hands the visitor the sequence of apply/append events of the path.
func commitEvents(cb *ssa.Function, visit func(ev []pathEvent) bool) (bool, string) {
	cfg := pathCfg{leaf: func(ssa.Value) (string, bool, bool) { return "", false, false }, classify: func(ins ssa.Instruction) string {
		if cc, isDefer, isGo := callCommon(ins); cc != nil && !isDefer && !isGo {
			switch {
			case isLoggerAppend(cc):
				return "logger"
			case isRecorderAppend(cc):
				return "recorder"
			case calleeIs(cc, "(*column.Txn).commitUpdates"):
				return "upd"
			case calleeIs(cc, "(*column.Txn).commitMarkers"):
				return "mrk"
			}
		}
		return ""
	}}
	return evalPathsDeep(cb, cfg, func(_ map[string]bool, ev []pathEvent, _ *ssa.Return) bool { return visit(ev) })
}

// ruleCommitOrder: C11.order, C06.emitorder
func ruleCommitOrder(r *Report, withC11, withC06 bool) {
	cb := commitCallback(r)
	if cb == nil {
		return
	}
	mrk := callsToDeep(cb, false, "(*column.Txn).commitMarkers")
	if len(mrk) == 0 {
		r.Unresolve("call of commitMarkers in the commit callback")
		return
	}
	if withC11 {
		h := r.Rule("C11.order", "P", "within one block's critical section the column updates are applied before the row markers, so a row updated and deleted by one transaction ends with every presence bit, index bit and table entry cleared (buffers of different columns carry no mutual order; applying the delete first lets the put resurrect data on a dead row)", 1)
		ok, why := commitEvents(cb, func(ev []pathEvent) bool {
			seenM, seenU := false, false
			for _, e := range ev {
				switch e.Name {
				case "upd":
					if seenM {
						return false
					}
					seenU = true
				case "mrk":
					if !seenU {
						return false
					}
					seenM = true
				}
			}
			return true
		})
		_ = why
		h.Check(ok, fnName(cb), r.P.InstrPos(mrk[0].Inner), "commitUpdates ≺ commitMarkers on every path", "row markers are applied before the column updates of the same block: a put and a delete of one row in one transaction leave the value, its index bit and its table entries behind for the next occupant of the offset")
	}
	if withC06 {
		h := r.Rule("C06.emitorder", "P", "a block's commit is emitted (logger, recorder) only after its updates and markers were applied, i.e. after merges were rewritten to puts", 2)
		apps := callsWhereDeep(cb, func(_ ssa.Instruction, cc *ssa.CallCommon) bool { return isLoggerAppend(cc) || isRecorderAppend(cc) })
		if len(apps) == 0 {
			h.Unknown(fnName(cb)+"/appends", r.P.Pos(cb.Pos()), "no Append call recognised in the commit callback")
		}
		done := map[string]bool{}
		for _, a := range apps {
			cc, _, _ := callCommon(a.Inner)
			kind := "logger"
			if isRecorderAppend(cc) {
				kind = "recorder"
			}
			if done[kind] {
				continue
			}
			done[kind] = true
			ok, _ := commitEvents(cb, func(ev []pathEvent) bool {
				seenApp, seenU := false, false
				for _, e := range ev {
					switch e.Name {
					case "upd":
						if seenApp {
							return false
						}
						seenU = true
					case "mrk":
						if seenApp {
							return false
						}
					case kind:
						if !seenU {
							return false
						}
						seenApp = true
					}
				}
				return true
			})
			h.Check(ok, fnName(cb)+"/"+kind, r.P.InstrPos(a.Inner), "apply ≺ append on every path", "the commit is appended before the block's updates/markers are applied: consumers receive merge deltas or miss the row changes")
		}
	}
}

// ruleEmitOnce: C15.once — evaluated over all valuations of the guards.
func ruleEmitOnce(r *Report) {
	h := r.Rule("C15.once", "P", "per block: exactly one logger append iff rows changed or a column was updated (and a logger is set), exactly one recorder append iff additionally a snapshot is recording, none otherwise; decided by enumerating every valuation of the guards over the callback's control-flow graph", 2)
	cb := commitCallback(r)
	if cb == nil {
		return
	}
	isChangedRows := func(v ssa.Value) bool {
		c, ok := extractOf(norm(v), 1)
		return ok && calleeIs(&c.Call, "(*column.Txn).findMarkers")
	}
	leaf := func(cond ssa.Value) (string, bool, bool) {
		if isChangedRows(cond) {
			return "changedRows", false, true
		}
		if c, ok := extractOf(norm(cond), 0); ok && calleeIs(&c.Call, "(*column.Txn).commitUpdates") {
			return "updated", false, true
		}
		if c, ok := extractOf(norm(cond), 1); ok && calleeIs(&c.Call, "(*column.Collection).isSnapshotting") {
			return "recording", false, true
		}
		if x, nonNil, ok := nilTest(cond); ok {
			if fr, ok := loadedField(norm(x)); ok && fr.Struct == "column.Txn" && fr.Field == "logger" {
				return "logger", !nonNil, true
			}
			// the recorder returned by isSnapshotting is non-nil exactly when recording
			if c, ok := extractOf(norm(x), 0); ok && calleeIs(&c.Call, "(*column.Collection).isSnapshotting") {
				return "recording", !nonNil, true
			}
		}
		return "", false, false
	}
	cfg := pathCfg{leaf: leaf, names: []string{"changedRows", "updated", "recording", "logger"}, classify: func(ins ssa.Instruction) string {
		if cc, _, _ := callCommon(ins); cc != nil {
			switch {
			case isLoggerAppend(cc):
				return "logger"
			case isRecorderAppend(cc):
				return "recorder"
			case calleeIs(cc, "(*column.Txn).commitUpdates"):
				return "apply"
			}
		}
		return ""
	}}
	okAll, why := evalPathsDeep(cb, cfg, func(as map[string]bool, ev []pathEvent, _ *ssa.Return) bool {
		changed := as["changedRows"] || as["updated"]
		wantL, wantR := 0, 0
		if changed && as["logger"] {
			wantL = 1
		}
		if changed && as["recording"] {
			wantR = 1
		}
		return countEvents(ev, "logger") == wantL && countEvents(ev, "recorder") == wantR && countEvents(ev, "apply") == 1
	})
	if okAll {
		h.OK(fnName(cb), r.P.Pos(cb.Pos()), "16 guard valuations × all paths (helpers inlined): appends as required")
	} else {
		h.Bad(fnName(cb), r.P.Pos(cb.Pos()), "for some path of the commit callback the number of logger/recorder appends differs from what the block's changes require ("+why+")")
	}
	// changedRows is findMarkers' second result; markers applied iff changedRows
	commit := r.Anchor("(*column.Txn).commit")
	if commit != nil {
		// some branch condition of the callback (deep) is findMarkers' second result, and the call of
		// commitMarkers is guarded by it
		ok := false
		for _, f := range deepFuncs(cb) {
			for _, b := range f.Blocks {
				if iff, isIf := b.Instrs[len(b.Instrs)-1].(*ssa.If); isIf {
					for _, lf := range condLeaves(iff.Cond) {
						if isChangedRows(lf) {
							ok = true
						}
					}
				}
			}
		}
		h.Check(ok, "(*column.Txn).commit/changedRows", r.P.Pos(commit.Pos()), "changedRows = findMarkers().ok", "the flag that decides whether rows changed is not the result of findMarkers")
	}
	// commitUpdates reports "some column was updated": its result starts false and can only become true
	if cu := r.P.Fn("(*column.Txn).commitUpdates"); cu != nil {
		mono := true
		seen := map[ssa.Value]bool{}
		var walk func(v ssa.Value, fromEntry bool)
		walk = func(v ssa.Value, fromEntry bool) {
			if v == nil || seen[v] {
				return
			}
			seen[v] = true
			switch x := v.(type) {
			case *ssa.Const:
				if x.Value != nil && x.Value.String() == "false" && !fromEntry {
					mono = false
				}
			case *ssa.Phi:
				for i, e := range x.Edges {
					walk(e, x.Block().Preds[i] == cu.Blocks[0])
				}
			case *ssa.UnOp:
				// named result captured by a closure: a cell; every store into it, here and in closures
				if al, ok := x.X.(*ssa.Alloc); ok && x.Op == token.MUL {
					first := true
					for _, ref := range *al.Referrers() {
						switch y := ref.(type) {
						case *ssa.Store:
							if y.Addr == ssa.Value(al) {
								walk(y.Val, first && y.Block() == cu.Blocks[0])
								first = false
							}
						case *ssa.MakeClosure:
							cf := y.Fn.(*ssa.Function)
							for i, b := range y.Bindings {
								if b == ssa.Value(al) {
									for _, r2 := range *cf.FreeVars[i].Referrers() {
										if st, isSt := r2.(*ssa.Store); isSt {
											walk(st.Val, false)
										}
									}
								}
							}
						}
					}
				} else {
					mono = false
				}
			default:
				mono = false
			}
		}
		for _, ret := range returnsOf(cu) {
			for _, v := range cellStoresBefore(ret) {
				walk(v, false)
			}
		}
		h.Check(mono, "(*column.Txn).commitUpdates/updated", r.P.Pos(cu.Pos()), "result only goes from false to true", "commitUpdates' result can be set back to false while the buffers are scanned: a block whose last buffer has nothing for it is applied but reported as unchanged, and its commit is never emitted")
	}
	// once per dirty block: the callback is invoked by rangeWrite exactly once per iteration
	rw := r.Anchor("(*column.Txn).rangeWrite")
	if rw != nil {
		n, inLoop := 0, false
		var site ssa.Instruction
		for _, f := range deepFuncs(rw) {
			allInstrs(f, func(ins ssa.Instruction) {
				cc, _, _ := callCommon(ins)
				if cc == nil || cc.StaticCallee() != nil || cc.IsInvoke() {
					return
				}
				if _, isB := cc.Value.(*ssa.Builtin); isB {
					return
				}
				if asFunc(cc.Value) != nil {
					return
				}
				// the delegate: rangeWrite's own function-typed parameter, not a hook read from the
				// collection's options
				if !isDelegateOf(rw, cc.Value) {
					return
				}
				n++
				site = ins
				if reachAvoiding(ins.Block(), ins.Block(), nil, nil) {
					inLoop = true
				}
			})
			// a helper that invokes the callback must itself be called once, outside any loop
			if f != rw && f.Parent() == nil && len(userCallIn(f)) > 0 {
				if ci := uniqueCallOf(f); ci == nil {
					inLoop = true
				} else if b := ci.Block(); reachAvoiding(b, b, nil, nil) {
					inLoop = true
				}
			}
		}
		h.Check(n == 1 && !inLoop, "(*column.Txn).rangeWrite/once", r.P.InstrPos(site), "one callback invocation per dirty block", fmt.Sprintf("rangeWrite invokes its callback %d times per dirty block (loop: %v)", n, inLoop))
	}
}

// ruleDirty: C15.dirty — dirty blocks come from the buffers' block headers.
func ruleDirty(r *Report) {
	h := r.Rule("C15.dirty", "P", "the set of blocks a commit visits is exactly the set named in the headers of its buffers: commit() marks Txn.dirty from RangeChunks over every update buffer, and rangeWrite iterates Txn.dirty", 2)
	commit := r.Anchor("(*column.Txn).commit")
	if commit == nil {
		return
	}
	// RangeChunks call inside a loop over txn.updates with a closure that sets Txn.dirty
	ok := false
	var pos ssa.Instruction
	for _, dc := range callsToDeep(commit, false, "(*commit.Buffer).RangeChunks") { // the loop may sit in a helper
		c := dc.Inner
		call, isCall := c.(*ssa.Call)
		if !isCall {
			continue
		}
		pos = c
		// receiver: element of txn.updates
		elemOK := false
		if ld, isLd := call.Call.Args[0].(*ssa.UnOp); isLd {
			if ia, isIA := ld.X.(*ssa.IndexAddr); isIA {
				if fr, isF := loadedField(ia.X); isF && fr.Struct == "column.Txn" && fr.Field == "updates" {
					elemOK = true
				}
			}
		}
		inLoop := reachAvoiding(c.Block(), c.Block(), nil, nil)
		setsDirty := false
		if cf := asFunc(call.Call.Args[1]); cf != nil {
			for _, s := range callsWhere(cf, func(_ ssa.Instruction, cc *ssa.CallCommon) bool {
				return methodOn(cc, "github.com/kelindar/bitmap", "Bitmap", "Set")
			}) {
				cc, _, _ := callCommon(s)
				if fr, isF := fieldOf(cc.Args[0]); isF && fr.Struct == "column.Txn" && fr.Field == "dirty" && sameExpr(cc.Args[1], cbParam(cf, 0)) {
					setsDirty = true
				}
			}
		}
		if elemOK && inLoop && setsDirty {
			ok = true
		}
	}
	h.Check(ok, "(*column.Txn).commit/mark", r.P.InstrPos(pos), "dirty := ∪ headers(updates)", "commit() does not mark the dirty blocks from the block headers of every update buffer")
	rw := r.Anchor("(*column.Txn).rangeWrite")
	if rw != nil {
		ok := false
		for _, c := range callsWhere(rw, func(_ ssa.Instruction, cc *ssa.CallCommon) bool {
			return methodOn(cc, "github.com/kelindar/bitmap", "Bitmap", "Range")
		}) {
			cc, _, _ := callCommon(c)
			if fr, isF := loadedField(cc.Args[0]); isF && fr.Struct == "column.Txn" && fr.Field == "dirty" {
				ok = true
			}
		}
		h.Check(ok, "(*column.Txn).rangeWrite/iterate", r.P.Pos(rw.Pos()), "iterates Txn.dirty", "rangeWrite does not iterate the transaction's dirty-block set")
	}
	// the pooled transaction starts with an empty (zeroed) dirty set
	checkReset(r, h)
}

// ruleEmitFields: C06.emitfields
func ruleEmitFields(r *Report) {
	h := r.Rule("C06.emitfields", "def-use", "every emitted Commit carries ID = the id drawn for this block, Chunk = this block, Updates = the transaction's buffers", 6)
	cb := commitCallback(r)
	if cb == nil {
		return
	}
	apps := callsWhereDeep(cb, func(_ ssa.Instruction, cc *ssa.CallCommon) bool { return isLoggerAppend(cc) || isRecorderAppend(cc) })
	for _, dc := range apps {
		a := dc.Inner
		cc, _, _ := callCommon(a)
		kind := "logger"
		if isRecorderAppend(cc) {
			kind = "recorder"
		}
		arg := cc.Args[len(cc.Args)-1]
		fields := map[string]ssa.Value{}
		if ld, ok := arg.(*ssa.UnOp); ok {
			if al, ok := ld.X.(*ssa.Alloc); ok {
				for _, ref := range *al.Referrers() {
					if fa, ok := ref.(*ssa.FieldAddr); ok {
						fr, _ := fieldOf(fa)
						for _, r2 := range *fa.Referrers() {
							if st, ok := r2.(*ssa.Store); ok && st.Addr == fa {
								fields[fr.Field] = st.Val
							}
						}
					}
				}
			}
		}
		var idPar, chunkPar ssa.Value
		for _, par := range cb.Params {
			if isNamed(par.Type(), CommitPath, "Chunk") {
				chunkPar = par
			} else if b, ok := par.Type().Underlying().(*types.Basic); ok && b.Kind() == types.Uint64 {
				idPar = par
			}
		}
		h.Check(fields["ID"] != nil && idPar != nil && sameExpr(fields["ID"], idPar), kind+"/ID", r.P.InstrPos(a), "ID = id drawn for the block", "the emitted commit's ID is not the id drawn for this block")
		h.Check(fields["Chunk"] != nil && chunkPar != nil && sameExpr(fields["Chunk"], chunkPar), kind+"/Chunk", r.P.InstrPos(a), "Chunk = this block", "the emitted commit's Chunk is not the block being committed")
		updOK := false
		if v := fields["Updates"]; v != nil {
			if fr, ok := loadedField(v); ok && fr.Struct == "column.Txn" && fr.Field == "updates" {
				updOK = true
			}
		}
		h.Check(updOK, kind+"/Updates", r.P.InstrPos(a), "Updates = txn.updates", "the emitted commit does not carry the transaction's update buffers")
	}
}

// ---------------------------------------------------------------------------------------------
// C02

func ruleQueryPaths(r *Report) {
	h := r.Rule("C02.query", "P", "Collection.Query: on the edge where the callback returned an error rollback is called and commit is not, on the nil edge commit is called and rollback is not, the transaction is released on both; rollback and commit reach reset on every exit; reset releases every buffer and truncates updates, columns and dirty", 6)
	q := r.Anchor("(*column.Collection).Query")
	if q == nil {
		return
	}
	// the callback: dynamic call of the function parameter
	var cb *ssa.Call
	allInstrs(q, func(ins ssa.Instruction) {
		if c, ok := ins.(*ssa.Call); ok && c.Call.StaticCallee() == nil && !c.Call.IsInvoke() {
			if _, isB := c.Call.Value.(*ssa.Builtin); !isB {
				cb = c
			}
		}
	})
	if cb == nil {
		h.Unknown("callback", r.P.Pos(q.Pos()), "call of the transaction body not recognised")
		return
	}
	var errSucc, okSucc *ssa.BasicBlock
	for _, b := range q.Blocks {
		iff, ok := b.Instrs[len(b.Instrs)-1].(*ssa.If)
		if !ok {
			continue
		}
		if x, nonNil, ok := nilTest(iff.Cond); ok && sameExpr(throughCell(x), cb) {
			if nonNil {
				errSucc, okSucc = b.Succs[0], b.Succs[1]
			} else {
				errSucc, okSucc = b.Succs[1], b.Succs[0]
			}
		}
	}
	if errSucc == nil {
		h.Unknown("branch", r.P.InstrPos(cb), "test of the callback's error not recognised")
		return
	}
	isCall := func(name string) func(ssa.Instruction) bool {
		return func(ins ssa.Instruction) bool {
			cc, _, isGo := callCommon(ins)
			return cc != nil && !isGo && calleeIs(cc, name)
		}
	}
	anyReach := func(from *ssa.BasicBlock, pred func(ssa.Instruction) bool) bool {
		seen := map[*ssa.BasicBlock]bool{}
		work := []*ssa.BasicBlock{from}
		for len(work) > 0 {
			b := work[len(work)-1]
			work = work[:len(work)-1]
			if seen[b] {
				continue
			}
			seen[b] = true
			if blockHas(b, 0, pred) {
				return true
			}
			work = append(work, b.Succs...)
		}
		return false
	}
	p1, _ := mustPassToReturn(errSucc, 0, isCall("(*column.Txn).rollback"))
	h.Check(p1 && !anyReach(errSucc, isCall("(*column.Txn).commit")), "error-edge", r.P.InstrPos(cb), "error ⇒ rollback, never commit", "on the path where the transaction body returned an error, rollback is not called on every path or commit can be reached")
	p2, _ := mustPassToReturn(okSucc, 0, isCall("(*column.Txn).commit"))
	h.Check(p2 && !anyReach(okSucc, isCall("(*column.Txn).rollback")), "nil-edge", r.P.InstrPos(cb), "nil ⇒ commit, never rollback", "on the path where the transaction body returned nil, commit is not called on every path or rollback can be reached")
	p3, _ := mustPassToReturn(errSucc, 0, isCall("(*column.txnPool).release"))
	p4, _ := mustPassToReturn(okSucc, 0, isCall("(*column.txnPool).release"))
	for _, d := range callsTo(q, true, "(*column.txnPool).release") {
		if _, isDefer := d.(*ssa.Defer); isDefer && d.Block().Dominates(errSucc) && d.Block().Dominates(okSucc) {
			p3, p4 = true, true // registered before the branch: runs on every exit
		}
	}
	h.Check(p3 && p4, "release", r.P.InstrPos(cb), "transaction released on both edges", "the transaction is not released to the pool on every path")
	// … and exactly once: a transaction put into the pool twice is handed to two callers
	once, why := evalPaths(q, func(ssa.Value) (string, bool) { return "", false }, nil, func(_ map[string]bool, path []*ssa.BasicBlock) bool {
		n := 0
		for _, b := range path {
			for _, ins := range b.Instrs {
				cc, _, isGo := callCommon(ins)
				if cc != nil && !isGo && calleeIs(cc, "(*column.txnPool).release") {
					n++ // a Defer on the path runs once at the exit, a Call runs where it stands
				}
			}
		}
		return n == 1
	})
	_ = why
	// nothing touches the transaction after it went back to the pool
	useAfter := false
	var txnVal ssa.Value
	for _, c := range callsTo(q, false, "(*column.txnPool).acquire") {
		txnVal = c.(*ssa.Call)
	}
	for _, rel := range callsTo(q, false, "(*column.txnPool).release") {
		allInstrs(q, func(ins ssa.Instruction) {
			if ins == rel || !canReach(rel, ins) {
				return
			}
			for _, op := range ins.Operands(nil) {
				if *op != nil && txnVal != nil && sameExpr(*op, txnVal) {
					if cc, _, _ := callCommon(ins); cc != nil && calleeIs(cc, "(*column.txnPool).release") {
						continue
					}
					useAfter = true
				}
			}
		})
	}
	h.Check(!useAfter && txnVal != nil, "no-use-after-release", r.P.InstrPos(cb), "the transaction is not touched after release", "Query uses the transaction after releasing it to the pool: another caller may already own it")
	h.Check(once, "release-once", r.P.InstrPos(cb), "exactly one release on every path", "on some path the transaction is released to the pool more than once (or not at all): the pool then hands the same Txn to two concurrent callers")
	// the error edge returns the callback's error
	retOK := true
	for _, ret := range returnsOf(q) {
		vals := cellStoresBefore(ret)
		if errSucc.Dominates(ret.Block()) {
			if len(vals) != 1 || !sameExpr(throughCell(vals[0]), cb) {
				retOK = false
			}
		} else if okSucc.Dominates(ret.Block()) {
			if len(vals) != 1 || !isConstNil(vals[0]) {
				retOK = false
			}
		}
	}
	h.Check(retOK, "result", r.P.InstrPos(cb), "Query returns the body's error / nil", "Query does not return the transaction body's error on the error edge (or nil on the commit edge)")
	for _, name := range []string{"(*column.Txn).rollback", "(*column.Txn).commit"} {
		fn := r.Anchor(name)
		if fn == nil {
			continue
		}
		ok, _ := mustPassToReturn(fn.Blocks[0], 0, func(ins ssa.Instruction) bool {
			cc, _, isGo := callCommon(ins)
			return cc != nil && !isGo && calleeIs(cc, "(*column.Txn).reset")
		})
		h.Check(ok, name+"/reset", r.P.Pos(fn.Pos()), "reset on every exit", "an exit of "+name+" does not pass Txn.reset: buffers of this transaction leak into the next user of the pooled Txn")
	}
	checkReset(r, h)
}

// checkReset: Txn.reset really empties the pooled transaction.
func checkReset(r *Report, h *RuleH) {
	if reset := r.Anchor("(*column.Txn).reset"); reset != nil {
		trunc := map[string]bool{}
		clearDirty, release := false, false
		deepVisit(reset, func(ins, _ ssa.Instruction) { // statements may sit in unexported helpers
			if st, ok := ins.(*ssa.Store); ok {
				if fr, ok := fieldOf(st.Addr); ok && fr.Struct == "column.Txn" {
					if sl, ok := st.Val.(*ssa.Slice); ok {
						if hi, ok := constInt(sl.High); ok && hi == 0 {
							if f2, ok := loadedField(sl.X); ok && f2.Field == fr.Field {
								trunc[fr.Field] = true
							}
						}
					}
				}
			}
			if cc, _, _ := callCommon(ins); cc != nil {
				if methodOn(cc, "github.com/kelindar/bitmap", "Bitmap", "Clear") {
					if fr, ok := fieldOf(cc.Args[0]); ok && fr.Field == "dirty" {
						clearDirty = true
					}
				}
				if calleeIs(cc, "(*column.txnPool).releasePage") && reachAvoiding(ins.Block(), ins.Block(), nil, nil) {
					release = true
				}
			}
		})
		h.Check(trunc["updates"] && trunc["columns"] && clearDirty && release, "(*column.Txn).reset/fields", r.P.Pos(reset.Pos()), "updates, columns truncated; dirty cleared; every page released", "Txn.reset does not release every buffer and truncate updates, columns and dirty")
	}
}

// ruleEffectsBelowCommit: C02.effects / C02.emit / C19.rollback
func ruleEffectsBelowCommit(r *Report) {
	L := r.Shared.Lockset()
	h := r.Rule("C02.effects", "L (who-may-call)", "column storage is modified only below Txn.commit (or the index back-fill of CreateIndex/CreateSortIndex): no call path from any API root reaches a Column.Apply body without passing through commit; commits are appended to logger and recorder only below Txn.commit", 16)
	avoid := func(fn *ssa.Function) bool {
		switch fnName(fn) {
		case "(*column.Txn).commit", "(*column.Collection).CreateIndex", "(*column.Collection).CreateSortIndex":
			return true
		}
		return false
	}
	bodies := map[*ssa.Function]*applyBody{}
	for _, b := range applyBodies(r) {
		bodies[originOf(b.Fn)] = b
	}
	for _, b := range applyBodies(r) {
		target := originOf(b.Fn)
		w := L.ReachAvoiding(L.Roots, func(c *LCtx) bool { return originOf(c.Fn) == target || originOf(topFn(c.Fn)) == target }, avoid)
		if w != nil {
			o := h.Bad("apply/"+b.Name, r.P.Pos(b.Fn.Pos()), "a call path reaches this Apply body without passing through Txn.commit: changes become visible outside a commit (or survive a rollback)")
			o.Path = w.PathNames()
		} else {
			h.OK("apply/"+b.Name, r.P.Pos(b.Fn.Pos()), "only reachable below commit / back-fill")
		}
	}
	onlyCommit := func(fn *ssa.Function) bool { return fnName(fn) == "(*column.Txn).commit" }
	for _, name := range []string{"(*commit.Log).Append", "(commit.Channel).Append"} {
		w := L.ReachAvoiding(L.Roots, func(c *LCtx) bool { return fnName(c.Fn) == name && !c.IsRoot }, onlyCommit)
		if w != nil {
			o := h.Bad("emit/"+name, "-", "a commit can be appended on a call path that does not pass through Txn.commit (e.g. from rollback)")
			o.Path = w.PathNames()
		} else {
			h.OK("emit/"+name, "-", "only reachable below commit")
		}
	}
}

// ruleIsolation: KF2 — reservation of offsets in the shared fill list.
func ruleIsolation(r *Report) {
	L := r.Shared.Lockset()
	h := r.Rule("C02.isolation", "L (who-may-call)", "no bit is set in the collection's fill list — the set of live rows every reader clones — outside Txn.commit: an insert must not be visible to other readers or to a snapshot before its transaction commits", 1)
	type hit struct {
		ins ssa.Instruction
		s   *LSite
	}
	byFn := map[string]*hit{}
	okFns := map[string]ssa.Instruction{}
	for ins, ss := range L.At {
		cc, _, _ := callCommon(ins)
		if cc == nil || !methodOn(cc, "github.com/kelindar/bitmap", "Bitmap", "Set") {
			continue
		}
		fr, ok := fieldOf(cc.Args[0])
		if !ok || fr.Struct != "column.Collection" || fr.Field != "fill" {
			continue
		}
		n := fnName(ins.Parent())
		for i := range ss {
			if !pathHas(ss[i].Ctx, "(*column.Txn).commit") {
				if byFn[n] == nil {
					byFn[n] = &hit{ins, &ss[i]}
				}
			}
		}
		okFns[n] = ins
	}
	for _, n := range sortedKeys(okFns) {
		if b := byFn[n]; b != nil {
			o := h.Bad(n, r.P.InstrPos(b.ins), "sets a bit of the shared fill list outside commit: the row of an in-flight (possibly rolled-back) insert is counted, iterated and snapshotted by others")
			setWitness(o, b.s)
		} else {
			h.OK(n, r.P.InstrPos(okFns[n]), "below commit")
		}
	}
}

// ruleRelease: C02.release (FX8)
func ruleRelease(r *Report) {
	h := r.Rule("C02.release", "P+A", "every offset reserved by a transaction is released when it does not commit: a failing insert frees its offset and leaves no insert marker; rollback clears, under the exclusive collection mutex, the fill bits of the transaction's insert markers before recounting", 4)
	ruleFreeCallers(r)
	ruleReleaseRest(r, h)
}

// ruleFreeCallers (C02.release/free/caller/…): an offset is given back by the function that reserved
// it: Collection.free is called (through helpers) only by Txn.insert — a second release, by a caller
// that sees the error, hands the offset to another writer while the first release's protocol (marker,
// rollback) still owns it.
func ruleFreeCallers(r *Report) {
	h := r.Rule("C02.free", "who-may-call", "a reserved offset is given back by the insert that reserved it: Collection.free is called, through helpers, only by Txn.insert", 1)
	{
		var sites []ssa.Instruction
		for fn := range r.P.modFunc {
			if fn.Origin() != nil {
				continue
			}
			for _, c := range callsTo(fn, true, "(*column.Collection).free") {
				sites = append(sites, c)
			}
		}
		sort.Slice(sites, func(i, j int) bool { return sites[i].Pos() < sites[j].Pos() })
		for _, c := range sites {
			owner := topFn(c.Parent())
			for k := 0; k < 4 && isHelper(owner); k++ {
				ci := uniqueCallOf(owner)
				if ci == nil {
					break
				}
				owner = topFn(ci.Parent())
			}
			n := fnName(owner)
			h.Check(n == "(*column.Txn).insert", "caller/"+n, r.P.InstrPos(c), "released by the insert that reserved it", "Collection.free is called outside Txn.insert: the offset is released a second time (or by someone who did not reserve it) — free() hands it back at once, so another writer's committed row at that offset is un-filled or overwritten when the first owner's rollback or marker catches up")
		}
	}
}

func ruleReleaseRest(r *Report, h *RuleH) {
	ins := r.Anchor("(*column.Txn).insert")
	if ins != nil {
		next := callsToDeep(ins, false, "(*column.Collection).next")
		free := callsToDeep(ins, false, "(*column.Collection).free")
		var marker *deepCall
		for _, c := range callsToDeep(ins, false, "(*commit.Buffer).PutOperation") {
			c := c
			cc, _, _ := callCommon(c.Inner)
			if n, _ := normE(cc.Args[1], c.Env, false); n != nil {
				if op, ok := constInt(n); ok && op == opInsert {
					marker = &c
				}
			}
		}
		switch {
		case len(next) != 1 || len(free) == 0 || marker == nil:
			h.Unknown("(*column.Txn).insert/shape", r.P.Pos(ins.Pos()), "next/free/insert-marker calls not recognised")
		default:
			nextV, _ := next[0].Inner.(ssa.Value)
			// free(idx) with idx = next(), on the error edge of the row callback
			fcc, _, _ := callCommon(free[0].Inner)
			sameIdx := sameE(fcc.Args[1], free[0].Env, nextV, next[0].Env, 0)
			onErr := edgeGuarded(free[0].Site.Block(), func(c ssa.Value) (bool, bool) {
				_, nonNil, ok := nilTest(c)
				return ok, nonNil
			})
			h.Check(sameIdx && onErr, "(*column.Txn).insert/free", r.P.InstrPos(free[0].Inner), "failing insert frees the offset it reserved", "the failing-insert path does not free exactly the offset that was reserved")
			// marker must not be written on a path that continues to the failing exit
			leak := false
			for _, f := range free {
				if marker.Site == f.Site || canReach(marker.Site, f.Site) {
					leak = true
				}
			}
			// once the offset is released it is somebody else's: free() hands it back at once, not at
			// commit, so nothing is queued for it any more (a delete marker queued "to wipe what the
			// callback left" is applied to whichever row owns the offset when this transaction commits)
			var late *deepCall
			for _, c := range callsToDeep(ins, false, "(*commit.Buffer).PutOperation") {
				c := c
				cc, _, _ := callCommon(c.Inner)
				if !sameE(cc.Args[2], c.Env, nextV, next[0].Env, 0) {
					continue
				}
				for _, f := range free {
					if (c.Site.Block() == f.Site.Block() && instrIndex(f.Site) < instrIndex(c.Site)) || (c.Site.Block() != f.Site.Block() && canReach(f.Site, c.Site)) {
						late = &c
					}
				}
			}
			latePos := r.P.Pos(ins.Pos())
			if late != nil {
				latePos = r.P.InstrPos(late.Inner)
			}
			h.Check(late == nil, "(*column.Txn).insert/released-untouched", latePos, "nothing is queued for the offset after it was released", "a row marker is queued for the reserved offset after free() released it: free hands the offset back immediately, so when this transaction commits the marker is applied to the row another insert — of this or of another transaction — has placed there meanwhile (its values, its deadline and the row itself are wiped)")
			mcc, _, _ := callCommon(marker.Inner)
			h.Check(!leak && sameE(mcc.Args[2], marker.Env, nextV, next[0].Env, 0), "(*column.Txn).insert/marker", r.P.InstrPos(marker.Inner), "insert marker written only after the row callback succeeded", "the insert marker is buffered before the row callback ran: when the callback fails the freed offset still carries an insert marker (a committing transaction re-creates the row; a rollback cannot tell which offsets to release)")
		}
	}
	// KF3: what the failed row callback queued must not survive in a transaction that commits
	if ins != nil {
		free := callsTo(ins, false, "(*column.Collection).free")
		if len(free) > 0 {
			var truncates func(fn *ssa.Function, depth int) bool
			truncates = func(fn *ssa.Function, depth int) bool {
				if fn == nil || fn.Blocks == nil || depth > 3 || !r.P.InLib(fn) {
					return false
				}
				hit := false
				allInstrs(fn, func(i2 ssa.Instruction) {
					if st, ok := i2.(*ssa.Store); ok {
						if fr, ok := fieldOf(st.Addr); ok && fr.Struct == "commit.Buffer" && fr.Field == "buffer" {
							if _, isSl := st.Val.(*ssa.Slice); isSl {
								hit = true
							}
						}
					}
					if cc, _, _ := callCommon(i2); cc != nil && cc.StaticCallee() != nil && truncates(cc.StaticCallee(), depth+1) {
						hit = true
					}
				})
				return hit
			}
			ok, _ := mustPassToReturn(free[0].Block(), 0, func(i2 ssa.Instruction) bool {
				cc, _, isGo := callCommon(i2)
				return cc != nil && !isGo && cc.StaticCallee() != nil && !calleeIs(cc, "(*column.Collection).free") && truncates(cc.StaticCallee(), 0)
			})
			h.Check(ok, "(*column.Txn).insert/discard", r.P.InstrPos(free[0]), "operations queued by the failed callback are discarded", "a failing insert frees its offset but keeps the column writes its callback queued: if the transaction goes on to commit they are applied to the freed offset — onto whichever row another transaction inserted there meanwhile")
		}
	}
	rb := r.Anchor("(*column.Txn).rollback")
	if rb != nil {
		found := false
		var pos ssa.Instruction
		for _, f := range deepFuncs(rb) {
			for _, l := range FindArmLoops(r.P, f) {
				for _, e := range l.May(opInsert, "presence-clear") {
					if fr, ok := fieldOf(e.Target); ok && fr.Struct == "column.Collection" && fr.Field == "fill" {
						if l.Must(opInsert, "presence-clear") && len(l.May(opPut, "presence-clear")) == 0 && len(l.May(opDelete, "presence-clear")) == 0 {
							found = true
							pos = e.Ins
						}
					}
				}
			}
		}
		if found {
			h.OK("(*column.Txn).rollback/markers", r.P.InstrPos(pos), "Insert marker ⇒ fill bit cleared")
		} else {
			h.Bad("(*column.Txn).rollback/markers", r.P.Pos(rb.Pos()), "rollback does not release the offsets of the transaction's successful inserts: the rows stay reserved in the fill list (Count and iteration see phantom rows)")
		}
		// recount after
		rec := false
		deepVisit(rb, func(ins, _ ssa.Instruction) {
			if c, ok := ins.(*ssa.Call); ok && calleeIs(&c.Call, "sync/atomic.StoreUint64") {
				if fr, ok := fieldOf(c.Call.Args[0]); ok && fr.Field == "count" {
					rec = true
				}
			}
		})
		h.Check(rec, "(*column.Txn).rollback/recount", r.P.Pos(rb.Pos()), "count recomputed", "rollback does not recompute the row counter")
	}
}

// ruleReadersIgnoreBuffers: C02.readers
func ruleReadersIgnoreBuffers(r *Report) {
	L := r.Shared.Lockset()
	h := r.Rule("C02.readers", "L (who-may-call)", "point readers, filters, iteration and aggregates never decode a transaction buffer: no call path from a reading API root reaches commit.Reader.Next", 30)
	isReaderRoot := func(n string) bool {
		if strings.HasPrefix(n, "(column.Row).") {
			m := strings.TrimPrefix(n, "(column.Row).")
			return !strings.HasPrefix(m, "Set") && !strings.HasPrefix(m, "Merge")
		}
		for _, suf := range []string{").Get", ").Sum", ").Avg", ").Min", ").Max", ").TTL", ").ExpiresAt", ").Unmarshal"} {
			if strings.HasSuffix(n, suf) && strings.HasPrefix(n, "(column.r") {
				return true
			}
		}
		switch n {
		case "(*column.Txn).With", "(*column.Txn).Without", "(*column.Txn).Union", "(*column.Txn).WithUnion", "(*column.Txn).WithValue",
			"(*column.Txn).WithInt", "(*column.Txn).WithUint", "(*column.Txn).WithFloat", "(*column.Txn).WithString", "(*column.Txn).Count",
			"(*column.Txn).Index":
			return true
		}
		return false
	}
	for _, rc := range L.Roots {
		if !isReaderRoot(fnName(rc.Fn)) {
			continue
		}
		w := L.ReachAvoiding([]*LCtx{rc}, func(c *LCtx) bool { return fnName(c.Fn) == "(*commit.Reader).Next" }, nil)
		if w != nil {
			o := h.Bad(fnName(rc.Fn), "-", "a reading API decodes a transaction buffer: its result depends on uncommitted changes")
			o.Path = w.PathNames()
		} else {
			h.OK(fnName(rc.Fn), "-", "")
		}
	}
}

// ---------------------------------------------------------------------------------------------
// C01.grow

func ruleGrow(r *Report) {
	L := r.Shared.Lockset()
	h := r.Rule("C01.grow", "P+def-use", "every column covers every offset before it is written: commit grows fill list and all registered columns up to the last dirty block (under the exclusive collection mutex) before the latch loop; a column created later is grown to the extent of the fill list, not to the row count", 4)
	commit := r.Anchor("(*column.Txn).commit")
	if commit != nil {
		cap := callsTo(commit, false, "(*column.Txn).commitCapacity")
		rw := callsTo(commit, false, "(*column.Txn).rangeWrite")
		ok := len(cap) == 1 && len(rw) == 1
		if ok {
			ok = canReach(cap[0], rw[0]) && !canReach(rw[0], cap[0])
			// guarded only by dirty.Max()'s ok, argument = that maximum
			cc, _, _ := callCommon(cap[0])
			if c, isEx := extractOf(cc.Args[1], 0); !isEx || !methodOn(&c.Call, "github.com/kelindar/bitmap", "Bitmap", "Max") {
				ok = false
			} else if fr, isF := loadedField(c.Call.Args[0]); !isF || fr.Field != "dirty" {
				ok = false
			}
		}
		var pos ssa.Instruction
		if len(cap) > 0 {
			pos = cap[0]
		}
		h.Check(ok, "(*column.Txn).commit/capacity-first", r.P.InstrPos(pos), "commitCapacity(max dirty block) ≺ rangeWrite", "commit does not grow the collection to the last dirty block before it starts applying")
	}
	cc := r.Anchor("(*column.Txn).commitCapacity")
	if cc != nil {
		var growFill, growCols, maxOK bool
		withClosures(cc, func(f *ssa.Function) {
			allInstrs(f, func(ins ssa.Instruction) {
				c, _, _ := callCommon(ins)
				if c == nil {
					return
				}
				isMax := func(v ssa.Value) bool {
					v = freeVarValue(norm(v))
					call, ok := v.(*ssa.Call)
					return ok && calleeIs(&call.Call, "(commit.Chunk).Max") && sameExpr(call.Call.Args[0], cc.Params[1])
				}
				if methodOn(c, "github.com/kelindar/bitmap", "Bitmap", "Grow") {
					if fr, ok := fieldOf(c.Args[0]); ok && fr.Struct == "column.Collection" && fr.Field == "fill" && isMax(c.Args[1]) {
						growFill = true
					}
				}
				if calleeIs(c, "(*column.column).Grow") && f != cc && isMax(c.Args[1]) {
					growCols = true
				}
				if calleeIs(c, "(commit.Chunk).Max") {
					if sameExpr(c.Args[0], cc.Params[1]) {
						maxOK = true
					}
				}
			})
		})
		viaRange := len(callsTo(cc, false, "(*column.columns).Range")) == 1
		h.Check(growFill && growCols && maxOK && viaRange, "(*column.Txn).commitCapacity/all", r.P.Pos(cc.Pos()), "fill list and every registry entry grown to last.Max()", "commitCapacity does not grow the fill list and every registered column to the end of the last dirty block")
		// under Collection.lock:W
		bad := false
		for ins, ss := range L.At {
			if topFn(ins.Parent()) != cc {
				continue
			}
			c, _, _ := callCommon(ins)
			if c == nil || !calleeIs(c, "(*column.column).Grow") {
				continue
			}
			if worstSite(ss, func(h heldSet) bool { return h.hasW("Collection.lock") }) != nil {
				bad = true
			}
		}
		h.Check(!bad, "(*column.Txn).commitCapacity/locked", r.P.Pos(cc.Pos()), "columns grown under Collection.lock:W", "columns are grown without the exclusive collection mutex")
	}
	create := r.Anchor("(*column.Collection).CreateColumn")
	if create != nil {
		var grow ssa.Instruction
		allInstrs(create, func(ins ssa.Instruction) {
			if c, _, _ := callCommon(ins); c != nil && c.IsInvoke() && c.Method.Name() == "Grow" {
				grow = ins
			}
		})
		if grow == nil {
			h.Unknown("(*column.Collection).CreateColumn/grow", r.P.Pos(create.Pos()), "Grow of the new column not recognised")
		} else {
			c, _, _ := callCommon(grow)
			dep := dependsOn(c.Args[0], func(v ssa.Value) bool {
				if fr, ok := fieldOf(v); ok && fr.Struct == "column.Collection" && (fr.Field == "fill" || fr.Field == "commits") {
					return true
				}
				if call, ok := v.(*ssa.Call); ok && calleeIs(&call.Call, "(*column.Collection).chunks") {
					return true
				}
				return false
			}, 12)
			// where the extent enters through `if size > capacity { capacity = size }`, the branch has
			// the polarity of a maximum (the other way round it is a minimum: the column ends up
			// smaller than the fill list whenever that matters)
			isExtent := func(v ssa.Value) bool {
				return dependsOn(v, func(z ssa.Value) bool {
					fr, ok := fieldOf(z)
					return ok && fr.Struct == "column.Collection" && fr.Field == "fill"
				}, 8)
			}
			if phi, isPhi := strip(c.Args[0]).(*ssa.Phi); isPhi && dep && len(phi.Edges) == 2 {
				for i, e := range phi.Edges {
					if isExtent(e) && !isExtent(phi.Edges[1-i]) && !takenWhenLarger(phi, i) {
						dep = false
					}
				}
			}
			h.Check(dep, "(*column.Collection).CreateColumn/extent", r.P.InstrPos(grow), "new column grown to the fill list's extent", "a column created after rows exist is grown to max(count, Capacity), not to the extent of the fill list: in a sparse collection rows live at offsets beyond the count and the first write to the new column there indexes out of range")
		}
		// grown before it is published
		stores := callsTo(create, false, "(*column.columns).Store")
		ok := grow != nil && len(stores) == 1 && canReach(grow, stores[0]) && !canReach(stores[0], grow)
		h.Check(ok, "(*column.Collection).CreateColumn/grow-before-publish", r.P.Pos(create.Pos()), "Grow ≺ registry Store", "the new column is published before it is grown")
	}
}

// ---------------------------------------------------------------------------------------------
// commitUpdates: C01.replay, C03.twopass

func ruleCommitUpdates(r *Report) {
	defer ruleBufferLoopNoExit(r)
	defer ruleLookupUnderLatch(r)
	h := r.Rule("C03.twopass", "P", "commitUpdates, per non-empty buffer of a known column: the column itself is applied for the block being committed first; then — in a fresh pass over the same buffer and block — every computed column (cols[1:]); the wrapper rewinds the reader before each Apply", 5)
	cu := r.Anchor("(*column.Txn).commitUpdates")
	if cu == nil {
		return
	}
	type pass struct {
		dc      deepCall
		main    bool
		rest    bool
		bufOK   bool
		chunkOK bool
	}
	var passes []*pass
	chunkPar := cu.Params[1]
	for _, dc := range callsToDeep(cu, false, "(*commit.Reader).Range") {
		cc, _, _ := callCommon(dc.Inner)
		p := &pass{dc: dc}
		// buffer argument: an element of txn.updates (the loop variable)
		if ld, ok := norm(cc.Args[1]).(*ssa.UnOp); ok {
			if ia, ok := ld.X.(*ssa.IndexAddr); ok {
				if fr, ok := loadedField(ia.X); ok && fr.Struct == "column.Txn" && fr.Field == "updates" {
					p.bufOK = true
				}
			}
		}
		p.chunkOK = sameExpr(cc.Args[2], chunkPar)
		if cf := asFunc(cc.Args[3]); cf != nil {
			for _, f := range deepFuncs(cf) {
				for _, a := range callsTo(f, false, "(*column.column).Apply") {
					acc, _, _ := callCommon(a)
					ld, ok := norm(acc.Args[0]).(*ssa.UnOp)
					if !ok {
						continue
					}
					ia, ok := ld.X.(*ssa.IndexAddr)
					if !ok {
						continue
					}
					if idx, isC := constInt(ia.Index); isC && idx == 0 {
						p.main = true
						continue
					}
					inLoop := reachAvoiding(a.Block(), a.Block(), nil, nil)
					// for _, v := range columns[1:]
					if sl, isSl := norm(ia.X).(*ssa.Slice); isSl {
						if lo, isC := constInt(sl.Low); isC && lo == 1 && sl.High == nil && inLoop {
							p.rest = true
						}
					}
					// for i := 1; i < len(columns); i++ { columns[i] }
					if phi, isPhi := strip(ia.Index).(*ssa.Phi); isPhi && inLoop {
						from1, step := false, false
						for _, e := range phi.Edges {
							if c, isC := constInt(e); isC && c == 1 {
								from1 = true
							}
							if bo, isB := e.(*ssa.BinOp); isB && bo.Op == token.ADD && bo.X == ssa.Value(phi) {
								if one, isC := constInt(bo.Y); isC && one == 1 {
									step = true
								}
							}
						}
						bound := false
						for _, ref := range *phi.Referrers() {
							if bo, isB := ref.(*ssa.BinOp); isB {
								op, x, y, _, _ := canonBin(bo)
								if op == token.LSS && x == ssa.Value(phi) {
									if ln, isL := y.(*ssa.Call); isL {
										if bi, isBI := ln.Call.Value.(*ssa.Builtin); isBI && bi.Name() == "len" && sameExpr(ln.Call.Args[0], ia.X) {
											bound = true
										}
									}
								}
							}
						}
						if from1 && step && bound {
							p.rest = true
						}
					}
				}
			}
		}
		passes = append(passes, p)
	}
	var mainP, restP *pass
	for _, p := range passes {
		if p.main && mainP == nil {
			mainP = p
		}
		if p.rest {
			restP = p
		}
	}
	h.Check(mainP != nil && mainP.bufOK && mainP.chunkOK, "main-pass", r.P.Pos(cu.Pos()), "cols[0].Apply over (buffer, block)", "the column itself is not applied for the buffer and block being committed")
	h.Check(restP != nil && restP.bufOK && restP.chunkOK && restP != mainP, "computed-pass", r.P.Pos(cu.Pos()), "second Reader.Range over the same buffer and block visits all of cols[1:]", "computed columns (indexes, triggers, sorted indexes) do not get their own pass over the same buffer and block visiting all of cols[1:]")
	if mainP != nil && restP != nil {
		h.Check(deepPrecedes(mainP.dc, restP.dc) && !deepPrecedes(restP.dc, mainP.dc), "order", r.P.InstrPos(restP.dc.Inner), "main pass ≺ computed pass", "computed columns are applied before the column itself: they see merge deltas instead of final values")
	}
	// skip conditions of the buffer loop: only empty / row buffer / unknown column
	ok, why := skipConditions(cu)
	h.Check(ok, "skip", r.P.Pos(cu.Pos()), "buffers skipped only when empty, the row buffer, or of an unknown column", "a buffer can be skipped by commitUpdates for another reason: "+why)
	if wr := r.Anchor("(*column.column).Apply"); wr != nil {
		// both may sit in a closure handed to a locking helper, or in a helper: compare them where
		// they stand if that is one function, at their sites in the wrapper otherwise
		type at struct{ inner, site ssa.Instruction }
		var rews, apps []at
		deepVisit(wr, func(ins, site ssa.Instruction) {
			c, _, _ := callCommon(ins)
			if c == nil {
				return
			}
			if calleeIs(c, "(*commit.Reader).Rewind") {
				rews = append(rews, at{ins, site})
			}
			if c.IsInvoke() && c.Method.Name() == "Apply" && isNamed(c.Value.Type(), ModPath, "Column") {
				apps = append(apps, at{ins, site})
			}
		})
		before := false
		if len(rews) == 1 && len(apps) == 1 {
			if rews[0].inner.Parent() == apps[0].inner.Parent() {
				before = precedes(rews[0].inner, apps[0].inner)
			} else {
				before = rews[0].site != apps[0].site && precedes(rews[0].site, apps[0].site)
			}
		}
		h.Check(before, "(*column.column).Apply/rewind", r.P.Pos(wr.Pos()), "reader rewound before the column's Apply", "the wrapper does not rewind the reader before delegating: the second column applied to one reader sees no operations")
	}
}

// deepPrecedes: a is executed before b on every path to b (sites in the searched function, or —
// when both were found through the same call site — their positions inside the helper).
func deepPrecedes(a, b deepCall) bool {
	if a.Site != b.Site {
		return precedes(a.Site, b.Site)
	}
	if a.Inner.Parent() == b.Inner.Parent() {
		return precedes(a.Inner, b.Inner)
	}
	return false
}

// skipConditions: every branch condition in commitUpdates (and the helpers it uses) is built from
// the recognised skip tests only.
func skipConditions(cu *ssa.Function) (bool, string) {
	recognised := func(c ssa.Value) bool {
		if call, ok := extractOf(c, 0); ok && calleeIs(&call.Call, "(*commit.Buffer).IsEmpty") {
			return true
		}
		if ex, ok := c.(*ssa.Extract); ok && ex.Index == 1 {
			if call, ok := ex.Tuple.(*ssa.Call); ok && calleeIs(&call.Call, "(*column.columns).LoadWithIndex") {
				return true
			}
		}
		// the verdict of a helper of the loop (`if txn.commitBuffer(chunk, u) { updated = true }`): the
		// helper's own conditions are visited with the loop's
		if call, ok := c.(*ssa.Call); ok {
			if sc := call.Call.StaticCallee(); sc != nil && isHelper(sc) {
				return true
			}
		}
		if bo, ok := c.(*ssa.BinOp); ok {
			// u.Column == rowColumn
			for _, pair := range [][2]ssa.Value{{bo.X, bo.Y}, {bo.Y, bo.X}} {
				if s, ok := constString(pair[1]); ok && s == "row" && (bo.Op == token.EQL || bo.Op == token.NEQ) {
					if fr, ok := loadedField(pair[0]); ok && fr.Struct == "commit.Buffer" && fr.Field == "Column" {
						return true
					}
				}
			}
			// len(x) compared with a constant / loop bookkeeping
			for _, o := range []ssa.Value{bo.X, bo.Y} {
				if call, ok := strip(o).(*ssa.Call); ok {
					if b, ok := call.Call.Value.(*ssa.Builtin); ok && b.Name() == "len" {
						return true
					}
				}
				if _, isPhi := strip(o).(*ssa.Phi); isPhi {
					return true // induction variable of a range/index loop
				}
			}
		}
		return false
	}
	for _, f := range deepFuncs(cu) {
		if f.Parent() != nil {
			continue
		}
		for _, b := range f.Blocks {
			iff, ok := b.Instrs[len(b.Instrs)-1].(*ssa.If)
			if !ok {
				continue
			}
			for _, leaf := range condLeaves(iff.Cond) {
				if !recognised(leaf) {
					return false, "unrecognised condition in the buffer loop"
				}
			}
		}
	}
	return true, ""
}

// ---------------------------------------------------------------------------------------------
// C03.rowdelete, C03.register, C03.backfill, C03.order

func ruleRowDelete(r *Report) {
	h := r.Rule("C03.rowdelete", "P", "commitMarkers applies the marker buffer of the block to every registry entry (every column, index, trigger and sorted index is its own entry): columns.Range visits cols[0] of every entry and the callback applies (block, reader)", 3)
	cm := r.Anchor("(*column.Txn).commitMarkers")
	if cm == nil {
		return
	}
	ok := false
	var pos, perColumnSkip ssa.Instruction
	// the marker buffer and the block are commitMarkers' parameters of those types (wherever they stand)
	bufP, chunkP := paramOfType(cm, "commit", "Buffer"), paramOfType(cm, "commit", "Chunk")
	if bufP == nil || chunkP == nil {
		h.Bad("(*column.Txn).commitMarkers/apply-all", r.P.Pos(cm.Pos()), "commitMarkers is not handed the marker buffer and the block")
		return
	}
	for _, c := range callsTo(cm, false, "(*commit.Reader).Range") {
		cc, _, _ := callCommon(c)
		if !sameExpr(cc.Args[1], bufP) || !sameExpr(cc.Args[2], chunkP) {
			continue
		}
		f1 := asFunc(cc.Args[3])
		if f1 == nil {
			continue
		}
		for _, c2 := range callsTo(f1, false, "(*column.columns).Range") {
			cc2, _, _ := callCommon(c2)
			f2 := asFunc(cc2.Args[1])
			if f2 == nil {
				continue
			}
			for _, a := range callsTo(f2, false, "(*column.column).Apply") {
				acc, _, _ := callCommon(a)
				if sameExpr(acc.Args[0], cbParam(f2, 0)) {
					ok = true
					pos = a
					// … for every column: the per-column callback applies on every path (a test of the
					// block against the collection's extent, made after the fill list was updated,
					// skips the sweep for the very block the deletes emptied)
					if every, _ := mustPassToReturn(f2.Blocks[0], 0, func(i2 ssa.Instruction) bool { return i2 == a }); !every {
						perColumnSkip = a
					}
					if every, _ := mustPassToReturn(f1.Blocks[0], 0, func(i2 ssa.Instruction) bool { return i2 == c2 }); !every {
						perColumnSkip = c2
					}
				}
			}
		}
	}
	if perColumnSkip != nil {
		h.Bad("(*column.Txn).commitMarkers/apply-every-column", r.P.InstrPos(perColumnSkip), "the per-column callback of the marker sweep can return without applying the markers: the deletes of the block are not propagated to the columns (presence bits, index bits, keys, sorted entries stay; triggers are not told)")
	} else if ok {
		h.OK("(*column.Txn).commitMarkers/apply-every-column", r.P.InstrPos(pos), "applied on every path of the per-column callback")
	}
	h.Check(ok, "(*column.Txn).commitMarkers/apply-all", r.P.InstrPos(pos), "markers applied to every registry entry", "row markers are not applied to every registered column: deleted rows keep presence bits, index bits or table entries")
	if ok {
		// … on every path: the pass over the columns is unconditional, or skipped only under a flag
		// that can only go from false to true while the markers of the block are scanned
		var rangeCall ssa.Instruction
		for _, c := range callsTo(cm, false, "(*commit.Reader).Range") {
			cc, _, _ := callCommon(c)
			if f1 := asFunc(cc.Args[3]); f1 != nil && len(callsTo(f1, false, "(*column.columns).Range")) > 0 {
				rangeCall = c
			}
		}
		always, _ := mustPassToReturn(cm.Blocks[0], 0, func(ins ssa.Instruction) bool { return ins == rangeCall })
		if !always && rangeCall != nil {
			always = monotoneGuard(cm, rangeCall)
		}
		h.Check(always, "(*column.Txn).commitMarkers/apply-always", r.P.InstrPos(rangeCall), "the pass over the columns runs whenever the block has markers", "the pass that applies row markers to the columns can be skipped under a condition that is not a monotone \"a delete was seen\" flag: a block whose markers come in several runs keeps the keys, index bits and values of deleted rows")
	}
	if rg := r.Anchor("(*column.columns).Range"); rg != nil {
		// fn(v.cols[0]) inside a loop over the whole published slice
		ok := false
		allInstrs(rg, func(ins ssa.Instruction) {
			c, isCall := ins.(*ssa.Call)
			if !isCall || c.Call.StaticCallee() != nil || c.Call.IsInvoke() {
				return
			}
			if _, isB := c.Call.Value.(*ssa.Builtin); isB {
				return
			}
			if !reachAvoiding(ins.Block(), ins.Block(), nil, nil) {
				return
			}
			if ld, isLd := c.Call.Args[0].(*ssa.UnOp); isLd {
				if ia, isIA := ld.X.(*ssa.IndexAddr); isIA {
					if idx, isC := constInt(ia.Index); isC && idx == 0 {
						ok = true
					}
				}
			}
		})
		h.Check(ok, "(*column.columns).Range/every-entry", r.P.Pos(rg.Pos()), "visits cols[0] of every entry", "columns.Range does not hand cols[0] of every registry entry to its callback")
	}
}

func ruleRegister(r *Report) {
	h := r.Rule("C03.register", "S", "a computed column is registered both under its own name and in its target column's list (CreateIndex, CreateSortIndex, CreateTrigger) and removed from both (DropIndex, DropTrigger)", 5)
	for _, name := range []string{"(*column.Collection).CreateIndex", "(*column.Collection).CreateSortIndex", "(*column.Collection).CreateTrigger"} {
		fn := r.Anchor(name)
		if fn == nil {
			continue
		}
		own, target := false, false
		// the constructor call of the computed column and what it does with the two names
		var ctor *ssa.Call
		for _, c := range callsWhere(fn, func(_ ssa.Instruction, cc *ssa.CallCommon) bool {
			sc := cc.StaticCallee()
			return sc != nil && (sc.Name() == "newIndex" || sc.Name() == "newTrigger" || sc.Name() == "newSortIndex") && len(cc.Args) >= 2
		}) {
			ctor, _ = c.(*ssa.Call)
		}
		wrapperOwn, innerTarget := false, false
		if ctor != nil {
			wrapperOwn, innerTarget = computedCtorNames(originOf(ctor.Call.StaticCallee()))
			h.Check(innerTarget, name+"/target-name", r.P.InstrPos(ctor), "the computed column remembers its target's name", "the constructor of the computed column does not keep the target column's name (its second parameter) as the name Column() reports: the drop functions detach it from the wrong list, and it keeps receiving the target's updates after it was dropped")
		}
		for _, c := range callsToDeep(fn, false, "(*column.columns).Store") {
			cc, _, _ := callCommon(c.Inner)
			// Store(recv, name, main, index...)
			variadicEmpty := isConstNil(cc.Args[3])
			if c.same(cc.Args[1], fn.Params[1]) && variadicEmpty {
				own = true // Store(indexName, index)
			}
			if fr, isF := loadedField(cc.Args[1]); isF && variadicEmpty && fr.Struct == "column.column" && fr.Field == "name" && ctor != nil && wrapperOwn {
				// Store(derived.name, derived): the wrapper's name is the constructor's first parameter
				if sameExpr(fr.X, cc.Args[2]) && c.same(cc.Args[2], ctor) {
					own = true
				}
			}
			if c.same(cc.Args[1], fn.Params[2]) && !variadicEmpty {
				target = true // Store(columnName, column, index)
			}
		}
		// the computed column is created knowing its own name and its target's, in that order (Column()
		// is what the drop functions use to find the list to detach it from)
		for _, c := range callsWhere(fn, func(_ ssa.Instruction, cc *ssa.CallCommon) bool {
			sc := cc.StaticCallee()
			return sc != nil && (sc.Name() == "newIndex" || sc.Name() == "newTrigger" || sc.Name() == "newSortIndex") && len(cc.Args) >= 2
		}) {
			cc, _, _ := callCommon(c)
			if !sameExpr(cc.Args[0], fn.Params[1]) || !sameExpr(cc.Args[1], fn.Params[2]) {
				own = false
			}
		}
		h.Check(own && target, name, r.P.Pos(fn.Pos()), "stored under its own name and in the target's list", "the computed column is not registered both under its own name (row deletes reach it) and in the target column's list (updates reach it)")
	}
	for _, name := range []string{"(*column.Collection).DropIndex", "(*column.Collection).DropTrigger"} {
		fn := r.Anchor(name)
		if fn == nil {
			continue
		}
		di := callsToDeep(fn, false, "(*column.columns).DeleteIndex")
		dc := callsToDeep(fn, false, "(*column.columns).DeleteColumn")
		ok := len(di) == 1 && len(dc) == 1
		if ok {
			c1, _, _ := callCommon(di[0].Inner)
			c2, _, _ := callCommon(dc[0].Inner)
			ok = di[0].same(c1.Args[2], fn.Params[1]) && dc[0].same(c2.Args[1], fn.Params[1])
		}
		h.Check(ok, name, r.P.Pos(fn.Pos()), "removed from the target's list and from the registry", "dropping does not remove the computed column from both its target's list and the registry")
		if ok {
			// DeleteIndex finds the computed column through the registry (Load of its own name); where it does,
			// the registry entry has to be still there when it runs: detach first, unregister second.
			byName := false
			if callee := di[0].Inner.(ssa.CallInstruction).Common().StaticCallee(); callee != nil && len(callee.Params) > 2 {
				for _, l := range callsToDeep(callee, false, "(*column.columns).Load") {
					lc, _, _ := callCommon(l.Inner)
					if l.same(lc.Args[1], callee.Params[2]) {
						byName = true
					}
				}
			}
			a, b := di[0].Inner, dc[0].Inner
			if a.Parent() != b.Parent() {
				a, b = di[0].Site, dc[0].Site
			}
			h.Check(!byName || (a.Parent() == b.Parent() && precedes(a, b)), name+"/order", r.P.Pos(dc[0].Inner.Pos()), "detached from the target's list while its name still resolves", "the name is unregistered before DeleteIndex, which finds the computed column through that name: nothing is detached and the dropped trigger or index keeps receiving the target column's updates")
		}
	}
	ruleDeleteIndexBody(r)
}

func ruleBackfill(r *Report) {
	h := r.Rule("C03.backfill", "P", "index creation back-fills from every existing block: the loop starts at block 0 and runs to chunks(), snapshots the target column for that block and applies that snapshot to the new index for the same block", 2)
	for _, name := range []string{"(*column.Collection).CreateIndex", "(*column.Collection).CreateSortIndex"} {
		fn := r.Anchor(name)
		if fn == nil {
			continue
		}
		snapsD := callsToDeep(fn, false, "(*column.column).Snapshot")
		appsD := callsToDeep(fn, false, "(*column.column).Apply")
		seeksD := callsToDeep(fn, false, "(*commit.Reader).Seek")
		if len(snapsD) != 1 || len(appsD) != 1 || len(seeksD) != 1 {
			h.Bad(name, r.P.Pos(fn.Pos()), "snapshot/seek/apply of the back-fill loop not found exactly once")
			continue
		}
		snaps, apps, seeks := []ssa.Instruction{snapsD[0].Inner}, []ssa.Instruction{appsD[0].Inner}, []ssa.Instruction{seeksD[0].Inner}
		if snaps[0].Parent() != apps[0].Parent() || snaps[0].Parent() != seeks[0].Parent() {
			h.Bad(name, r.P.Pos(fn.Pos()), "snapshot, seek and apply of the back-fill loop are spread over several functions")
			continue
		}
		sc, _, _ := callCommon(snaps[0])
		ac, _, _ := callCommon(apps[0])
		kc, _, _ := callCommon(seeks[0])
		ok := true
		why := ""
		phi, isPhi := strip(sc.Args[1]).(*ssa.Phi)
		if !isPhi {
			ok, why = false, "block variable is not a loop variable"
		} else {
			init := false
			stepOK := false
			for _, e := range phi.Edges {
				if bo, isB := e.(*ssa.BinOp); isB && bo.Op == token.ADD && bo.X == ssa.Value(phi) {
					if one, isC := constInt(bo.Y); isC && one == 1 {
						stepOK = true
					}
				}
			}
			if !stepOK {
				ok, why = false, "the block counter does not advance by one"
			}
			for _, e := range phi.Edges {
				if c, isC := constInt(e); isC && c == 0 {
					init = true
				}
			}
			if !init {
				ok, why = false, "the loop does not start at block 0"
			}
			// bound: chunk < chunks()
			bound := false
			for _, ref := range *phi.Referrers() {
				var cmp *ssa.BinOp
				switch x := ref.(type) {
				case *ssa.BinOp:
					cmp = x
				case *ssa.Convert:
					for _, r2 := range *x.Referrers() {
						if b, isB := r2.(*ssa.BinOp); isB {
							cmp = b
						}
					}
				}
				if cmp != nil {
					if op, _, y, _, _ := canonBin(cmp); op == token.LSS {
						if c, isCall := norm(y).(*ssa.Call); isCall && calleeIs(&c.Call, "(*column.Collection).chunks") {
							bound = true
						}
					}
				}
			}
			if !bound {
				ok, why = false, "the loop bound is not chunks()"
			}
		}
		if !sameExpr(sc.Args[1], ac.Args[1]) {
			ok, why = false, "snapshot and apply use different blocks"
		}
		// what is snapshotted is the target column, what receives the snapshot is the new computed column
		var ctor *ssa.Call
		for _, c := range callsWhere(fn, func(_ ssa.Instruction, cc *ssa.CallCommon) bool {
			g := cc.StaticCallee()
			return g != nil && (g.Name() == "newIndex" || g.Name() == "newSortIndex") && len(cc.Args) >= 2
		}) {
			ctor, _ = c.(*ssa.Call)
		}
		if ctor != nil {
			if !appsD[0].same(ac.Args[0], ctor) {
				ok, why = false, "the snapshot of the block is not applied to the index that is being created"
			}
			if snapsD[0].same(sc.Args[0], ctor) {
				ok, why = false, "the block snapshot is taken of the new index itself, not of its target column"
			}
		}
		if !sameExpr(sc.Args[2], kc.Args[1]) || !sameExpr(kc.Args[0], ac.Args[2]) {
			ok, why = false, "the reader applied is not positioned on the snapshot buffer"
		}
		if !(canReach(snaps[0], seeks[0]) && canReach(seeks[0], apps[0])) {
			ok, why = false, "snapshot ≺ seek ≺ apply does not hold"
		}
		// … within one iteration: round the loop everything reaches everything
		if !(precedes(snaps[0], seeks[0]) && precedes(seeks[0], apps[0])) {
			ok, why = false, "the reader is positioned on the block's snapshot after it was applied (snapshot ≺ seek ≺ apply within one iteration)"
		}
		// Snapshot answers whether it wrote anything (false for an index): where that answer is
		// tested, the apply sits on its true edge
		if sv, isV := snaps[0].(ssa.Value); isV && ok {
			tested := false
			for _, ref := range *sv.Referrers() {
				switch ref.(type) {
				case *ssa.If, *ssa.UnOp:
					tested = true
				}
			}
			if tested && !edgeGuarded(apps[0].Block(), func(c ssa.Value) (bool, bool) {
				if strip(c) == sv {
					return true, true
				}
				return false, false
			}) {
				ok, why = false, "the snapshot is applied on the edge on which Snapshot reported that it wrote nothing"
			}
		}
		h.Check(ok, name, r.P.InstrPos(snaps[0]), "for block in [0, chunks()): snapshot ≺ seek ≺ apply", "back-fill of the new index is incomplete: "+why)
		// the index is in the registry before the first block is read: a commit that lands on a block the
		// loop has already passed finds the index registered and maintains it itself
		stores := callsToDeep(fn, false, "(*column.columns).Store")
		first := len(stores) > 0
		for _, st := range stores {
			if !precedes(st.Site, snapsD[0].Site) {
				first = false
			}
		}
		h.Check(first, name+"/registered-first", r.P.InstrPos(snaps[0]), "registered in the registry before the back-fill loop starts", "the new index is registered after (part of) the back-fill: a commit or delete that lands on a block the loop has already passed does not find the index and the loop never revisits the block, so the index stays wrong after creation returns")
	}
}

// ruleReplayOrder: C03.order / KF4
func ruleReplayOrder(r *Report) {
	defer ruleRangeHeaderSnapshot(r)
	h := r.Rule("C03.order", "who-may-call", "no commit.Reader method appends to the buffer it is replaying: an operation appended at the end is seen by later passes (computed columns, stream consumers, triggers) after operations the transaction issued later for the same row", 10)
	appenders := map[string]bool{}
	for fn := range r.P.modFunc {
		if rn := recvNamed(fn); rn != nil && rn.Obj().Name() == "Buffer" && rn.Obj().Pkg().Path() == CommitPath {
			n := fn.Name()
			if strings.HasPrefix(n, "Put") || strings.HasPrefix(n, "write") {
				appenders[fnName(fn)] = true
			}
		}
	}
	var names []string
	fns := map[string]*ssa.Function{}
	for fn := range r.P.modFunc {
		if rn := recvNamed(fn); rn != nil && rn.Obj().Name() == "Reader" && rn.Obj().Pkg().Path() == CommitPath && fn.Parent() == nil && fn.Synthetic == "" {
			names = append(names, fnName(fn))
			fns[fnName(fn)] = fn
		}
	}
	sort.Strings(names)
	for _, n := range names {
		fn := fns[n]
		var bad ssa.Instruction
		allInstrs(fn, func(ins ssa.Instruction) {
			if cc, _, _ := callCommon(ins); cc != nil && appenders[calleeShort(cc)] {
				bad = ins
			}
		})
		if bad != nil {
			h.Bad(n, r.P.InstrPos(bad), "appends a new operation to the parent buffer during replay (the rewritten value is reordered after later operations of the same row)")
		} else {
			h.OK(n, r.P.Pos(fn.Pos()), "")
		}
	}
}

// ruleSingleSection: C10.single
func ruleSingleSection(r *Report) {
	L := r.Shared.Lockset()
	h := r.Rule("C10.single", "P+L", "a commit applies the row markers and all column updates of a block inside one critical section: Txn.commit runs one latch loop, its callback contains both apply steps, and the latch loop takes and releases the latch exactly once around one callback invocation", 3)
	commit := r.Anchor("(*column.Txn).commit")
	cb := commitCallback(r)
	if commit == nil || cb == nil {
		return
	}
	rw := callsTo(commit, false, "(*column.Txn).rangeWrite")
	n := 0
	withClosures(commit, func(f *ssa.Function) { n += len(callsTo(f, false, "(*column.Txn).rangeWrite")) })
	ok := len(rw) == 1 && n == 1
	if ok {
		cc, _, _ := callCommon(rw[0])
		ok = asFunc(cc.Args[1]) == cb
	}
	h.Check(ok, "(*column.Txn).commit/one-loop", r.P.Pos(commit.Pos()), "one rangeWrite whose callback applies the block", "commit does not apply a block inside a single latch loop")
	both := len(callsToDeep(cb, false, "(*column.Txn).commitMarkers")) == 1 && len(callsToDeep(cb, false, "(*column.Txn).commitUpdates")) == 1
	h.Check(both, fnName(cb)+"/both-steps", r.P.Pos(cb.Pos()), "markers and updates in one callback", "row markers and column updates of a block are not applied by the same callback (two critical sections: a reader can see the row between them)")
	if rwf := r.Anchor("(*column.Txn).rangeWrite"); rwf != nil {
		for _, f := range deepFuncs(rwf) {
			if L.lockWrapper(f) != nil {
				continue // a call of a lock wrapper is read as the operation, in the caller
			}
			var acq, rel, cbs []ssa.Instruction
			allInstrs(f, func(ins ssa.Instruction) {
				cc, _, _ := callCommon(ins)
				if cc == nil {
					return
				}
				if op, isL := L.classifyLock(cc, f); isL && op.Name == "latch" {
					if op.Acquire {
						acq = append(acq, ins)
					} else {
						rel = append(rel, ins)
					}
				}
			})
			for _, c := range userCallIn(f) {
				if isDelegateOf(rwf, c.Call.Value) {
					cbs = append(cbs, c)
				}
			}
			if len(acq) == 0 {
				continue
			}
			lops, _ := L.classifyLock(&acq[0].(*ssa.Call).Call, f)
			ok := len(acq) == 1 && len(rel) == 1 && len(cbs) == 1 && lops.Mode == 'W' && precedes(acq[0], cbs[0]) && precedes(cbs[0], rel[0])
			owner := fnName(f)
			if isHelper(f) {
				owner = "(*column.Txn).rangeWrite$1" // the latch loop's body, wherever it was moved
			}
			h.Check(ok, owner+"/bracket", r.P.InstrPos(acq[0]), "Lock ≺ callback ≺ Unlock, once each", "the latch loop does not bracket exactly one callback invocation with one exclusive acquire and one release")
		}
	}
}

// isDelegateOf: the callee value of a dynamic call is (a captured copy of, a helper's parameter
// bound to) a function-typed parameter of fn itself.
func isDelegateOf(fn *ssa.Function, callee ssa.Value) bool {
	v := norm(callee)
	for i := 0; i < 4; i++ {
		p, ok := v.(*ssa.Parameter)
		if !ok {
			return false
		}
		if originOf(topFn(p.Parent())) == originOf(fn) && p.Parent().Parent() == nil {
			return true
		}
		a := paramArg(p)
		if a == nil {
			return false
		}
		v = norm(a)
	}
	return false
}

// ruleReserve: C11.reserve
func ruleReserve(r *Report) {
	h := r.Rule("C11.reserve", "P+def-use", "next() picks a free offset and marks it in the fill list inside one exclusive critical section of the collection mutex, marking exactly the offset it picked and returning it", 1)
	fn := r.Anchor("(*column.Collection).next")
	if fn == nil {
		return
	}
	ff := callsTo(fn, false, "(*column.Collection).findFreeIndex")
	sets := callsWhere(fn, func(_ ssa.Instruction, cc *ssa.CallCommon) bool {
		return methodOn(cc, "github.com/kelindar/bitmap", "Bitmap", "Set")
	})
	ok := len(ff) == 1 && len(sets) == 1
	if ok {
		cc, _, _ := callCommon(sets[0])
		fr, isF := fieldOf(cc.Args[0])
		ok = isF && fr.Struct == "column.Collection" && fr.Field == "fill" && sameExpr(cc.Args[1], ff[0].(*ssa.Call))
		// no unlock between pick and mark
		L := r.Shared.Lockset()
		allInstrs(fn, func(ins ssa.Instruction) {
			if c2, _, _ := callCommon(ins); c2 != nil {
				if op, isL := L.classifyLock(c2, fn); isL && !op.Acquire && canReach(ff[0], ins) && canReach(ins, sets[0]) {
					ok = false
				}
			}
		})
		for _, ret := range returnsOf(fn) {
			if !sameExpr(ret.Results[0], ff[0].(*ssa.Call)) {
				ok = false
			}
		}
	}
	h.Check(ok, "(*column.Collection).next", r.P.Pos(fn.Pos()), "pick ≺ mark without releasing the mutex; returns the marked offset", "next() does not mark and return exactly the offset it picked within one critical section: two inserts can receive the same offset")
	// findFreeIndex only returns offsets it believes free: not decided (bit arithmetic)
}

// rulePool (C02.pool): a pooled Txn is indistinguishable from a fresh one — acquire re-establishes
// owner, logger and the "selection not set up" flag; initialize takes the selection from the
// owner's fill list under the collection mutex exactly when it is not set up; bufferFor and
// columnAt key their per-transaction caches by name.
func rulePool(r *Report) {
	h := r.Rule("C02.pool", "S+P", "a pooled transaction starts clean: acquire re-establishes owner, logger and setup=false; initialize clones the owner's fill list under the collection mutex exactly when the selection is not set up; bufferFor returns the transaction's one buffer per column name and columnAt the cached column of that name", 4)
	if fn := r.Anchor("(*column.txnPool).acquire"); fn != nil {
		st := fieldsStoredOn(fn, "column.Txn")
		okSetup := false
		for _, v := range st["setup"] {
			if c, isC := v.(*ssa.Const); isC && c.Value != nil && c.Value.String() == "false" {
				okSetup = true
			}
		}
		okOwner := false
		for _, v := range st["owner"] {
			if sameExpr(v, fn.Params[1]) {
				okOwner = true
			}
		}
		okLogger := false
		for _, v := range st["logger"] {
			if fr, ok := loadedField(v); ok && fr.Struct == "column.Collection" && fr.Field == "logger" {
				okLogger = true
			}
		}
		h.Check(okSetup && okOwner && okLogger, "(*column.txnPool).acquire", r.P.Pos(fn.Pos()), "owner, logger, setup=false", "acquire does not re-establish owner, logger and setup=false on the pooled transaction: it starts with the previous user's selection, collection or logger")
	}
	if fn := r.Anchor("(*column.Txn).initialize"); fn != nil {
		clones := callsWhereDeep(fn, func(_ ssa.Instruction, cc *ssa.CallCommon) bool {
			return methodOn(cc, "github.com/kelindar/bitmap", "Bitmap", "Clone")
		})
		ok := len(clones) == 1
		if ok {
			cc, _, _ := callCommon(clones[0].Inner)
			src, okS := loadedField(cc.Args[0])
			dst, okD := fieldOf(cc.Args[1])
			ok = okS && okD && src.Struct == "column.Collection" && src.Field == "fill" && dst.Struct == "column.Txn" && dst.Field == "index"
			// only when not set up; sets the flag afterwards
			if ok {
				ok = edgeGuarded(clones[0].Site.Block(), func(c ssa.Value) (bool, bool) {
					if fr, isF := loadedField(c); isF && fr.Struct == "column.Txn" && fr.Field == "setup" {
						return true, false
					}
					return false, false
				})
			}
			setTrue := false
			for _, v := range fieldsStoredOn(fn, "column.Txn")["setup"] {
				if c, isC := v.(*ssa.Const); isC && c.Value != nil && c.Value.String() == "true" {
					setTrue = true
				}
			}
			ok = ok && setTrue
		}
		h.Check(ok, "(*column.Txn).initialize", r.P.Pos(fn.Pos()), "!setup ⇒ index := clone(fill); setup = true", "initialize does not take the selection from the owner's fill list exactly when it is not set up")
	}
	byName := func(name, field, elemField string) {
		top := r.Anchor(name)
		if top == nil {
			return
		}
		// the lookup may sit in a helper that is handed the name (columnAt → cacheAt(name), bufferFor →
		// pageOf(name)); the helper's name parameter stands for ours, and our result on the hit path
		// is the helper's
		fn := top
		var nameP ssa.Value = top.Params[1]
		type cand struct {
			g    *ssa.Function
			p    ssa.Value
			call ssa.Instruction
		}
		cands := []cand{{top, top.Params[1], nil}}
		for _, c := range callsWhere(top, func(_ ssa.Instruction, cc *ssa.CallCommon) bool {
			sc := cc.StaticCallee()
			return sc != nil && isHelper(sc) && len(cc.Args) == 2 && sameExpr(cc.Args[1], top.Params[1]) && len(originOf(sc).Params) == 2
		}) {
			cc, _, _ := callCommon(c)
			g := originOf(cc.StaticCallee())
			cands = append(cands, cand{g, g.Params[1], c})
		}
		cmp := false
		for _, cd := range cands {
			fn, nameP = cd.g, cd.p
			found := false
			allInstrs(fn, func(ins ssa.Instruction) {
				bo, ok := ins.(*ssa.BinOp)
				if !ok || (bo.Op != token.EQL && bo.Op != token.NEQ) {
					return
				}
				for _, pair := range [][2]ssa.Value{{bo.X, bo.Y}, {bo.Y, bo.X}} {
					if !sameExpr(pair[1], nameP) {
						continue
					}
					if fr, isF := loadedField(pair[0]); isF && fr.Field == elemField && reachAvoiding(ins.Block(), ins.Block(), nil, nil) {
						// the hit is decided by the name alone: the block that returns the element is
						// the direct successor of this comparison
						for _, ref := range *bo.Referrers() {
							iff, isIf := ref.(*ssa.If)
							if !isIf {
								continue
							}
							hit := iff.Block().Succs[0]
							if bo.Op == token.NEQ {
								hit = iff.Block().Succs[1]
							}
							if _, isRet := hit.Instrs[len(hit.Instrs)-1].(*ssa.Return); isRet && len(hit.Preds) == 1 {
								found = true
							}
						}
					}
				}
			})
			if found && cd.call != nil {
				// some return of ours hands on what the helper found
				found = false
				cv, _ := cd.call.(ssa.Value)
				for _, ret := range returnsOf(top) {
					for _, res := range ret.Results {
						if cv != nil && dependsOn(res, func(v ssa.Value) bool { return v == cv }, 6) {
							found = true
						}
					}
				}
			}
			if found {
				cmp = true
				break
			}
		}
		// the miss path appends to the cache (here or in a helper)
		app := false
		for _, g := range deepFuncs(top) {
			if len(fieldsStoredOn(g, "column.Txn")[field]) >= 1 {
				app = true
			}
		}
		h.Check(cmp && app, name, r.P.Pos(fn.Pos()), "lookup by name, append on miss", name+" does not find the transaction's entry by comparing its name with the requested name (or does not remember a new one): operations of one column are split over several buffers, or land in another column's")
	}
	byName("(*column.Txn).bufferFor", "updates", "Column")
	byName("(*column.Txn).columnAt", "columns", "name")
}

// ruleBlockLoops (C04.blocks): the per-block read loops visit every block of the selection.
func ruleBlockLoops(r *Report) {
	h := r.Rule("C04.blocks", "P", "every per-block read loop (rangeRead, rangeReadPair, WithUnion) starts at block 0, advances by one and runs up to and including block len(selection)>>bitmapShift — the last, partially filled block included", 3)
	bs, _ := r.P.ConstVal("column", "bitmapShift")
	var shift int64
	fmt.Sscanf(bs, "%d", &shift)
	names := []string{"(*column.Txn).rangeRead", "(*column.Txn).rangeReadPair", "(*column.Txn).WithUnion"}
	for _, n := range pairLoopNames(r) {
		if n != "(*column.Txn).rangeReadPair" {
			names = append(names, n) // a sibling of rangeReadPair found by shape
		}
	}
	for _, name := range names {
		fn := r.Anchor(name)
		if fn == nil {
			fn = r.P.Fn(name)
		}
		if fn == nil {
			continue
		}
		// limit ≡ len(txn.index) / 2^bitmapShift, in whatever spelling (shift, division, accessor)
		isLimit := func(v ssa.Value) bool {
			e, _ := normE(v, nil, true)
			bo, isB := e.(*ssa.BinOp)
			if !isB {
				return false
			}
			op, x, _, c, isC := canonBin(bo)
			if op != token.QUO || !isC || c != int64(1)<<uint(shift) {
				return false
			}
			ln, isL := norm(x).(*ssa.Call)
			if !isL {
				return false
			}
			if b, isBI := ln.Call.Value.(*ssa.Builtin); !isBI || b.Name() != "len" {
				return false
			}
			fr, isF := loadedField(ln.Call.Args[0])
			return isF && fr.Struct == "column.Txn" && fr.Field == "index"
		}
		ok, loops := false, 0
		for _, f := range deepFuncs(fn) {
			allInstrs(f, func(ins ssa.Instruction) {
				phi, isPhi := ins.(*ssa.Phi)
				if !isPhi {
					return
				}
				// the block counter: a Chunk-typed induction variable, or an integer one that is
				// converted to a Chunk (for i := 0; …; i++ { chunk := commit.Chunk(i) })
				isCounter := isNamed(phi.Type(), CommitPath, "Chunk")
				if !isCounter {
					for _, ref := range *phi.Referrers() {
						if cv, isCv := ref.(ssa.Value); isCv {
							switch ref.(type) {
							case *ssa.Convert, *ssa.ChangeType:
								if isNamed(cv.Type(), CommitPath, "Chunk") {
									isCounter = true
								}
							}
						}
					}
				}
				if !isCounter {
					return
				}
				loops++
				init, step := false, false
				for _, e := range phi.Edges {
					if c, isC := constInt(e); isC && c == 0 {
						init = true
					}
					if bo, isB := e.(*ssa.BinOp); isB && bo.Op == token.ADD && bo.X == ssa.Value(phi) {
						if one, isC := constInt(bo.Y); isC && one == 1 {
							step = true
						}
					}
				}
				bound := false
				for _, ref := range *phi.Referrers() {
					bo, isB := ref.(*ssa.BinOp)
					if !isB {
						continue
					}
					op, x, y, _, _ := canonBin(bo)
					if x != ssa.Value(phi) {
						continue
					}
					// counter <= limit, or counter < limit+1
					if op == token.LEQ && isLimit(y) {
						bound = true
					}
					if op == token.LSS {
						if add, isAdd := norm(y).(*ssa.BinOp); isAdd && add.Op == token.ADD {
							if one, isC := constInt(add.Y); isC && one == 1 && isLimit(add.X) {
								bound = true
							}
						}
					}
				}
				if init && step && bound {
					ok = true
				}
			})
		}
		if loops == 0 && name != "(*column.Txn).rangeRead" {
			// no loop of its own: the function delegates the iteration to rangeRead / rangeReadPair,
			// whose loop is checked under its own name
			ok = len(callsToDeep(fn, false, append([]string{"(*column.Txn).rangeRead", "(*column.Txn).rangeReadPair"}, pairLoopNames(r)...)...)) > 0
		}
		h.Check(ok, name, r.P.Pos(fn.Pos()), "for block := 0; block <= len(index)>>bitmapShift; block++", "the per-block loop does not visit every block of the selection from 0 up to and including the last (partial) one: rows of the skipped block are neither filtered nor iterated")
	}
	rulePairLoopCallsBack(r)
}

// monotoneGuard: the call is guarded only by loads of a local bool cell that starts false and is
// otherwise only ever set to true or to (itself || something).
func monotoneGuard(fn *ssa.Function, call ssa.Instruction) bool {
	var cell *ssa.Alloc
	guarded := edgeGuarded(call.Block(), func(c ssa.Value) (bool, bool) {
		ld, ok := c.(*ssa.UnOp)
		if !ok || ld.Op != token.MUL {
			return false, false
		}
		al, ok := ld.X.(*ssa.Alloc)
		if !ok {
			return false, false
		}
		cell = al
		return true, true
	})
	if !guarded || cell == nil {
		return false
	}
	monotone := true
	checkStore := func(v ssa.Value, cellAddr ssa.Value) {
		if c, isC := v.(*ssa.Const); isC && c.Value != nil {
			return
		}
		if phi, isPhi := v.(*ssa.Phi); isPhi {
			// short-circuit `cell || x`: one edge is the constant true coming from the block that tested the cell
			for i, e := range phi.Edges {
				if c, isC := e.(*ssa.Const); isC && c.Value != nil && c.Value.String() == "true" {
					pred := phi.Block().Preds[i]
					if iff, isIf := pred.Instrs[len(pred.Instrs)-1].(*ssa.If); isIf {
						if ld, isLd := iff.Cond.(*ssa.UnOp); isLd && ld.X == cellAddr {
							return
						}
					}
				}
			}
		}
		monotone = false
	}
	nFalse := 0
	for _, ref := range *cell.Referrers() {
		switch x := ref.(type) {
		case *ssa.Store:
			if x.Addr == ssa.Value(cell) {
				if c, isC := x.Val.(*ssa.Const); isC && c.Value != nil && c.Value.String() == "false" {
					nFalse++
					continue
				}
				checkStore(x.Val, cell)
			}
		case *ssa.MakeClosure:
			cf := x.Fn.(*ssa.Function)
			for i, b := range x.Bindings {
				if b != ssa.Value(cell) {
					continue
				}
				fv := cf.FreeVars[i]
				for _, r2 := range *fv.Referrers() {
					if st, isSt := r2.(*ssa.Store); isSt && st.Addr == ssa.Value(fv) {
						if c, isC := st.Val.(*ssa.Const); isC && c.Value != nil && c.Value.String() == "false" {
							monotone = false
							continue
						}
						checkStore(st.Val, fv)
					}
				}
			}
		}
	}
	return monotone && nFalse <= 1
}

// takenWhenLarger: edge i of the two-way φ is selected by a branch that holds exactly when its value
// is larger than (or equal to) the other edge's value: φ = max(edges). False when the branch is
// recognised and has the other polarity; true when the shape is not a simple if (nothing to say).
func takenWhenLarger(phi *ssa.Phi, i int) bool {
	blk := phi.Block()
	if len(blk.Preds) != 2 {
		return true
	}
	p := blk.Preds[i]
	var q *ssa.BasicBlock
	var edge int
	if len(p.Preds) == 1 && len(p.Instrs) == 1 {
		q = p.Preds[0] // the `then` block holding only the jump
	} else {
		return true
	}
	iff, ok := q.Instrs[len(q.Instrs)-1].(*ssa.If)
	if !ok {
		return true
	}
	if q.Succs[0] == p {
		edge = 0
	} else {
		edge = 1
	}
	cond := iff.Cond
	pol := edge == 0
	for {
		if x, isNot := isNot(cond); isNot {
			cond, pol = x, !pol
			continue
		}
		break
	}
	bo, isB := cond.(*ssa.BinOp)
	if !isB {
		return true
	}
	op, x, y, _, _ := canonBin(bo)
	if op != token.LSS && op != token.LEQ {
		return true
	}
	big, other := phi.Edges[i], phi.Edges[1-i]
	switch {
	case sameExpr(x, y): // a value compared with itself decides nothing: the larger one is never (or always) taken
		return false
	case sameExpr(x, other) && sameExpr(y, big): // other < big on the true edge
		return pol
	case sameExpr(x, big) && sameExpr(y, other): // big < other on the true edge
		return !pol
	}
	return true
}

// paramOfType: fn's one parameter of (pointer to) the named type, nil if there is none or several.
func paramOfType(fn *ssa.Function, pkgSuffix, typ string) *ssa.Parameter {
	var out *ssa.Parameter
	for i, p := range fn.Params {
		if i == 0 && fn.Signature.Recv() != nil {
			continue
		}
		if isNamed(p.Type(), pkgSuffix, typ) {
			if out != nil {
				return nil
			}
			out = p
		}
	}
	return out
}

// computedCtorNames: what a constructor of a computed column (newIndex, newTrigger, newSortIndex:
// (own name, target name, …)) does with the two names — the wrapper made by columnFor is named by
// the first parameter, and the `name` field of the implementation (what Column() reports) is the
// second.
func computedCtorNames(g *ssa.Function) (wrapperOwn, innerTarget bool) {
	if g == nil || len(g.Params) < 2 {
		return false, false
	}
	allInstrs(g, func(ins ssa.Instruction) {
		if cc, _, _ := callCommon(ins); cc != nil && calleeIs(cc, "column.columnFor") && len(cc.Args) >= 1 {
			if sameExpr(cc.Args[0], g.Params[0]) {
				wrapperOwn = true
			}
		}
		if st, ok := ins.(*ssa.Store); ok {
			// the implementation's own `name` field, or that of a base struct it embeds (not the wrapper's)
			if fr, isF := fieldOf(st.Addr); isF && fr.Field == "name" && fr.Struct != "column.column" {
				innerTarget = sameExpr(st.Val, g.Params[1])
			}
		}
	})
	return
}
