package colvet

import (
	"crypto/sha1"
	"encoding/json"
	"fmt"
	"os"
	"path/filepath"
	"runtime"
	"sort"
	"strings"
	"time"

	"golang.org/x/tools/go/ssa"
)

// Status of an obligation.
type Status string

const (
	Discharged Status = "discharged"
	Violated   Status = "violated"
	Undecided  Status = "undecided" // anchor unresolved / floor not met: the checker cannot vouch
)

// Obligation is one rule instantiated at one construct. Key never contains a line number.
type Obligation struct {
	Rule   string   `json:"rule"`
	Key    string   `json:"key"`
	Status Status   `json:"status"`
	Pos    string   `json:"pos,omitempty"`
	Msg    string   `json:"msg,omitempty"`
	Path   []string `json:"path,omitempty"`
	Held   string   `json:"held,omitempty"`
	Known  string   `json:"known_finding,omitempty"`
}

// RuleInfo documents a rule in the evidence.
type RuleInfo struct {
	ID      string `json:"id"`
	Kind    string `json:"analysis"`
	Text    string `json:"text"`
	Floor   int    `json:"floor"`
	Count   int    `json:"obligations"`
	Decides string `json:"decides,omitempty"`
}

// Report collects the obligations of one property run.
type Report struct {
	P          *Prog
	Property   string
	Tier       string
	Obls       []*Obligation
	Rules      []*RuleInfo
	ruleIdx    map[string]*RuleInfo
	Notes      []string
	Unresolved []string
	seen       map[string]*Obligation
	Stats      map[string]int
	Shared     *Shared
	Witness    []WitnessResult
	Configs    []string
	VerifDir   string
}

func NewReport(p *Prog, property, tier string) *Report {
	return &Report{P: p, Property: property, Tier: tier, ruleIdx: map[string]*RuleInfo{},
		seen: map[string]*Obligation{}, Stats: map[string]int{}}
}

// Rule declares a rule (idempotent) and returns a handle used to add obligations.
func (r *Report) Rule(id, kind, text string, floor int) *RuleH {
	ri := r.ruleIdx[id]
	if ri == nil {
		ri = &RuleInfo{ID: id, Kind: kind, Text: text, Floor: floor}
		r.ruleIdx[id] = ri
		r.Rules = append(r.Rules, ri)
	}
	return &RuleH{r: r, ri: ri}
}

// RuleH is a handle on a declared rule.
type RuleH struct {
	r  *Report
	ri *RuleInfo
}

func (h *RuleH) add(construct string, st Status, pos, msg string) *Obligation {
	key := h.ri.ID + "/" + construct
	if o := h.r.seen[key]; o != nil {
		// the same obligation reached twice (e.g. shared between two anchors): keep the worst
		if rank(st) > rank(o.Status) {
			o.Status, o.Pos, o.Msg = st, pos, msg
		}
		return o
	}
	o := &Obligation{Rule: h.ri.ID, Key: key, Status: st, Pos: pos, Msg: msg}
	h.r.seen[key] = o
	h.r.Obls = append(h.r.Obls, o)
	h.ri.Count++
	return o
}

func rank(s Status) int {
	switch s {
	case Violated:
		return 2
	case Undecided:
		return 1
	}
	return 0
}

// OK records a discharged obligation.
func (h *RuleH) OK(construct, pos, msg string) *Obligation {
	return h.add(construct, Discharged, pos, msg)
}

// Bad records a violated obligation.
func (h *RuleH) Bad(construct, pos, msg string) *Obligation {
	return h.add(construct, Violated, pos, msg)
}

// Unknown records an obligation the analyser could not decide.
func (h *RuleH) Unknown(construct, pos, msg string) *Obligation {
	return h.add(construct, Undecided, pos, msg)
}

// Check records OK or Bad depending on cond.
func (h *RuleH) Check(cond bool, construct, pos, okMsg, badMsg string) *Obligation {
	if cond {
		return h.OK(construct, pos, okMsg)
	}
	return h.Bad(construct, pos, badMsg)
}

// Anchor resolves a library function by short name; a missing anchor is recorded and makes
// the run undecided (exit 2), never silently green.
func (r *Report) Anchor(name string) *ssa.Function {
	fn := r.P.Fn(name)
	if fn == nil {
		r.Unresolve("function " + name)
	}
	return fn
}

func (r *Report) Unresolve(what string) {
	for _, u := range r.Unresolved {
		if u == what {
			return
		}
	}
	r.Unresolved = append(r.Unresolved, what)
}

// guard runs one rule; a rule that panics (a shape it did not anticipate) is recorded as
// unresolved — the check then cannot vouch for the property (exit 2) — but the remaining rules of
// the property still run and still report what they find.
func guard(r *Report, rule func()) {
	defer func() {
		if e := recover(); e != nil {
			_, file, line, _ := runtime.Caller(3)
			for skip := 2; skip < 10; skip++ {
				if _, f, l, ok := runtime.Caller(skip); ok && strings.Contains(f, "/colvet/rules") {
					file, line = f, l
					break
				}
			}
			r.Unresolve(fmt.Sprintf("internal error in a rule (%v at %s:%d)", e, filepath.Base(file), line))
		}
	}()
	rule()
}

func (r *Report) Note(format string, a ...any) {
	r.Notes = append(r.Notes, fmt.Sprintf(format, a...))
}

// ---------------------------------------------------------------------------------------------

// KnownFinding is one entry of /verif/known_findings.json.
type KnownFinding struct {
	ID           string   `json:"id"`
	Properties   []string `json:"properties"`
	Keys         []string `json:"keys"`
	What         string   `json:"what"`
	ReproducedBy string   `json:"reproduced_by,omitempty"`
}

type FixedEntry struct {
	Properties []string `json:"properties"`
	Commit     string   `json:"commit"`
	What       string   `json:"what"`
	Line       string   `json:"line,omitempty"`
}

type KnownFile struct {
	Findings []KnownFinding `json:"findings"`
	Fixed    []FixedEntry   `json:"fixed"`
}

func LoadKnown(path string) (*KnownFile, error) {
	b, err := os.ReadFile(path)
	if err != nil {
		if os.IsNotExist(err) {
			return &KnownFile{}, nil
		}
		return nil, err
	}
	var k KnownFile
	if err := json.Unmarshal(b, &k); err != nil {
		return nil, fmt.Errorf("%s: %w", path, err)
	}
	return &k, nil
}

func (k *KnownFile) match(property, key string) *KnownFinding {
	for i := range k.Findings {
		f := &k.Findings[i]
		hit := false
		for _, fk := range f.Keys {
			if fk == key {
				hit = true
			}
		}
		if !hit {
			continue
		}
		for _, p := range f.Properties {
			if p == property {
				return f
			}
		}
	}
	return nil
}

// ---------------------------------------------------------------------------------------------

// Outcome of finishing a report.
type Outcome struct {
	Exit       int
	Violations []*Obligation
	Known      []*Obligation
	Undecided  []*Obligation
}

type replayFile struct {
	Property string      `json:"property"`
	Key      string      `json:"key"`
	Obl      *Obligation `json:"obligation"`
	Replay   string      `json:"how_to_replay"`
}

func keyHash(key string) string {
	h := sha1.Sum([]byte(key))
	return fmt.Sprintf("%x", h[:5])
}

// Finish applies floors, matches known findings, prints the diagnosis, writes evidence and
// replay files, and returns the exit code (0 held, 1 violation, 2 cannot decide).
func (r *Report) Finish(verifDir string, known *KnownFile, spec *PropSpec, wall time.Duration, onlyKey string) Outcome {
	var out Outcome
	// floors
	for _, ri := range r.Rules {
		if ri.Count < ri.Floor {
			h := &RuleH{r: r, ri: ri}
			h.Unknown("floor", "-", fmt.Sprintf("rule matched %d constructs, fewer than the %d confirmed by hand on the pinned tree: the mechanism is no longer recognised", ri.Count, ri.Floor))
			ri.Count-- // the floor pseudo-obligation is not an instance
		}
	}
	for _, u := range r.Unresolved {
		r.Obls = append(r.Obls, &Obligation{Rule: "anchor", Key: "anchor/" + u, Status: Undecided, Msg: "anchor not found in /repo: " + u})
	}
	sort.SliceStable(r.Obls, func(i, j int) bool { return r.Obls[i].Key < r.Obls[j].Key })
	nd := 0
	for _, o := range r.Obls {
		if onlyKey != "" && o.Key != onlyKey {
			continue
		}
		switch o.Status {
		case Discharged:
			nd++
		case Violated:
			if kf := known.match(r.Property, o.Key); kf != nil {
				o.Known = kf.ID
				out.Known = append(out.Known, o)
				fmt.Printf("KNOWN-FINDING: property=%s %s [%s] %s — %s (%s)\n", r.Property, kf.ID, o.Key, kf.What, o.Msg, o.Pos)
			} else {
				out.Violations = append(out.Violations, o)
			}
		case Undecided:
			out.Undecided = append(out.Undecided, o)
		}
	}
	if os.Getenv("COLVET_VERBOSE") != "" {
		for _, o := range r.Obls {
			fmt.Printf("  [%s] %s  %s  %s\n", o.Status, o.Key, o.Pos, o.Msg)
		}
	}
	if !KeysOnly {
		os.MkdirAll(filepath.Join(verifDir, "evidence", "replay"), 0o755)
	}
	for _, o := range out.Violations {
		rp := filepath.Join(verifDir, "evidence", "replay", r.Property+"-"+keyHash(o.Key)+".json")
		if !KeysOnly {
			b, _ := json.MarshalIndent(replayFile{Property: r.Property, Key: o.Key, Obl: o,
				Replay: "cd /verif && ./check --replay " + rp}, "", " ")
			os.WriteFile(rp, b, 0o644)
		}
		fmt.Printf("VIOLATION property=%s replay=%s\n", r.Property, rp)
		fmt.Printf("  rule   %s: %s\n", o.Rule, r.ruleIdx[o.Rule].Text)
		fmt.Printf("  where  %s  [%s]\n", o.Pos, o.Key)
		fmt.Printf("  what   %s\n", o.Msg)
		if o.Held != "" {
			fmt.Printf("  held   {%s}\n", o.Held)
		}
		if len(o.Path) > 0 {
			fmt.Printf("  path   %s\n", strings.Join(o.Path, " > "))
		}
	}
	for _, o := range out.Undecided {
		fmt.Printf("UNDECIDED property=%s [%s] %s\n", r.Property, o.Key, o.Msg)
	}
	if KeysOnly {
		for _, o := range out.Violations {
			fmt.Println("KEY violated " + o.Key)
		}
		for _, o := range out.Known {
			fmt.Println("KEY violated " + o.Key)
		}
		for _, o := range out.Undecided {
			fmt.Println("KEY undecided " + o.Key)
		}
	}
	switch {
	case len(out.Violations) > 0:
		out.Exit = 1
	case len(out.Undecided) > 0:
		out.Exit = 2
	}
	if onlyKey == "" && !KeysOnly {
		r.writeEvidence(verifDir, spec, wall, nd, out)
	}
	fmt.Printf("%s tier=%s: %d obligations, %d discharged, %d violated, %d known findings, %d undecided; %d rules; %d library functions in %d files; %.1fs; exit %d\n",
		r.Property, r.Tier, len(r.Obls), nd, len(out.Violations), len(out.Known), len(out.Undecided), len(r.Rules), r.P.NFuncs, r.P.NFiles, wall.Seconds(), out.Exit)
	return out
}

func (r *Report) writeEvidence(verifDir string, spec *PropSpec, wall time.Duration, nd int, out Outcome) {
	type sample struct {
		Key    string   `json:"obligation"`
		Status Status   `json:"status"`
		Pos    string   `json:"site,omitempty"`
		Msg    string   `json:"detail,omitempty"`
		Held   string   `json:"held,omitempty"`
		Path   []string `json:"path,omitempty"`
		Known  string   `json:"known_finding,omitempty"`
	}
	var samples []sample
	// every non-discharged obligation, plus up to 4 discharged per rule
	perRule := map[string]int{}
	for _, o := range r.Obls {
		if o.Status == Discharged {
			if perRule[o.Rule] >= 4 {
				continue
			}
			perRule[o.Rule]++
		}
		samples = append(samples, sample{o.Key, o.Status, o.Pos, o.Msg, o.Held, o.Path, o.Known})
	}
	floors := map[string]int{}
	for _, ri := range r.Rules {
		floors[ri.ID] = ri.Floor
	}
	knownIDs := []string{}
	for _, o := range out.Known {
		knownIDs = append(knownIDs, o.Known+" "+o.Key)
	}
	seed := 0
	fmt.Sscanf(os.Getenv("VERIF_SEED"), "%d", &seed)
	ev := map[string]any{
		"property_id": r.Property,
		"tier":        r.Tier,
		"seed":        seed,
		"level":       "other",
		"coverage": map[string]any{
			"explanation":        spec.Explanation,
			"obligations":        len(r.Obls),
			"discharged":         nd,
			"undecided":          len(out.Undecided),
			"violated":           len(out.Violations),
			"known_findings":     knownIDs,
			"checker_cmd":        fmt.Sprintf("bin/colvet -property %s -tier %s", r.Property, r.Tier),
			"rules":              r.Rules,
			"rule_floors":        floors,
			"samples":            samples,
			"not_decided":        spec.NotDecided,
			"functions_analysed": r.P.NFuncs,
			"files_analysed":     r.P.NFiles,
			"packages":           []string{ModPath, CommitPath},
			"goarch":             r.P.GOARCH,
			"stats":              r.Stats,
			"witnesses":          r.Witness,
			"configurations":     r.Configs,
			"notes":              r.Notes,
			"trusted_base": []string{
				"go/types and go/ssa (golang.org/x/tools v0.29.0) model the program faithfully",
				"class-hierarchy resolution of interface calls is an over-approximation of the callees",
				"the rule tables in /verif/colvet (anchors, accepted idioms) were confirmed by reading the pinned tree",
				"dependencies (bitmap, smutex, intmap, btree, s2, iostream) behave as documented",
			},
			"exhaustive": true,
		},
		"assumptions": spec.Assumptions,
		"wall_s":      wall.Seconds(),
		"violations":  len(out.Violations),
	}
	b, _ := json.MarshalIndent(ev, "", " ")
	os.MkdirAll(filepath.Join(verifDir, "evidence"), 0o755)
	os.WriteFile(filepath.Join(verifDir, "evidence", r.Property+".json"), b, 0o644)
}

// KeysOnly: machine-readable mode used by the witness runner (no evidence, no replay files).
var KeysOnly bool

// PropSpec describes a property's check for the evidence file and the CLI.
type PropSpec struct {
	ID          string
	Explanation string
	NotDecided  []string
	Assumptions []string
	Run         func(r *Report)
}
