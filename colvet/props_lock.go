package colvet

var assumeA1 = "A1 (cursor context): methods of the accessor types (Row, rw*/rd*) that do not take the block latch themselves are called by clients only inside a callback that the library invoked with the cursor positioned; rule L2 checks that the library invokes every such callback under the latch"
var assumeA2 = "A2: the log replayed by Restore is not the collection's own logger (commit.Log.lock is split into a reader role and a writer role)"
var assumeA3 = "A3: values of interface types declared outside the library (io.Writer, io.Closer, encoding.BinaryMarshaler …) are client objects, not library objects; such calls are opaque"

func init() {
	register(&PropSpec{
		ID: "C10",
		Explanation: "Static lock-discipline check. A closure-sensitive must-hold lockset analysis walks every call path from the exported API (SSA, CHA for interface calls, environment-resolved closures) and decides: (L1) every call that applies a commit to a registered column holds the block's exclusive latch; (L2) every client callback invoked after the cursor was positioned holds the block latch; (C10.shard) the shard locked is the block the critical section works on; (C10.single) markers and all column updates of a block are applied inside one critical section; (L0) lock operations are balanced and pair on the same shard. If these hold, no interleaving can place a reader's callback between two column updates of one commit on the row's block. Decided for all schedules, not sampled. Not decided: nothing about values.",
		NotDecided: []string{"client misuse (accessor used outside a callback, nested transactions) — assumption A1", "correctness of smutex and sync"},
		Assumptions: []string{assumeA1, assumeA3},
		Run: func(r *Report) {
			ruleL0(r)
			ruleL1(r, map[string]bool{"(*column.Collection).CreateIndex": true, "(*column.Collection).CreateSortIndex": true})
			ruleL2(r)
			ruleShard(r)
		},
	})
	register(&PropSpec{
		ID: "C18",
		Explanation: "Static race/deadlock discipline. The lockset walk (see C10) decides for every call path: (L0) balance; (L1) column Apply under the exclusive latch, index back-fill included; (L2) positioned callbacks under the latch; (L3) every storage access reachable from an API root under the latch; (L4) fill list under the collection mutex, counter atomic-only, commit-id table under mutex/latch; (L6) key table and sorted index under their locks; (L8) the acquisition-order graph over all paths is acyclic with no re-acquisition and no latch-under-latch; (L9) the registry published through atomic.Value is never edited in place; (L.table) every field of every Column implementation is classified. These are necessary conditions for race- and deadlock-freedom over all schedules; they are not sufficient (no alias analysis across functions, dependencies trusted).",
		NotDecided: []string{"termination in general", "races inside dependencies", "instance identity of abstract locks across functions"},
		Assumptions: []string{assumeA1, assumeA2, assumeA3},
		Run: func(r *Report) {
			ruleL0(r)
			ruleL1(r, nil)
			ruleL2(r)
			ruleShard(r)
			ruleStorageTable(r)
			ruleL3(r, nil)
			ruleL4(r)
			ruleL6(r)
			ruleL8(r)
			ruleL9(r)
		},
	})
}

func init() {
	register(&PropSpec{ID: "TMPARMS", Explanation: "tmp", Run: func(r *Report) {
		ruleKeyPaths(r)
		ruleKeyAtomic(r)
		ruleIntern(r)
		ruleAlias(r)
		ruleMergeQueued(r)
		ruleWidths(r)
	}})
}
