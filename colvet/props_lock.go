package colvet

import "strings"

var assumeA1 = "A1 (cursor context): methods of the accessor types (Row, rw*/rd*) that do not take the block latch themselves are called by clients only inside a callback that the library invoked with the cursor positioned; rule L2 checks that the library invokes every such callback under the latch"
var assumeA2 = "A2: the log replayed by Restore is not the collection's own logger (commit.Log.lock is split into a reader role and a writer role)"
var assumeA3 = "A3: values of interface types declared outside the library (io.Writer, io.Closer, encoding.BinaryMarshaler …) are client objects, not library objects; such calls are opaque"

const staticNote = " Everything is decided from the type-checked source and SSA form of /repo's working tree; nothing is executed. Each rule is a necessary condition of the property — breaking it breaks the behaviour for some input, history or schedule in the property's quantifier — decided on all paths / all call paths; the behavioural statement itself (values, histories) is not decided."

func only(names ...string) func(string) bool {
	return func(n string) bool {
		for _, x := range names {
			if strings.HasPrefix(n, x) {
				return true
			}
		}
		return false
	}
}

var backfillExempt = map[string]bool{"(*column.Collection).CreateIndex": true, "(*column.Collection).CreateSortIndex": true}

var c13Exceptions = []errException{{
	fn: "(*commit.Commit).ReadFrom$1", callee: "(*iostream.Reader).ReadRange",
	reason: "the inner closure assigns the enclosing err, and the unconditional ReadBytes that follows on the same (sticky-error) reader fails on every truncated prefix; no truncation makes it misbehave",
}}

var c14Exceptions = []errException{
	{fn: "(*column.Collection).recorderOpen", callee: "(*commit.Log).Close", reason: "best-effort cleanup of the temporary log on the path that already returns an error"},
	{fn: "(*column.Collection).recorderOpen", callee: "os.Remove", reason: "best-effort cleanup of the temporary file on the path that already returns an error"},
	{fn: "(*column.Collection).recorderOpen", callee: "os.RemoveAll", reason: "best-effort cleanup of the temporary file on the path that already returns an error"},
}

func snapshotFns(n string) bool {
	return strings.Contains(n, ").Snapshot") || strings.HasPrefix(n, "(*column.Collection).writeState") || n == "(*column.Collection).chunks" ||
		strings.HasPrefix(n, "(*commit.Buffer).PutBitmap") || strings.HasPrefix(n, "(commit.Chunk).Range") ||
		(strings.HasPrefix(n, "column.make") && strings.HasSuffix(n, "$1"))
}

func filterFns(n string) bool {
	for _, p := range []string{"(*column.Txn).With", "(*column.Txn).Union", "(*column.Txn).Range", "(*column.Txn).Ascend", "(*column.Txn).QueryAt",
		"column.filterNumbers", "(*column.columnString).FilterString", "(*column.columnEnum).FilterString", "(column.rdNumber[T]).",
		"(*column.Txn).DeleteAll", "(*column.Txn).DeleteAt", "(*column.Txn).rangeRead"} {
		if strings.HasPrefix(n, p) {
			return true
		}
	}
	return false
}

const unitsText = "the functions this property rests on use row positions in the unit their sinks need (block-relative into per-block arrays/bitmaps; absolute into buffers, whole-collection bitmaps, lookup tables, the cursor and the offset-taking API)"

func fnsel(prefixes ...string) func(string) bool {
	return func(n string) bool {
		for _, p := range prefixes {
			if strings.HasPrefix(n, p) {
				return true
			}
		}
		return false
	}
}

var reserveFns = fnsel("(*column.Txn).rollback", "(*column.Txn).insert", "(*column.Collection).free", "(*column.Collection).next", "(*column.Txn).commitMarkers", "(*column.Txn).Insert", "(*column.Txn).DeleteAt", "(*column.Txn).deleteAt", "(*column.Txn).DeleteAll")

func applyUnitFns(kinds ...string) func(string) bool {
	return func(n string) bool {
		for _, k := range kinds {
			switch k {
			case "numeric":
				if strings.HasPrefix(n, "column.make") && strings.HasSuffix(n, "$2") {
					return true
				}
			case "string":
				if strings.HasPrefix(n, "(*column.columnString).Apply") {
					return true
				}
			case "enum":
				if strings.HasPrefix(n, "(*column.columnEnum).Apply") {
					return true
				}
			case "key":
				if strings.HasPrefix(n, "(*column.columnKey).") || strings.HasPrefix(n, "(column.rwKey).") {
					return true
				}
			case "bool":
				if strings.HasPrefix(n, "(*column.columnBool).Apply") {
					return true
				}
			case "index":
				if strings.HasPrefix(n, "(*column.columnIndex).") {
					return true
				}
			case "sortindex":
				if strings.HasPrefix(n, "(*column.columnSortIndex).") {
					return true
				}
			}
		}
		return false
	}
}

func anyOf(fs ...func(string) bool) func(string) bool {
	return func(n string) bool {
		for _, f := range fs {
			if f(n) {
				return true
			}
		}
		return false
	}
}

// foundation: every property about transactions rests on Query's commit/rollback/release discipline
// and on a pooled Txn starting clean; the rules are idempotent (an obligation is recorded once).
func foundation(r *Report) {
	ruleQueryPaths(r)
	rulePool(r)
}

func init() {
	register(&PropSpec{ID: "C01",
		Explanation: "Committed values read back exactly — structural part. (C01.arms) arm-effect analysis of the 14 storage Apply loops: per operation type which presence/value/swap effects must and must not occur, same-row addressing, and the read-modify-write shape of Merge; (C01.units) offset-kind analysis: every index into a per-block array/bitmap is block-relative and every offset written to a buffer, whole bitmap, lookup table or cursor is absolute, in all functions of both packages; (U.defs) block arithmetic constants agree; (C01.width) writer/reader/swap byte widths agree per numeric kind; (C01.guard, C01.funnel) point reads are guarded by block existence and the presence bit of the same row; (C01.grow) columns are grown before they are written, including columns created after rows exist; (C03.twopass) every buffer is replayed for the block; (C01.alias) no stored string aliases a pooled buffer; (C01.intern) lossy-hash lookups are validated; (L1) Apply runs under the exclusive latch." + staticNote,
		NotDecided:  []string{"arithmetic of the delta/varint encoding (see C05)", "NaN/-0 bit patterns", "behaviour of bitmap/simd dependencies", "that findFreeIndex returns a free bit", "equality of values as such"},
		Assumptions: []string{assumeA1, assumeA3},
		Run: func(r *Report) {
			guard(r, func() { ruleStorageArms(r) })
			guard(r, func() {
				ruleUnits(r, "C01.units", "every use of a row position has the unit its sink needs: indexes into per-block value arrays and per-block bitmaps are block-relative; offsets written to buffers, whole-collection bitmaps, lookup tables, the cursor, and passed to the offset-taking API are absolute (a mismatch is wrong for every block but the first)", 60, nil)
			})
			guard(r, func() { ruleUnitDefs(r) })
			guard(r, func() { ruleChunkAlloc(r) })
			guard(r, func() { ruleWidths(r) })
			guard(r, func() { ruleGuardedReads(r) })
			guard(r, func() { ruleGrow(r) })
			guard(r, func() { ruleCommitUpdates(r) })
			guard(r, func() { ruleAlias(r) })
			guard(r, func() { ruleIntern(r) })
			guard(r, func() { ruleL1(r, backfillExempt) })
			// the enum's shared string table is extended atomically with the lookup that missed
			ruleL7sel(r, func(f string) bool { return f == "column.columnEnum.data" || f == "column.columnEnum.seek" }, false)
			guard(r, func() { ruleSetQueued(r) })
			guard(r, func() { ruleRowDelete(r) })     // "absent if nothing was stored since the row was inserted": deletes sweep every column
			guard(r, func() { ruleRegistryLists(r) }) // that sweep walks the registry without a lock: an entry shifted in place is skipped
			guard(r, func() { foundation(r) })
			guard(r, func() { ruleFootprint(r, "E.footprint", footSel("(column.rw", "(column.rd", "(column.Row)."), 40) })
			guard(r, func() { ruleMergeReentrant(r) }) // a merge that decodes into state shared by all blocks stores another row's value
			guard(r, func() { ruleSwapInPlaceSameSize(r) })
			guard(r, func() { ruleReplayOrder(r) }) // an operation replayed out of order overwrites the value committed last (KF4)
			guard(r, func() { ruleMarkerArms(r) })  // offset reuse: an offset is freed under the latch of its own block, next to the sweep of its columns — freed earlier, the sweep wipes the next occupant's committed values
		}})
	register(&PropSpec{ID: "C02",
		Explanation: "Atomicity — structural part. (C02.query) path rules over Collection.Query/rollback/commit/reset: error edge ⇒ rollback only, nil edge ⇒ commit only, transaction released, buffers dropped on every exit; (C02.effects) who-may-call over the context graph of the lockset walk: every Apply body and every logger/recorder append is reachable only below Txn.commit (or index back-fill); (C02.isolation) no bit of the shared fill list is set outside commit; (C02.release) failing inserts free their offset and leave no marker, rollback releases the offsets of successful inserts; (C02.readers) no reading API decodes a transaction buffer." + staticNote,
		NotDecided:  []string{"that the values applied equal the values buffered (C05)", "visibility at the exact instant of latch release"},
		Assumptions: []string{assumeA1, assumeA3},
		Run: func(r *Report) {
			guard(r, func() { ruleQueryPaths(r) })
			guard(r, func() { ruleEffectsBelowCommit(r) })
			guard(r, func() { ruleShard(r) }) // "not visible to any other reader until that moment": readers latch the block they read
			guard(r, func() { ruleIsolation(r) })
			guard(r, func() { ruleRelease(r) })
			guard(r, func() { ruleReadersIgnoreBuffers(r) })
			guard(r, func() { rulePool(r) })
			guard(r, func() { ruleUnits(r, "C02.units", unitsText, 5, reserveFns) })
			guard(r, func() { ruleMarkerArms(r) })
			guard(r, func() { ruleStorageArms(r) })
			guard(r, func() {
				ruleFootprint(r, "E.footprint", footSel("(*column.Collection).Query", "(*column.Collection).QueryAt", "(*column.Collection).Insert", "(*column.Collection).DeleteAt", "(*column.Txn).Insert", "(*column.Txn).QueryAt", "(*column.Txn).DeleteAt"), 4)
			})
			guard(r, func() { ruleCommitUpdates(r) }) // "applies every change it buffered": every buffer is visited
			guard(r, func() { ruleReaderState(r) })   // rollback finds the offsets to release with a reader positioned by Seek: a stale position releases another row
			guard(r, func() { ruleFreeBitNonZero(r) })
		}})
	register(&PropSpec{ID: "C03",
		Explanation: "Bitmap indexes equal their predicate — structural part. (C03.arms) arm effects of columnIndex.Apply (Put: predicate, set on true edge / clear on false edge; Delete: clear); (C03.twopass) computed columns get a fresh pass over the merge-rewritten buffer after the column itself; (C03.rowdelete) row markers reach every registry entry; (C03.register) computed columns are registered under their own name and in the target's list, and dropped from both; (C03.backfill) index creation back-fills from every block; (C07.abs) every Snapshot implementation emits absolute offsets (the back-fill input); (C03.order) no reader method appends to the buffer being replayed; (C11.order) updates are applied before markers so a put+delete of one row leaves no index bit; (C01.arms) every storage Merge arm swaps the delta for the final value." + staticNote,
		NotDecided:  []string{"that the user predicate is evaluated on the right value bytes (decoding, C05)", "predicate values"},
		Assumptions: []string{assumeA3},
		Run: func(r *Report) {
			guard(r, func() { ruleIndexArms(r) })
			guard(r, func() { ruleCommitUpdates(r) })
			guard(r, func() { ruleRowDelete(r) })
			guard(r, func() { ruleRegister(r) })
			guard(r, func() { ruleBackfill(r) })
			guard(r, func() { ruleRegistryLists(r) })
			guard(r, func() {
				ruleUnits(r, "C03.units", unitsText, 2, anyOf(applyUnitFns("index"), fnsel("(*column.Collection).CreateIndex", "(*column.Collection).chunks")))
			})
			guard(r, func() {
				ruleUnits(r, "C07.abs", "every Snapshot implementation, the state writer and PutBitmap/Chunk.Range hand absolute offsets to the destination buffer and index per-block storage with relative ones", 6, snapshotFns)
			})
			guard(r, func() { ruleReplayOrder(r) })
			guard(r, func() { ruleCommitOrder(r, true, false) })
			guard(r, func() { ruleStorageArms(r) })
			guard(r, func() { foundation(r) })
			guard(r, func() {
				ruleFootprint(r, "E.footprint", footSel("(*column.Collection).CreateIndex", "(*column.Collection).DropIndex", "(*column.Collection).Query"), 3)
			})
			guard(r, func() { ruleSnapshotComplete(r) }) // the back-fill of a late index reads the same Put stream
		}})
	register(&PropSpec{ID: "C04",
		Explanation: "Filters, iteration and aggregates — structural part. (C04.ops) which bitmap operation each filter applies to (selection, column) and the missing-column behaviour; (C04.presence) typed filters intersect with presence before the predicate scan, WithValue tests presence, aggregates fold only under selection ∧ presence; (C04.cursor) cursor positioned on the row before its callback; (C04.units) per-block slices indexed by relative offsets, callbacks receive absolute ones; (L3) predicate and fold run under the block latch; (U.defs) block arithmetic and scratch bitmap size." + staticNote,
		NotDecided:  []string{"the set algebra itself", "ascending order and exactly-once (properties of bitmap.Range)", "numeric results of bitmap.Sum/Min/Max", "loop bounds of rangeRead"},
		Assumptions: []string{assumeA1, assumeA3},
		Run: func(r *Report) {
			guard(r, func() { ruleFilterOps(r) })
			guard(r, func() { rulePresence(r) })
			guard(r, func() { ruleCursor(r) })
			guard(r, func() { ruleBlockLoops(r) })
			guard(r, func() { rulePool(r) })
			guard(r, func() { ruleCountAndCache(r) })
			guard(r, func() { ruleAggregatesReadOnly(r) })
			guard(r, func() {
				ruleUnits(r, "C04.units", "filters, iteration and aggregates index per-block storage with block-relative offsets and hand absolute offsets to callbacks and the cursor", 12, filterFns)
			})
			guard(r, func() { ruleUnitDefs(r) })
			guard(r, func() {
				ruleL3f(r, only("(*column.Txn).With", "(*column.Txn).Union", "(*column.Txn).Range", "(column.rdNumber[T])."), 10)
			})
			guard(r, func() { foundation(r) })
			guard(r, func() {
				ruleFootprint(r, "E.footprint", footSel("(*column.Txn).With", "(*column.Txn).Union", "(*column.Txn).Count", "(*column.Txn).Range", "(*column.Txn).Ascend", "(*column.Txn).DeleteAt", "(*column.Txn).DeleteAll", "(column.rdNumber[T])."), 12)
			})
			guard(r, func() { ruleFilterCacheKey(r) })
			guard(r, func() { ruleExtremeFold(r) })
			guard(r, func() { ruleAccumulatorsFromZero(r) })
			guard(r, func() { ruleInitializeFirst(r) })
			guard(r, func() { ruleCommitUpdates(r) }) // "over live rows": the presence bitmaps the filters intersect lose a deleted row only if the markers reach every column
			guard(r, func() { ruleRowDelete(r) })
		}})
	register(&PropSpec{ID: "C05",
		Explanation: "Buffer/commit/log round-trip — structural skeleton only (most of this property is about byte values and is not decidable statically). (C05.flags) writers and reader agree on header flags, size tags and payload widths, decided per arm; (C05.varint) writer loop and the reader's five stages agree; (C05.header) block headers written on block change, reader restarts the offset chain from them; (C05.copy) clones and resets cover every field, clones share no slice; (C01.width) Put/read/Swap widths per kind, swap retags as Put; (C03.order) replay never appends to the buffer." + staticNote,
		NotDecided:  []string{"equality of decoded and encoded sequences for arbitrary operation sequences", "negative deltas, interleaved blocks as values", "s2 / iostream framing", "C05.wire (grammar agreement of WriteTo/ReadFrom) was planned as tier 2 and not built"},
		Assumptions: []string{assumeA3},
		Run: func(r *Report) {
			guard(r, func() { ruleCodecFlags(r) })
			guard(r, func() { ruleVarint(r) })
			guard(r, func() { ruleHeaders(r) })
			guard(r, func() { ruleCopies(r) })
			guard(r, func() { ruleWidths(r) })
			guard(r, func() { ruleReplayOrder(r) })
			guard(r, func() { ruleReaderState(r) })
			guard(r, func() { ruleUnits(r, "C05.units", unitsText, 3, fnsel("(*commit.", "(commit.", "commit.")) })
			guard(r, func() { ruleSerialFields(r) })
			guard(r, func() { ruleDecodeFresh(r) })
			guard(r, func() { ruleWireGrammar(r) })
			guard(r, func() { ruleSerialisersReadOnly(r) })
			guard(r, func() { ruleRangeCountAgrees(r) })
			guard(r, func() { ruleSwapInPlaceSameSize(r) })
		}})
	register(&PropSpec{ID: "C06",
		Explanation: "Replica convergence — structural part. (L5.emit) every append to logger/recorder happens under the block's exclusive latch, so per block emission order = apply order for all schedules; (C06.emitorder) emission after updates and markers were applied (merges rewritten); (C06.emitfields) the emitted commit names this block, the drawn id and the transaction's buffers; (C06.clone, C05.copy) the channel logger sends a deep clone, the file logger serialises synchronously; (C06.replay) Replay marks the commit's block and queues every non-empty buffer through a transaction; (C03.order) no replay-time append reorders operations; (C01.arms) Merge arms swap in the final value." + staticNote,
		NotDecided:  []string{"convergence itself (a history property)", "interleavings beyond 'per block, emission order = apply order'"},
		Assumptions: []string{assumeA2, assumeA3},
		Run: func(r *Report) {
			guard(r, func() { ruleL5emit(r) })
			guard(r, func() { ruleCommitOrder(r, false, true) })
			guard(r, func() { ruleEmitFields(r) })
			guard(r, func() { ruleChannelClone(r) })
			guard(r, func() { ruleCopies(r) })
			guard(r, func() { ruleFreeCallers(r) }) // an offset released twice un-fills another writer's committed row on the primary only: nothing is emitted for it
			guard(r, func() { ruleReplay(r) })
			guard(r, func() { ruleReplayOrder(r) })
			guard(r, func() { ruleStorageArms(r) })
			guard(r, func() { ruleCommitUpdates(r) }) // primary and replica maintain computed columns the same way
			guard(r, func() {
				ruleUnits(r, "C06.units", unitsText, 2, fnsel("(*column.Collection).Replay", "(*column.Txn).commit", "(*column.Txn).rangeWrite", "(*commit.Reader).Swap"))
			})
			guard(r, func() { ruleSerialFields(r) })
			guard(r, func() { ruleDecodeFresh(r) })
			guard(r, func() { ruleCodecFlags(r) })
			guard(r, func() { ruleVarint(r) })
			guard(r, func() { ruleHeaders(r) })
			guard(r, func() { ruleIndexArms(r) })
			guard(r, func() { ruleKeyArms(r) })
			guard(r, func() { ruleMarkerArms(r) })
			guard(r, func() { rulePool(r) })
			guard(r, func() { ruleRowDelete(r) })
			guard(r, func() { foundation(r) })
			guard(r, func() {
				ruleFootprint(r, "E.footprint", footSel("(*column.Collection).Replay", "(*column.Collection).Query"), 2)
			})
			guard(r, func() { ruleWireGrammar(r) })
			guard(r, func() { ruleEmitOnce(r) }) // a commit that is applied but not emitted never reaches the replica
			guard(r, func() { ruleCommitWritesOwnChunk(r) })
			guard(r, func() { ruleRangeCountAgrees(r) })
			guard(r, func() { ruleSerialisersReadOnly(r) })
			guard(r, func() { ruleSwapInPlaceSameSize(r) })
			guard(r, func() { ruleLogWriterLocked(r) })
		}})
	register(&PropSpec{ID: "C07",
		Explanation: "Restore reproduces the collection — structural part. (C07.abs) offset-kind analysis of every Snapshot implementation, the state writer and PutBitmap: absolute offsets into the buffer, relative into per-block storage; (C07.count) the announced buffer count and the buffers written use one predicate; (C13.whole) readState applies each block through its own transaction and only when the block was read completely; (C11.markers) insert markers rebuild the fill list and the count; (U.defs) block arithmetic." + staticNote,
		NotDecided:  []string{"equality of contents", "behaviour of s2", "C07.wire (state stream grammar) not built"},
		Assumptions: []string{assumeA3},
		Run: func(r *Report) {
			guard(r, func() {
				ruleUnits(r, "C07.abs", "every Snapshot implementation, the state writer and PutBitmap/Chunk.Range hand absolute offsets to the destination buffer and index per-block storage with relative ones", 6, snapshotFns)
			})
			guard(r, func() { ruleSnapshotCount(r) })
			guard(r, func() { ruleWholeCommits(r) })
			guard(r, func() { ruleMarkerArms(r) })
			guard(r, func() { ruleUnitDefs(r) })
			guard(r, func() { ruleStateVersion(r) })
			guard(r, func() { ruleSerialFields(r) })
			guard(r, func() { ruleDecodeFresh(r) })
			guard(r, func() { ruleCodecFlags(r) })
			guard(r, func() { ruleVarint(r) })
			guard(r, func() { ruleHeaders(r) })
			guard(r, func() { ruleStorageArms(r) })
			guard(r, func() { ruleIndexArms(r) })
			guard(r, func() { ruleKeyArms(r) })
			guard(r, func() { ruleCommitUpdates(r) })
			guard(r, func() { ruleGrow(r) })
			guard(r, func() { ruleReplay(r) })
			guard(r, func() { foundation(r) })
			guard(r, func() { ruleStateFlush(r) })
			guard(r, func() {
				ruleFootprint(r, "E.footprint", footSel("(*column.Collection).Snapshot", "(*column.Collection).Restore"), 2)
			})
			guard(r, func() { ruleWireGrammar(r) })
			guard(r, func() { ruleSnapshotComplete(r) })
			guard(r, func() { ruleL5emit(r) }) // a commit applied before Snapshot returned and recorded nowhere is a row that differs after Restore
			guard(r, func() { ruleExactReads(r) })
			guard(r, func() { ruleSnapshotCleanup(r) }) // a recorder detached by another snapshot call: commits recorded nowhere
		}})
	register(&PropSpec{ID: "C08",
		Explanation: "Snapshot under concurrent commits is a consistent cut — structural part. (L5.id) the commit id is drawn, stored and handed on while the block's exclusive latch is held (so per block id order = apply order for all schedules); (L5.emit) the recorder append and the recording test happen under that latch; (C08.read) the snapshot reads id, fill slice and columns of a block under the block latch and the collection mutex; (C08.order) recorder opened before the state is written, log copied after; (C08.replay) restore replays exactly the commits whose id is not below the block's stored id; (C02.isolation) the fill slice read contains only committed rows; (L4) commit-id table discipline." + staticNote,
		NotDecided:  []string{"the cut property itself over schedules"},
		Assumptions: []string{assumeA2, assumeA3},
		Run: func(r *Report) {
			guard(r, func() { ruleL5id(r) })
			guard(r, func() { ruleL5emit(r) })
			guard(r, func() { ruleReadChunk(r) })
			guard(r, func() { ruleRecorderInstalled(r) }) // no recorder, no commits in the snapshot
			guard(r, func() { ruleSnapshotOrder(r) })
			guard(r, func() { ruleRestoreGuard(r) })
			guard(r, func() { ruleIsolation(r) })
			guard(r, func() { ruleL4(r) })
			guard(r, func() {
				ruleUnits(r, "C08.units", unitsText, 2, anyOf(snapshotFns, fnsel("(*column.Txn).rangeWrite", "(*column.Collection).readChunk")))
			})
			guard(r, func() { ruleWholeCommits(r) })
			guard(r, func() { ruleSnapshotCount(r) })
			guard(r, func() { ruleReplay(r) })
			guard(r, func() { ruleCommitOrder(r, false, true) })
			guard(r, func() { ruleMarkerArms(r) })
			guard(r, func() { ruleL1(r, backfillExempt) })
			guard(r, func() { foundation(r) })
			guard(r, func() {
				ruleFootprint(r, "E.footprint", footSel("(*column.Collection).Snapshot", "(*column.Collection).Restore", "(*column.Collection).Query"), 3)
			})
			// the commits recorded during the snapshot travel through the commit codec: one that drops or
			// misplaces a section loses a commit from the middle or applies it partially
			guard(r, func() { ruleWireGrammar(r) })
			guard(r, func() { ruleRangeCountAgrees(r) })
			guard(r, func() { ruleCommitWritesOwnChunk(r) })
			guard(r, func() { ruleSerialisersReadOnly(r) })
			guard(r, func() { ruleDecodeFresh(r) })
			guard(r, func() { ruleLogWriterLocked(r) })
			guard(r, func() { ruleSnapshotCleanup(r) })
		}})
	register(&PropSpec{ID: "C09",
		Explanation: "Concurrent merges are never lost — structural part. (C01.arms …/Merge/rmw) in every Merge arm the old value is loaded from the element that is stored, merged with the delta read from the buffer, and swapped back into the buffer, inside one Apply body; (L1) every Apply runs under the block's exclusive latch on every call path, so the read-modify-write is atomic per block for all schedules; (C09.queue) every Merge accessor queues the delta and reads nothing." + staticNote,
		NotDecided:  []string{"arithmetic of the merge", "user merge functions"},
		Assumptions: []string{assumeA3},
		Run: func(r *Report) {
			guard(r, func() { ruleStorageArms(r) })
			guard(r, func() { ruleL1(r, backfillExempt) })
			guard(r, func() { ruleMergeQueued(r) })
			guard(r, func() { ruleReaderState(r) }) // rollback finds the offsets to release with a reader positioned by Seek: a stale position releases another row
			guard(r, func() { ruleReplayOrder(r) }) // a merge result replayed out of order overwrites a later merge of the same row (KF4)
			guard(r, func() { ruleRecordMerge(r) })
			guard(r, func() { ruleMergeReentrant(r) })
			guard(r, func() { ruleUnits(r, "C09.units", unitsText, 10, applyUnitFns("numeric", "string")) })
			guard(r, func() { foundation(r) })
			ruleFootprint(r, "E.footprint", func(n string) bool {
				return strings.HasSuffix(n, ").Merge") || strings.HasPrefix(n, "(column.Row).Merge") || n == "(column.rwTTL).Extend"
			}, 10)
			guard(r, func() { ruleCodecFlags(r) })    // a merge that is not encoded (or shifts the offsets of the ones after it) is lost
			guard(r, func() { ruleCommitUpdates(r) }) // a merge in a buffer that is never visited is lost
			guard(r, func() { ruleSwapInPlaceSameSize(r) })
			guard(r, func() { rulePoolRelease(r) }) // a record merge on scratch objects another merge has already taken stores another row's operands
		}})
	register(&PropSpec{ID: "C10",
		Explanation: "No half-applied commit visible on a row — static lock discipline. A closure-sensitive must-hold lockset analysis walks every call path from the exported API (SSA, CHA for interface calls, environment-resolved closures) and decides: (L1) every call that applies a commit to a registered column holds the block's exclusive latch; (L2) every client callback invoked after the cursor was positioned holds the block latch; (C10.shard) the shard locked is the block the critical section works on; (C10.single) markers and all column updates of a block are applied inside one critical section; (L0) lock operations are balanced and pair on the same shard. If these hold no interleaving can place a reader's callback between two column updates of one commit on the row's block." + staticNote,
		NotDecided:  []string{"client misuse (accessor used outside a callback, nested transactions) — assumption A1", "correctness of smutex and sync"},
		Assumptions: []string{assumeA1, assumeA3},
		Run: func(r *Report) {
			guard(r, func() { ruleL0(r) })
			guard(r, func() { ruleL1(r, backfillExempt) })
			guard(r, func() { ruleL2(r) })
			guard(r, func() { ruleShard(r) })
			guard(r, func() { ruleSingleSection(r) })
			guard(r, func() { ruleBlockLoops(r) })
			guard(r, func() { foundation(r) })
			guard(r, func() {
				ruleFootprint(r, "E.footprint", footSel("(*column.Collection).Query", "(*column.Collection).QueryAt", "(*column.Txn).QueryAt", "(*column.Txn).Range"), 3)
			})
			guard(r, func() { ruleL7mode(r, nil, 2) }) // a commit whose Apply races with a header-replacing Grow loses one of its columns
		}})
	register(&PropSpec{ID: "C11",
		Explanation: "Insert offsets never collide, reused offsets carry no stale data — structural part. (C11.reserve, L4) next() picks and marks the offset in one exclusive section, every fill-list access is under the collection mutex, the counter is atomic-only; (C11.markers) commitMarkers sets/clears fill bits per marker and recounts; (C03.rowdelete) row deletes reach every registry entry; (C01.arms, C03.arms) every kind's Delete arm clears presence / the index bit; (C11.order) updates are applied before markers; (C02.release) failing inserts and rollbacks release their offsets." + staticNote,
		NotDecided:  []string{"that findFreeIndex returns a clear bit (bit arithmetic over the fill words)", "count == popcount(fill) as a value"},
		Assumptions: []string{assumeA3},
		Run: func(r *Report) {
			guard(r, func() { ruleReaderState(r) }) // rollback finds the offsets to release with a reader positioned by Seek: a stale position releases another row
			guard(r, func() { ruleReserve(r) })
			guard(r, func() { ruleL4(r) })
			guard(r, func() { ruleMarkerArms(r) })
			guard(r, func() { ruleRowDelete(r) })
			guard(r, func() { ruleStorageArms(r) })
			guard(r, func() { ruleIndexArms(r) })
			guard(r, func() { ruleCommitOrder(r, true, false) })
			guard(r, func() { ruleFillSiblings(r) })
			guard(r, func() { ruleRelease(r) })
			guard(r, func() {
				ruleUnits(r, "C11.units", unitsText, 5, anyOf(reserveFns, applyUnitFns("numeric", "string", "enum", "key", "bool", "index")))
			})
			guard(r, func() { foundation(r) })
			guard(r, func() {
				ruleFootprint(r, "E.footprint", footSel("(*column.Txn).Insert", "(*column.Collection).Insert", "(*column.Txn).InsertKey", "(*column.Txn).UpsertKey", "(*column.Collection).Query"), 4)
			})
			guard(r, func() { ruleFreeBitNonZero(r) })
		}})
	register(&PropSpec{ID: "C12",
		Explanation: "Primary keys behave like a map — structural part. (C12.arms) key column Apply maintains the lookup table: insert on Put with the stored value as key, removal of the row's previous key on overwrite, removal of the stored key on Delete; (C12.paths) guard structure of InsertKey/UpsertKey/QueryKey/DeleteKey/SetKey; (L6) table accessed under the key lock; (C12.atomic) existence test and insertion form one atomic step; (C11.order) a put+delete of one row leaves no table entry; (L4) the fill list and the row counter next() relies on are maintained under the collection mutex — a stale counter hands out a live offset and the insert re-keys somebody's row." + staticNote,
		NotDecided:  []string{"map semantics over histories"},
		Assumptions: []string{assumeA1, assumeA3},
		Run: func(r *Report) {
			guard(r, func() { ruleKeyArms(r) })
			guard(r, func() { ruleKeyPaths(r) })
			guard(r, func() { ruleKeyWiring(r) })
			guard(r, func() { ruleL6(r) })
			guard(r, func() { ruleKeyAtomic(r) })
			guard(r, func() { ruleL4(r) }) // a stale row counter makes next() hand out a live offset: the insert re-keys somebody's row
			guard(r, func() { ruleCommitOrder(r, true, false) })
			guard(r, func() {
				ruleUnits(r, "C12.units", unitsText, 4, anyOf(applyUnitFns("key"), fnsel("(*column.Txn).InsertKey", "(*column.Txn).UpsertKey", "(*column.Txn).QueryKey", "(*column.Txn).DeleteKey", "(column.Row).Key", "(column.Row).SetKey")))
			})
			guard(r, func() { ruleRowDelete(r) })
			guard(r, func() { foundation(r) })
			guard(r, func() {
				ruleFootprint(r, "E.footprint", footSel("(*column.Txn).InsertKey", "(*column.Txn).UpsertKey", "(*column.Txn).QueryKey", "(*column.Txn).DeleteKey", "(column.Row).SetKey", "(column.Row).Key", "(column.rwKey)."), 6)
			})
		}})
	register(&PropSpec{ID: "C13",
		Explanation: "Truncated files never restore silently wrong state — structural skeleton only (the property is mostly about bytes and not applicable to static analysis). (C13.err) error-flow: no error of a read is discarded in Commit.ReadFrom, Buffer.ReadFrom, readChunksFrom, Log.Range, readState, Restore (one exception with reason); (C13.whole) the log callback runs only for completely decoded commits, a block commits only after all its buffers were read, the log is touched only after the state was read." + staticNote,
		NotDecided:  []string{"that a prefix decodes to a prefix", "s2 checksums", "absence of panics on adversarial lengths"},
		Assumptions: []string{assumeA3},
		Run: func(r *Report) {
			ruleErrorFlow(r, "C13.err", "no error returned by a read on the restore / log-range path is discarded", 10,
				[]string{"(*commit.Commit).ReadFrom", "(*commit.Buffer).ReadFrom", "commit.readChunksFrom", "(*commit.Log).Range", "(*column.Collection).readState", "(*column.Collection).Restore"}, c13Exceptions)
			guard(r, func() { ruleRestorePropagates(r) })
			guard(r, func() { ruleWholeCommits(r) })
			guard(r, func() { ruleRestoreGuard(r) })
			guard(r, func() { ruleExactReads(r) })
			guard(r, func() { ruleSnapshotCount(r) })
			guard(r, func() { ruleReplay(r) })
			guard(r, func() { ruleSerialFields(r) })
			guard(r, func() { ruleDecodeFresh(r) })
			guard(r, func() { ruleFootprint(r, "E.footprint", footSel("(*column.Collection).Restore"), 1) })
			// "block states plus a prefix of whole commits": the id written with a block is the one read
			// with it, else a cut between two recorded commits replays the older over a block that holds the newer
			guard(r, func() { ruleReadChunk(r) })
			guard(r, func() { ruleStateVersion(r) })
			guard(r, func() { ruleL5id(r) }) // the replay guard compares ids of one block: they follow the order of application
			guard(r, func() {
				ruleErrNotOverwritten(r, "C13.err", []string{"(*commit.Commit).ReadFrom", "(*commit.Buffer).ReadFrom", "commit.readChunksFrom", "(*commit.Log).Range", "(*column.Collection).readState", "(*column.Collection).Restore"})
			})
		}})
	register(&PropSpec{ID: "C14",
		Explanation: "A failed snapshot reports the error and leaves the collection usable — structural part. (C14.pair) must-pass-through on Snapshot's flow graph: after the recorder was opened every exit uninstalls it, closes the temporary log and removes its file; losing the installation race cleans up; (C14.err) error-flow: no error on the state-writing path is discarded." + staticNote,
		NotDecided:  []string{"that s2 surfaces every destination error at Flush (dependency)", "descriptor counts as values"},
		Assumptions: []string{assumeA3},
		Run: func(r *Report) {
			guard(r, func() { ruleSnapshotCleanup(r) })
			ruleErrorFlow(r, "C14.err", "no error on the snapshot write path (state writer and its closures, buffer serialisation, log copy, recorder open) is discarded", 8,
				[]string{"(*column.Collection).Snapshot", "(*column.Collection).writeState", "(*commit.Log).Copy", "(*commit.Buffer).WriteTo", "(*column.Collection).recorderOpen"}, c14Exceptions)
			guard(r, func() { ruleFileHandles(r) })
			guard(r, func() { ruleRecorderInstalled(r) })
			guard(r, func() { ruleStateFlush(r) })
			guard(r, func() { ruleFootprint(r, "E.footprint", footSel("(*column.Collection).Snapshot"), 1) })
			guard(r, func() { ruleL0(r) }) // "leaves the collection usable": a latch leaked on an error exit hangs every later commit to the block
			guard(r, func() {
				ruleErrNotOverwritten(r, "C14.err", []string{"(*column.Collection).Snapshot", "(*column.Collection).writeState", "(*commit.Log).Copy", "(*commit.Log).Append", "(*column.Collection).recorderOpen", "(*column.Collection).recorderClose", "(*commit.Buffer).WriteTo", "(*commit.Commit).WriteTo"})
			})
		}})
	register(&PropSpec{ID: "C15",
		Explanation: "Change stream exactly-once, per-block ordered, identifiable — structural part. (C15.once) the commit callback's flow graph is evaluated under all 16 valuations of its guards: one logger append iff rows changed or a column was updated, one callback per dirty block; (C15.dirty) dirty blocks come from the buffers' headers; (C02.effects emit/*) appends only below commit; (L5.id) ids drawn under the exclusive latch from one atomic counter ⇒ per block id order = apply order = emission order (with L5.emit); (C06.emitfields) emitted fields; (C05.copy) Commit.Clone keeps the id." + staticNote,
		NotDecided:  []string{"distinctness of ids as a value property beyond 'single atomic counter'", "that the counter never yields 0"},
		Assumptions: []string{assumeA3},
		Run: func(r *Report) {
			guard(r, func() { ruleEmitOnce(r) })
			guard(r, func() { ruleDirty(r) })
			guard(r, func() { ruleEffectsBelowCommit(r) })
			guard(r, func() { ruleL5id(r) })
			guard(r, func() { ruleL5emit(r) })
			guard(r, func() { ruleEmitFields(r) })
			guard(r, func() { ruleCopies(r) })
			guard(r, func() {
				ruleUnits(r, "C15.units", unitsText, 1, fnsel("(*column.Txn).commit", "(*column.Txn).rangeWrite"))
			})
			guard(r, func() { ruleQueryPaths(r) })
			guard(r, func() { rulePool(r) })
			guard(r, func() { ruleCommitOrder(r, false, true) })
			guard(r, func() { ruleCommitUpdates(r) })
			guard(r, func() {
				ruleFootprint(r, "E.footprint", footSel("(*column.Collection).Query", "(*column.Collection).Replay"), 2)
			})
			guard(r, func() { ruleSerialisersReadOnly(r) }) // the logger is handed the transaction's own slice once per block
		}})
	register(&PropSpec{ID: "C16",
		Explanation: "Sorted-index iteration complete and ordered — structural part. (C16.cmp) the ordering handed to the tree reads every field of the item; (C16.arms) arm effects of columnSortIndex.Apply; (C16.scan) Ascend scans ascending and filters by the selection; (C04.cursor) cursor positioned; (C01.alias) keys are copies; (C11.order) a put+delete of one row leaves no entry." + staticNote,
		NotDecided:  []string{"btree correctness", "order of equal keys"},
		Assumptions: []string{assumeA3},
		Run: func(r *Report) {
			guard(r, func() { ruleSortCmp(r) })
			guard(r, func() { ruleSortArms(r) })
			guard(r, func() { ruleSortScan(r) })
			guard(r, func() { ruleCursor(r) })
			guard(r, func() { ruleAlias(r, "sortindex") })
			guard(r, func() { ruleCommitOrder(r, true, false) })
			guard(r, func() {
				ruleUnits(r, "C16.units", unitsText, 2, anyOf(applyUnitFns("sortindex"), fnsel("(*column.Txn).Ascend")))
			})
			guard(r, func() { ruleCommitUpdates(r) })
			guard(r, func() { ruleRowDelete(r) })
			guard(r, func() { ruleRegister(r) })
			guard(r, func() { ruleBackfill(r) })
			guard(r, func() { ruleRegistryLists(r) })
			guard(r, func() { foundation(r) })
			guard(r, func() {
				ruleFootprint(r, "E.footprint", footSel("(*column.Txn).Ascend", "(*column.Collection).CreateSortIndex", "(*column.Collection).Query"), 3)
			})
			guard(r, func() { ruleStorageArms(r) }) // the sorted index sees a string merge only through the Put that Swap* rewrites it into
			guard(r, func() { ruleInitializeFirst(r) })
			guard(r, func() { ruleL2(r) }) // the scan hands out rows in the order of keys that commits are changing meanwhile (KF10; worse without any lock)
		}})
	register(&PropSpec{ID: "C17",
		Explanation: "Rows expire only after their deadline — structural part only (all timing is not applicable). (C17.guard) edge-dominance in the cleanup: DeleteAt(row) only under ok ∧ now.After(deadline); ExpiresAt/TTL report a deadline only when stored and non-zero; selection With(expire); (C17.write) writers store now+ttl or 0, Extend is a queued merge; (C17.wiring) expire column created at construction, one cleanup goroutine with the configured interval that stops on close; (C09.queue) merge accessors queue deltas; (C08.read) the snapshot reads a block under that block's latch, so a deadline change in mid-commit is not recorded as applied." + staticNote,
		NotDecided:  []string{"all timing ('within a few intervals')", "clock behaviour"},
		Assumptions: []string{assumeA1},
		Run: func(r *Report) {
			guard(r, func() { ruleExpire(r) })
			guard(r, func() { ruleTTLNames(r) })
			guard(r, func() { ruleMergeQueued(r) })
			guard(r, func() {
				ruleUnits(r, "C17.units", unitsText, 1, fnsel("(*column.Collection).vacuum", "(*column.Txn).DeleteAt", "(column.rwTTL).", "(column.Row).SetTTL", "(column.Row).TTL"))
			})
			guard(r, func() { ruleRowDelete(r) }) // a deleted row's deadline must not survive for the next occupant of the offset
			guard(r, func() { rulePeriodicCleanup(r) })
			guard(r, func() { foundation(r) })
			guard(r, func() {
				ruleFootprint(r, "E.footprint", footSel("(column.rwTTL).", "(column.Row).TTL", "(column.Row).SetTTL"), 4)
			})
			guard(r, func() { ruleVacuumVisitsEveryRow(r) })
			guard(r, func() { ruleRelease(r) })   // a marker queued for a released offset deletes the row that owns it by then, deadline and all
			guard(r, func() { ruleReadChunk(r) }) // "the deadline survives snapshot/restore": the snapshot reads a block under the block's latch, or a TTL change in mid-commit is recorded as applied and lost
		}})
	register(&PropSpec{ID: "C18",
		Explanation: "Race/deadlock discipline. The lockset walk (see C10) decides for every call path: (L0) balance; (L1) column Apply under the exclusive latch, index back-fill included; (L2) positioned callbacks under the latch; (L3) every storage access reachable from an API root under the latch; (L4) fill list under the collection mutex, counter atomic-only, commit-id table under mutex/latch; (L6) key table and sorted index under their locks; (L7) cross-block column state is written only under a lock its readers take; (L8) the acquisition-order graph over all paths is acyclic with no re-acquisition and no latch-under-latch; (L9) the registry published through atomic.Value is never edited in place; (L.table) every field of every Column implementation is classified. Necessary conditions for race- and deadlock-freedom over all schedules; not sufficient (abstract locks, no alias analysis across functions, dependencies trusted)." + staticNote,
		NotDecided:  []string{"termination in general", "races inside dependencies", "instance identity of abstract locks across functions"},
		Assumptions: []string{assumeA1, assumeA2, assumeA3},
		Run: func(r *Report) {
			guard(r, func() { ruleL0(r) })
			guard(r, func() { ruleL1(r, nil) })
			guard(r, func() { ruleL2(r) })
			guard(r, func() { ruleShard(r) })
			guard(r, func() { ruleStorageTable(r) })
			guard(r, func() { ruleL3(r, nil) })
			guard(r, func() { ruleL4(r) })
			guard(r, func() { ruleL6(r) })
			guard(r, func() { ruleL7(r) })
			guard(r, func() { ruleL8(r) })
			guard(r, func() { ruleL9(r) })
			guard(r, func() { ruleRegistryWritersSerial(r) })
			guard(r, func() { ruleRegistryLists(r) })
			guard(r, func() { ruleReadChunk(r) })
			guard(r, func() { ruleQueryPaths(r) }) // the pooled Txn is handed to one caller at a time
			guard(r, func() { rulePool(r) })
			guard(r, func() { ruleLogWriterLocked(r) })
			guard(r, func() { rulePoolRelease(r) })
		}})
	register(&PropSpec{ID: "C19",
		Explanation: "Triggers fire once per committed change with the final value — structural part. (C19.arms) the trigger's Apply loop calls back on every path for Put and Delete, never for Insert/Merge/Skip, one call per operation, with the positioned reader; (C03.twopass) computed pass after the main pass over the rewritten buffer; (C01.arms) every Merge arm swaps ⇒ the trigger sees a Put of the final value; (C03.rowdelete) row deletes reach the trigger's own registry entry once (markers go to cols[0] only); (C02.effects) no Apply outside commit ⇒ nothing on rollback; (C03.order) replay never reorders; (C03.register) CreateTrigger/DropTrigger." + staticNote,
		NotDecided:  []string{"the values passed", "order across blocks"},
		Assumptions: []string{assumeA3},
		Run: func(r *Report) {
			guard(r, func() { ruleTriggerArms(r) })
			guard(r, func() { ruleCommitUpdates(r) })
			guard(r, func() { ruleStorageArms(r) })
			guard(r, func() { ruleRowDelete(r) })
			guard(r, func() { ruleEffectsBelowCommit(r) })
			guard(r, func() { ruleReplayOrder(r) })
			guard(r, func() { ruleRegister(r) })
			guard(r, func() { ruleRegistryLists(r) })
			guard(r, func() { rulePool(r) })
			guard(r, func() { ruleQueryPaths(r) })
			guard(r, func() {
				ruleFootprint(r, "E.footprint", footSel("(*column.Collection).CreateTrigger", "(*column.Collection).DropTrigger", "(*column.Collection).Query"), 3)
			})
		}})
}

// footSel selects API roots by name prefix.
func footSel(prefixes ...string) func(string) bool {
	return func(n string) bool {
		for _, p := range prefixes {
			if strings.HasPrefix(n, p) {
				return true
			}
		}
		return false
	}
}
