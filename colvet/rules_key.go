package colvet

import (
	"fmt"
	"go/token"
	"go/types"
	"sort"
	"strings"

	"golang.org/x/tools/go/ssa"
)

// ---------------------------------------------------------------------------------------------
// C12.paths

func offsetOfTest(cond ssa.Value) (*ssa.Call, bool) {
	if cl, ok := extractOf(cond, 1); ok && calleeIs(&cl.Call, "(*column.columnKey).OffsetOf") {
		return cl, true
	}
	return nil, false
}

func ruleKeyPaths(r *Report) {
	h := r.Rule("C12.paths", "P", "InsertKey inserts only when the key is not found and fails when it is; UpsertKey updates the found row or inserts a row keyed with the caller's key; QueryKey/DeleteKey fail when the key is not found and act on the found offset otherwise; SetKey refuses an existing key — decided per valuation of (key column present, key found) over all paths, helpers inlined", 9)
	// guards: the key was found (second result of OffsetOf); the collection has a key column
	leaf := func(cond ssa.Value) (string, bool, bool) {
		if _, ok := offsetOfTest(norm(cond)); ok {
			return "found", false, true
		}
		if x, nonNil, ok := nilTest(cond); ok {
			if fr, isF := loadedField(norm(x)); isF && fr.Struct == "column.Collection" && fr.Field == "pk" {
				return "haskey", !nonNil, true
			}
		}
		return "", false, false
	}
	classify := func(ins ssa.Instruction) string {
		cc, _, isGo := callCommon(ins)
		if cc == nil || isGo {
			return ""
		}
		switch {
		case calleeIs(cc, "(*column.Txn).insert"):
			return "insert"
		case calleeIs(cc, "(*column.Txn).QueryAt"):
			return "query"
		case calleeIs(cc, "(*column.Txn).deleteAt"):
			return "delete"
		case calleeIs(cc, "(*column.Txn).DeleteAt"):
			// refuses offsets outside the transaction's own (possibly stale or filtered) selection:
			// not the unconditional delete a found key calls for
			return "delete-if-selected"
		case calleeIs(cc, "(*commit.Buffer).PutString"):
			return "put"
		}
		return ""
	}
	// isErrorValue: the value is a freshly made error (fmt.Errorf / errors.New), possibly through a helper
	var isErrorValue func(v ssa.Value, depth int) bool
	isErrorValue = func(v ssa.Value, depth int) bool {
		cl, ok := norm(v).(*ssa.Call)
		if !ok || depth > 3 {
			return false
		}
		if calleeIs(&cl.Call, "fmt.Errorf", "errors.New") {
			return true
		}
		sc := cl.Call.StaticCallee()
		if sc == nil || !isHelper(sc) {
			return false
		}
		rets := returnsOf(originOf(sc))
		for _, ret := range rets {
			if len(ret.Results) != 1 || !isErrorValue(ret.Results[0], depth+1) {
				return false
			}
		}
		return len(rets) > 0
	}
	retVal := func(ret *ssa.Return) ssa.Value {
		if ret == nil || len(ret.Results) == 0 {
			return nil
		}
		vals := cellStoresBefore(ret)
		if len(vals) == len(ret.Results) {
			return vals[len(vals)-1]
		}
		return ret.Results[len(ret.Results)-1]
	}
	// foundOffset: the value is the offset OffsetOf returned for the caller's key
	foundOffset := func(ev pathEvent, v ssa.Value, key ssa.Value) bool {
		nv, _ := normE(v, ev.Env, false)
		cl, isEx := extractOf(nv, 0)
		return isEx && calleeIs(&cl.Call, "(*column.columnKey).OffsetOf") && sameExpr(cl.Call.Args[1], key)
	}
	// keyPut: PutString(Put, <offset insert returned>, <caller's key>) into the key column's buffer
	keyPut := func(ev pathEvent, key ssa.Value, evs []pathEvent) bool {
		cc, _, _ := callCommon(ev.Ins)
		op, isC := constInt(cc.Args[1])
		if !isC || op != opPut || !ev.same(cc.Args[3], key) {
			return false
		}
		nv, _ := normE(cc.Args[2], ev.Env, false)
		cl, ok := extractOf(nv, 0)
		if !ok || !calleeIs(&cl.Call, "(*column.Txn).insert") {
			return false
		}
		bf, ok := norm(cc.Args[0]).(*ssa.Call)
		if !ok || !calleeIs(&bf.Call, "(*column.Txn).bufferFor") {
			return false
		}
		fr, ok := loadedField(bf.Call.Args[1])
		return ok && fr.Struct == "column.columnKey" && fr.Field == "name"
	}
	type want struct {
		name      string
		onFound   string // event that must happen exactly once when the key is found ("" = none, error returned)
		onAbsent  string // "insert" = insert + key put; "" = none, error returned
		good, bad string
	}
	for _, w := range []want{
		{"(*column.Txn).InsertKey", "", "insert", "found ⇒ error; not found ⇒ insert + key put", "InsertKey does not fail exactly when the key exists, or does not key the inserted row with the caller's key at the offset insert returned"},
		{"(*column.Txn).UpsertKey", "query", "insert", "found ⇒ QueryAt(found offset); not found ⇒ insert + key put", "UpsertKey does not update exactly the found row, or does not create exactly one row keyed with the caller's key"},
		{"(*column.Txn).QueryKey", "query", "", "found ⇒ act on the found offset; not found ⇒ error", "(*column.Txn).QueryKey does not fail exactly when the key is absent, or acts on another offset than the one found"},
		{"(*column.Txn).DeleteKey", "delete", "", "found ⇒ act on the found offset; not found ⇒ error", "(*column.Txn).DeleteKey does not fail exactly when the key is absent, or acts on another offset than the one found"},
	} {
		fn := r.Anchor(w.name)
		if fn == nil {
			continue
		}
		key := ssa.Value(fn.Params[1])
		nokeyOK := true
		okAll, why := evalPathsDeep(fn, pathCfg{leaf: leaf, names: []string{"found", "haskey"}, classify: classify}, func(as map[string]bool, ev []pathEvent, ret *ssa.Return) bool {
			n := map[string]int{}
			for _, e := range ev {
				n[e.Name]++
			}
			if !as["haskey"] {
				// nothing happens and errNoKey is returned
				// errNoKey itself, or an error built from it (wrapped with %w, annotated by a helper)
				isNoKeyGlobal := func(v ssa.Value) bool {
					g, isLd := v.(*ssa.UnOp)
					if !isLd {
						return false
					}
					gl, isG := g.X.(*ssa.Global)
					return isG && gl.Name() == "errNoKey"
				}
				var fromNoKey func(v ssa.Value, depth int) bool
				fromNoKey = func(v ssa.Value, depth int) bool {
					v = norm(v)
					if isNoKeyGlobal(v) {
						return true
					}
					cl, isCall := v.(*ssa.Call)
					if !isCall || depth > 3 {
						return false
					}
					if calleeIs(&cl.Call, "fmt.Errorf") && len(cl.Call.Args) > 0 {
						// one of the variadic operands is errNoKey (wrapped with %w)
						if sl, isSl := cl.Call.Args[len(cl.Call.Args)-1].(*ssa.Slice); isSl {
							if al, isAl := sl.X.(*ssa.Alloc); isAl {
								for _, ref := range *al.Referrers() {
									ia, isIA := ref.(*ssa.IndexAddr)
									if !isIA {
										continue
									}
									for _, r2 := range *ia.Referrers() {
										if st, isSt := r2.(*ssa.Store); isSt {
											x := st.Val
											if mi, isMI := x.(*ssa.MakeInterface); isMI {
												x = mi.X
											}
											if ci, isCI := x.(*ssa.ChangeInterface); isCI {
												x = ci.X
											}
											if isNoKeyGlobal(norm(x)) {
												return true
											}
										}
									}
								}
							}
						}
						return false
					}
					sc := cl.Call.StaticCallee()
					if sc == nil || !isHelper(sc) {
						return false
					}
					// every return of the helper, its parameters read as the arguments of this call
					o := originOf(sc)
					saved := dynEnv
					ne := &venv{bind: map[*ssa.Parameter]ssa.Value{}, outer: dynEnv}
					for j, par := range o.Params {
						if j < len(cl.Call.Args) {
							ne.bind[par] = cl.Call.Args[j]
						}
					}
					dynEnv = ne
					defer func() { dynEnv = saved }()
					rets := returnsOf(o)
					for _, rt := range rets {
						if len(rt.Results) != 1 || !fromNoKey(rt.Results[0], depth+1) {
							return false
						}
					}
					return len(rets) > 0
				}
				isNoKey := fromNoKey(retVal(ret), 0)
				if len(ev) != 0 || !isNoKey {
					nokeyOK = false
				}
				return true
			}
			act := w.onAbsent
			if as["found"] {
				act = w.onFound
			}
			switch act {
			case "":
				return len(ev) == 0 && isErrorValue(retVal(ret), 0)
			case "insert":
				if n["insert"] != 1 || n["put"] != 1 || len(ev) != 2 || ev[0].Name != "insert" {
					return false
				}
				return keyPut(ev[1], key, ev)
			default:
				if n[act] != 1 || len(ev) != 1 {
					return false
				}
				cc, _, _ := callCommon(ev[0].Ins)
				if !foundOffset(ev[0], cc.Args[1], key) {
					return false
				}
				if act == "query" && !ev[0].same(cc.Args[2], fn.Params[2]) {
					return false
				}
				return true
			}
		})
		h.Check(okAll, w.name, r.P.Pos(fn.Pos()), w.good, w.bad+" ("+why+")")
		h.Check(nokeyOK, w.name+"/nokey", r.P.Pos(fn.Pos()), "errNoKey without a key column", "the operation does not fail with errNoKey (and do nothing) when the collection has no key column")
	}
	if fn := r.Anchor("(column.rwKey).Set"); fn != nil {
		okAll, why := evalPathsDeep(fn, pathCfg{leaf: leaf, names: []string{"found"}, classify: classify}, func(as map[string]bool, ev []pathEvent, ret *ssa.Return) bool {
			if as["found"] {
				return len(ev) == 0 && isErrorValue(retVal(ret), 0)
			}
			return len(ev) == 1 && ev[0].Name == "put" && isConstNil(retVal(ret))
		})
		h.Check(okAll, "(column.rwKey).Set", r.P.Pos(fn.Pos()), "existing key refused", "SetKey does not refuse a key that already exists ("+why+")")
	}
}

// ruleKeyAtomic: KF5
func ruleKeyAtomic(r *Report) {
	L := r.Shared.Lockset()
	h := r.Rule("C12.atomic", "L (check-then-act)", "the existence test of InsertKey/UpsertKey and the insertion of the key belong to one atomic step: before it returns, the operation reserves the key under the key column's exclusive lock (or in a pending set the test consults)", 2)
	for _, name := range []string{"(*column.Txn).InsertKey", "(*column.Txn).UpsertKey"} {
		var rc *LCtx
		for _, c := range L.Roots {
			if fnName(c.Fn) == name {
				rc = c
			}
		}
		if rc == nil {
			r.Unresolve("lockset root " + name)
			continue
		}
		prev := L.ReachFrom(rc)
		reserved := false
		for _, a := range L.Acq {
			if lockBase(a.To) == "columnKey.lock" && strings.HasSuffix(a.To, ":W") {
				if _, ok := prev[a.Ctx.ID]; ok {
					reserved = true
				}
			}
		}
		if reserved {
			h.OK(name, "-", "takes the key lock exclusively before returning")
		} else {
			h.Bad(name, r.P.Pos(rc.Fn.Pos()), "the key is tested against the committed lookup table when the operation is issued and inserted only at commit, with nothing reserving it in between: two concurrent upserts of one key, or two InsertKey of one key in one transaction, both pass the test and create two live rows with the same key")
		}
	}
}

// ---------------------------------------------------------------------------------------------
// C01.intern (KF1)

func ruleIntern(r *Report) {
	h := r.Rule("C01.intern", "def-use", "a location found in the enum's table through a lossy (32-bit) hash is compared with the payload before it is used", 1)
	fn := r.Anchor("(*column.columnEnum).findOrAdd")
	if fn == nil {
		return
	}
	// key of LoadOrStore derives from a hash narrowed to 32 bits
	var los *ssa.Call
	for _, c := range callsWhere(fn, func(_ ssa.Instruction, cc *ssa.CallCommon) bool {
		return methodOn(cc, "github.com/kelindar/intmap", "Sync", "LoadOrStore", "Load")
	}) {
		los = c.(*ssa.Call)
	}
	if los == nil {
		h.Unknown("(*column.columnEnum).findOrAdd", r.P.Pos(fn.Pos()), "table lookup not recognised")
		return
	}
	lossy := dependsOn(los.Call.Args[1], func(v ssa.Value) bool {
		cv, ok := v.(*ssa.Convert)
		if !ok {
			return false
		}
		from, ok1 := cv.X.Type().Underlying().(*types.Basic)
		to, ok2 := cv.Type().Underlying().(*types.Basic)
		return ok1 && ok2 && from.Kind() == types.Uint64 && to.Kind() == types.Uint32
	}, 4)
	// validation: a comparison involving c.data[at] (string) or bytes.Equal on the hit path
	validated := false
	withClosures(fn, func(f *ssa.Function) {
		allInstrs(f, func(ins ssa.Instruction) {
			switch x := ins.(type) {
			case *ssa.BinOp:
				if x.Op == token.EQL || x.Op == token.NEQ {
					for _, op := range []ssa.Value{x.X, x.Y} {
						if dependsOn(op, func(v ssa.Value) bool {
							fr, ok := fieldOf(v)
							return ok && fr.Struct == "column.columnEnum" && fr.Field == "data"
						}, 6) {
							validated = true
						}
					}
				}
			case *ssa.Call:
				if calleeIs(&x.Call, "bytes.Equal") {
					validated = true
				}
			}
		})
	})
	if !lossy {
		h.OK("(*column.columnEnum).findOrAdd", r.P.InstrPos(los), "table is not keyed by a narrowed hash")
		return
	}
	h.Check(validated, "(*column.columnEnum).findOrAdd", r.P.InstrPos(los), "hit validated against the payload", "the enum table is keyed by a hash narrowed to 32 bits and a hit is used without comparing the stored string with the payload: two different strings with the same narrowed hash read back as the first one")
}

// ---------------------------------------------------------------------------------------------
// C01.alias (T)

// freshString: the value does not alias a transaction buffer.
func freshString(v ssa.Value, depth int) bool {
	if depth > 8 || v == nil {
		return false
	}
	switch x := v.(type) {
	case *ssa.Const:
		return true
	case *ssa.ChangeType:
		return freshString(x.X, depth+1)
	case *ssa.Convert:
		// string([]byte) allocates; string(string) keeps the alias
		if _, isSlice := x.X.Type().Underlying().(*types.Slice); isSlice {
			return true
		}
		return freshString(x.X, depth+1)
	case *ssa.Call:
		if calleeIs(&x.Call, "strings.Clone") {
			return true
		}
		// a helper all of whose returns yield a fresh string (its parameters read as the
		// arguments of this call)
		if sc := x.Call.StaticCallee(); sc != nil && isHelper(sc) {
			o := originOf(sc)
			saved := dynEnv
			ne := &venv{bind: map[*ssa.Parameter]ssa.Value{}, outer: dynEnv}
			for j, par := range o.Params {
				if j < len(x.Call.Args) {
					ne.bind[par] = x.Call.Args[j]
				}
			}
			dynEnv = ne
			defer func() { dynEnv = saved }()
			rets := returnsOf(o)
			for _, ret := range rets {
				if len(ret.Results) != 1 || !freshString(ret.Results[0], depth+1) {
					return false
				}
			}
			return len(rets) > 0
		}
		return false
	case *ssa.Parameter:
		if a := paramArg(x); a != nil {
			saved := dynEnv
			if dynEnv != nil {
				dynEnv = dynEnv.outer
			}
			defer func() { dynEnv = saved }()
			return freshString(a, depth+1)
		}
		// a helper with several call sites: fresh at every one of them
		if f := x.Parent(); f != nil && f.Parent() == nil && isHelper(f) && curProg != nil {
			uniqueCallOf(f)
			idx := -1
			for i, q := range f.Params {
				if q == x {
					idx = i
				}
			}
			sites := curProg.uniq[originOf(f)]
			if idx < 0 || len(sites) == 0 {
				return false
			}
			for _, ci := range sites {
				cc := ci.Common()
				if cc.IsInvoke() || idx >= len(cc.Args) || !freshString(cc.Args[idx], depth+1) {
					return false
				}
			}
			return true
		}
		return false
	case *ssa.UnOp:
		if x.Op != token.MUL {
			return false
		}
		switch a := x.X.(type) {
		case *ssa.IndexAddr:
			// a value loaded from column storage itself
			_, isSlice := a.X.Type().Underlying().(*types.Slice)
			return isSlice
		case *ssa.Alloc:
			// local variable: every value stored into it must be fresh
			n := 0
			for _, ref := range *a.Referrers() {
				if st, ok := ref.(*ssa.Store); ok && st.Addr == a {
					n++
					if !freshString(st.Val, depth+1) {
						return false
					}
				}
			}
			return n > 0
		case *ssa.FieldAddr:
			// a field of a local struct that is assigned once (item.Key)
			if nv := norm(x); nv != ssa.Value(x) {
				return freshString(nv, depth+1)
			}
		}
		return false
	case *ssa.Phi:
		for _, e := range x.Edges {
			if !freshString(e, depth+1) {
				return false
			}
		}
		return true
	case *ssa.Lookup:
		return true // value read from a library table
	case *ssa.Extract:
		_, ok := x.Tuple.(*ssa.Lookup)
		return ok
	}
	return false
}

func isStringType(t types.Type) bool {
	b, ok := t.Underlying().(*types.Basic)
	return ok && b.Kind() == types.String
}

func ruleAlias(r *Report, kinds ...string) {
	h := r.Rule("C01.alias", "T", "no string that aliases a (pooled, reused) transaction buffer is stored into column storage, a lookup table, the enum table or the sorted index: stored strings are copies (string([]byte), strings.Clone) or values already in storage", 1)
	check := func(name string, fn *ssa.Function) {
		var bad ssa.Instruction
		n := 0
		for _, f := range deepFuncs(fn) {
			allInstrs(f, func(ins ssa.Instruction) {
				var v ssa.Value
				switch x := ins.(type) {
				case *ssa.Store:
					if ia, ok := x.Addr.(*ssa.IndexAddr); ok && isStringType(x.Val.Type()) {
						if _, isSlice := ia.X.Type().Underlying().(*types.Slice); isSlice {
							v = x.Val
						}
					}
					if fa, ok := x.Addr.(*ssa.FieldAddr); ok && isStringType(x.Val.Type()) {
						if fr, _ := fieldOf(fa); fr.Struct == "column.sortIndexItem" {
							v = x.Val
						}
					}
				case *ssa.MapUpdate:
					if isStringType(x.Key.Type()) {
						v = x.Key
						n++
						if !freshString(v, 0) && bad == nil {
							bad = ins
						}
					}
					v = nil
					if isStringType(x.Value.Type()) {
						v = x.Value
					}
				case *ssa.Call:
					// append(c.data, s)
					if b, ok := x.Call.Value.(*ssa.Builtin); ok && b.Name() == "append" && len(x.Call.Args) == 2 {
						if sl, ok := x.Call.Args[1].(*ssa.Slice); ok {
							if al, ok := sl.X.(*ssa.Alloc); ok {
								for _, ref := range *al.Referrers() {
									if ia, ok := ref.(*ssa.IndexAddr); ok {
										for _, r2 := range *ia.Referrers() {
											if st, ok := r2.(*ssa.Store); ok && isStringType(st.Val.Type()) {
												n++
												if !freshString(st.Val, 0) && bad == nil {
													bad = ins
												}
											}
										}
									}
								}
							}
						}
					}
				}
				if v != nil {
					n++
					if !freshString(v, 0) && bad == nil {
						bad = ins
					}
				}
			})
		}
		if n == 0 {
			return
		}
		if bad != nil {
			h.Bad(name, r.P.InstrPos(bad), "stores a string that may alias the transaction's pooled buffer (result of Reader.String/SwapString or of a merge function that may return its argument): the stored value changes when the buffer is reused")
		} else {
			h.OK(name, r.P.Pos(fn.Pos()), fmt.Sprintf("%d stored strings are copies", n))
		}
	}
	for _, b := range applyBodies(r) {
		want := len(kinds) == 0
		for _, k := range kinds {
			if k == b.Kind {
				want = true
			}
		}
		if !want {
			continue
		}
		switch b.Kind {
		case "string", "key", "enum", "sortindex":
			check(b.Name, b.Fn)
		}
	}
	if fn := r.P.Fn("(*column.columnEnum).findOrAdd"); fn != nil && len(kinds) == 0 {
		check("(*column.columnEnum).findOrAdd", fn)
	}
}

// ---------------------------------------------------------------------------------------------
// C09.queue

func ruleMergeQueued(r *Report) {
	L := r.Shared.Lockset()
	h := r.Rule("C09.queue", "def-use + who-may-call", "every Merge accessor queues the delta as a Merge operation at the cursor and does not read column storage (a merge implemented as Set(Get()+delta) passes every single-threaded test and loses concurrent updates)", 12)
	var names []string
	fns := map[string]*ssa.Function{}
	for fn := range r.P.modFunc {
		if fn.Parent() != nil || fn.Synthetic != "" || fn.Origin() != nil {
			continue
		}
		rn := recvNamed(fn)
		if rn == nil || !strings.HasPrefix(rn.Obj().Name(), "rw") {
			continue
		}
		if fn.Name() != "Merge" && !(rn.Obj().Name() == "rwRecord" && fn.Name() == "write") {
			continue
		}
		names = append(names, fnName(fn))
		fns[fnName(fn)] = fn
	}
	sort.Strings(names)
	for _, n := range names {
		fn := fns[n]
		okPut := false
		for _, c := range callsWhere(fn, func(_ ssa.Instruction, cc *ssa.CallCommon) bool {
			return isBufferPut(calleeShort(cc))
		}) {
			cc, _, _ := callCommon(c)
			op, isC := constInt(cc.Args[1])
			opOK := isC && op == opMerge
			if !isC {
				// rwRecord.write(op, …) forwards its parameter; Merge passes commit.Merge
				opOK = n == "(column.rwRecord).write" || sameExpr(cc.Args[1], fn.Params[1])
			}
			deltaOK := dependsOn(cc.Args[3], func(v ssa.Value) bool {
				for _, par := range fn.Params[1:] {
					if v == ssa.Value(par) {
						return true
					}
				}
				return false
			}, 6)
			if n == "(column.rwRecord).write" {
				deltaOK = true
			}
			if opOK && deltaOK {
				okPut = true
			}
		}
		if n == "(column.rwRecord).Merge" {
			// delegates to write(commit.Merge, …)
			for _, c := range callsTo(fn, false, "(column.rwRecord).write") {
				cc, _, _ := callCommon(c)
				if op, isC := constInt(cc.Args[1]); isC && op == opMerge {
					okPut = true
				}
			}
		}
		// no storage read on any path
		reads := false
		for _, rc := range L.Roots {
			if fnName(rc.Fn) != n {
				continue
			}
			prev := L.ReachFrom(rc)
			for id := range prev {
				switch fnName(L.Ctxs[id].Fn) {
				case "(*column.numericColumn[T]).load", "(*column.columnString).LoadString", "(*column.columnEnum).LoadString", "(column.chunks[T]).chunkAt":
					reads = true
				}
			}
		}
		h.Check(okPut && !reads, n, r.P.Pos(fn.Pos()), "queues Merge(delta), reads nothing", "the merge accessor does not queue the delta as a Merge operation, or reads the stored value when it is issued (read-modify-write outside the block latch)")
	}
	// Row.Merge* and TTL.Extend delegate to them
	for fn := range r.P.modFunc {
		if fn.Parent() != nil || fn.Synthetic != "" {
			continue
		}
		rn := recvNamed(fn)
		if rn == nil || rn.Obj().Name() != "Row" || !strings.HasPrefix(fn.Name(), "Merge") {
			continue
		}
		ok := false
		deepVisitE(fn, func(ins, _ ssa.Instruction, env *venv) {
			if cc, _, _ := callCommon(ins); cc != nil {
				if accessorMethodCall(cc, "Merge") && feasibleWithConsts(ins, env) {
					arg := cc.Args[len(cc.Args)-1]
					if sameE(arg, env, fn.Params[2], nil, 0) {
						ok = true
					}
				}
				// … or queues it itself: Buffer.Put<K>(commit.Merge, cursor, delta), possibly through a
				// shared helper that is handed the operation and the Put<K> to use
				if isBufferPut(calleeNameE(cc, env)) && len(cc.Args) >= 4 && len(fn.Params) > 2 {
					opv, _ := normE(cc.Args[len(cc.Args)-3], env, false)
					if k, isC := constInt(opv); isC && k == opMerge && sameE(cc.Args[len(cc.Args)-1], env, fn.Params[2], nil, 0) {
						ok = true
					}
				}
			}
		})
		h.Check(ok, fnName(fn), r.P.Pos(fn.Pos()), "delegates to the accessor's Merge", "Row.Merge* does not hand the delta to the accessor's Merge")
	}
}

// ---------------------------------------------------------------------------------------------
// C01.width

func ruleWidths(r *Report) {
	h := r.Rule("C01.width", "S", "writer, reader and swap of every numeric kind agree on the byte width and bit conversion: Buffer.Put<K> → writeUint<N>, Reader.<K> decodes N bytes, Reader.Swap<K> encodes N bytes; Set queues op Put and Merge op Merge through Put<K>", 30)
	kinds := map[string]int{"Int": 64, "Int16": 16, "Int32": 32, "Int64": 64, "Uint": 64, "Uint16": 16, "Uint32": 32, "Uint64": 64, "Float32": 32, "Float64": 64}
	for _, k := range sortedKeys(kinds) {
		n := kinds[k]
		// analysis W: the one path of each of the three shows the primitive that moves the bytes
		if fn := r.Anchor("(*commit.Buffer).Put" + k); fn != nil {
			ws, ok := wireWidthCalls(fn, "(*commit.Buffer).writeUint", func(ev ievent) bool {
				at := map[string]*expr{}
				if len(ev.Args) == 4 {
					atomsOf(ev.Args[3], at)
				}
				_, hasV := at["value"]
				return len(ev.Args) == 4 && ev.Args[0].key == "b" && ev.Args[1].key == "op" && ev.Args[2].key == "idx" && hasV
			})
			h.Check(ok && len(ws) == 1 && ws[0] == n, "Put"+k, r.P.Pos(fn.Pos()), fmt.Sprintf("writes %d bits", n), fmt.Sprintf("Buffer.Put%s writes %v bits of its value (expected %d), or not with the caller's operation and offset", k, ws, n))
		}
		// the current value's bytes start at r.i0; how many of them are moved is decided by the
		// primitive (Uint16 reads two bytes of whatever slice it is given), so the upper bound of the
		// slice may be r.i1, r.last (which lies behind it) or absent
		isSection := func(key string) bool { return strings.HasPrefix(key, "slice(r.buffer@0,r.i0@0") }
		if k == "Int" || k == "Uint" {
			// decoded by size: Reader.Uint switches on the payload width
		} else if fn := r.Anchor("(*commit.Reader)." + k); fn != nil {
			ws, ok := wireWidthCalls(fn, "(encoding/binary.bigEndian).Uint", func(ev ievent) bool {
				return len(ev.Args) == 2 && isSection(ev.Args[1].key)
			})
			h.Check(ok && len(ws) == 1 && ws[0] == n, "Reader."+k, r.P.Pos(fn.Pos()), fmt.Sprintf("reads %d bits", n), fmt.Sprintf("Reader.%s decodes %v bits (expected %d) or not from the current value's bytes", k, ws, n))
		}
		if fn := r.Anchor("(*commit.Reader).Swap" + k); fn != nil {
			ws, ok := wireWidthCalls(fn, "(encoding/binary.bigEndian).PutUint", func(ev ievent) bool {
				at := map[string]*expr{}
				if len(ev.Args) == 3 {
					atomsOf(ev.Args[2], at)
				}
				_, hasV := at["v"]
				return len(ev.Args) == 3 && isSection(ev.Args[1].key) && hasV
			})
			retag := wireRetagsAsPut(fn)
			h.Check(ok && len(ws) == 1 && ws[0] == n && retag, "Swap"+k, r.P.Pos(fn.Pos()), fmt.Sprintf("rewrites %d bits and retags as Put", n), fmt.Sprintf("Reader.Swap%s encodes %v bits (expected %d) or does not retag the operation as Put", k, ws, n))
		}
		// accessor Set/Merge and the snapshot writer use Put<K> with the right op
		rw := "rw" + k
		for _, m := range []struct {
			meth string
			op   int64
		}{{"Set", opPut}, {"Merge", opMerge}} {
			fn := r.Anchor("(column." + rw + ")." + m.meth)
			if fn == nil {
				continue
			}
			ok := false
			for _, c := range callsTo(fn, false, "(*commit.Buffer).Put"+k) {
				cc, _, _ := callCommon(c)
				if op, isC := constInt(cc.Args[1]); isC && op == m.op && sameExpr(cc.Args[3], fn.Params[1]) {
					ok = true
				}
			}
			h.Check(ok, rw+"."+m.meth, r.P.Pos(fn.Pos()), fmt.Sprintf("Put%s(op %s, cursor, value)", k, opNames[m.op]), fmt.Sprintf("%s.%s does not queue its argument through Buffer.Put%s with operation %s", rw, m.meth, k, opNames[m.op]))
		}
	}
	// writeSwap retags the header byte as Put
	if fn := r.Anchor("(*commit.Reader).writeSwap"); fn != nil {
		// analysis W: the only byte written is the header in front of the value (i0-1), and for every
		// header value v it becomes v&0xf0 | Put
		ok := wireRetagsAsPut(fn)
		h.Check(ok, "writeSwap", r.P.Pos(fn.Pos()), "header := header&0xf0 | Put", "writeSwap does not rewrite the operation nibble to Put while keeping the size/flag bits")
	}
}

// ruleMergeReentrant (C09.reentrant): the block latch serialises one block only, so commits to
// different blocks of one column run the column's merge function concurrently. The merge
// functions the library itself installs (default numeric/string merges, the record column's
// decode-merge-encode closure) must therefore not use mutable state captured from the
// constructor: a captured variable may only be read, called (function values), or be a
// sync.Pool used through Get/Put.
func ruleMergeReentrant(r *Report) {
	h := r.Rule("C09.reentrant", "def-use", "the merge functions the library installs in a column are re-entrant across blocks: they neither store into nor call methods on state captured from the column's constructor (except sync.Pool Get/Put and calling captured function values)", 3)
	seen := map[*ssa.Function]bool{}
	check := func(f *ssa.Function, where ssa.Instruction) {
		if f == nil || seen[f] {
			return
		}
		seen[f] = true
		var bad ssa.Instruction
		why := ""
		isCaptured := func(v ssa.Value) *ssa.FreeVar {
			for i := 0; i < 4 && v != nil; i++ {
				switch x := v.(type) {
				case *ssa.FreeVar:
					return x
				case *ssa.UnOp:
					v = x.X
				case *ssa.ChangeInterface:
					v = x.X
				case *ssa.MakeInterface:
					v = x.X
				case *ssa.TypeAssert:
					v = x.X
				default:
					return nil
				}
			}
			return nil
		}
		allInstrs(f, func(ins ssa.Instruction) {
			switch x := ins.(type) {
			case *ssa.Store:
				if fv := isCaptured(x.Addr); fv != nil {
					bad, why = ins, "stores into captured variable "+fv.Name()
				}
			case *ssa.Call, *ssa.Defer:
				cc, _, _ := callCommon(ins)
				var recv ssa.Value
				switch {
				case cc.IsInvoke():
					recv = cc.Value
				case cc.StaticCallee() != nil && cc.StaticCallee().Signature.Recv() != nil && len(cc.Args) > 0:
					recv = cc.Args[0]
				}
				if recv == nil {
					return
				}
				fv := isCaptured(recv)
				if fv == nil {
					return
				}
				t := fv.Type()
				if pt, ok := t.(*types.Pointer); ok {
					t = pt.Elem()
				}
				if isNamed(t, "sync", "Pool") {
					return
				}
				bad, why = ins, "calls a method on captured variable "+fv.Name()+" (shared by the commits of all blocks)"
			}
		})
		n := fnName(f)
		if bad != nil {
			h.Bad(n, r.P.InstrPos(bad), "the merge function "+why+": merges applied concurrently to different blocks of the column corrupt each other's operands")
		} else {
			h.OK(n, r.P.Pos(f.Pos()), "uses no mutable captured state")
		}
	}
	// every function value stored into a field named Merge of an option[T] by library code
	for fn := range r.P.modFunc {
		if fn.Origin() != nil && fn.Parent() == nil {
			continue
		}
		allInstrs(fn, func(ins ssa.Instruction) {
			st, ok := ins.(*ssa.Store)
			if !ok {
				return
			}
			fr, ok := fieldOf(st.Addr)
			if !ok || fr.Field != "Merge" || fr.Struct != "column.option" {
				return
			}
			v := st.Val
			if ld, isLd := v.(*ssa.UnOp); isLd {
				v = throughCell(ld)
			}
			if f := asFunc(v); f != nil && r.P.InLib(f) {
				check(originOrSelf(f), ins)
			}
		})
	}
}

func originOrSelf(f *ssa.Function) *ssa.Function {
	// closures inside instantiated generics: analyse the corresponding closure of the origin when
	// it exists, otherwise the instance itself
	return f
}

// ruleSetQueued (C01.set): a Set accessor queues its argument as a Put at the cursor and decides
// nothing from the committed state: writes of the running transaction are only queued, so the
// stored value is not what the row will hold when this Set takes effect ("skip the write if the
// value is unchanged" drops the last of Set(B), Set(A) on a row that holds A).
func ruleSetQueued(r *Report) {
	L := r.Shared.Lockset()
	h := r.Rule("C01.set", "def-use + who-may-call", "every Set accessor queues its argument as a Put operation at the cursor and reads no column storage (whether a write is needed cannot be decided from committed state while earlier writes of the same transaction are still queued); the key accessor, which must refuse existing keys, is covered by C12.paths", 12)
	var names []string
	fns := map[string]*ssa.Function{}
	for fn := range r.P.modFunc {
		if fn.Parent() != nil || fn.Synthetic != "" || fn.Origin() != nil || fn.Name() != "Set" {
			continue
		}
		rn := recvNamed(fn)
		if rn == nil || !strings.HasPrefix(rn.Obj().Name(), "rw") || rn.Obj().Name() == "rwKey" {
			continue
		}
		names = append(names, fnName(fn))
		fns[fnName(fn)] = fn
	}
	sort.Strings(names)
	for _, n := range names {
		fn := fns[n]
		// queues: some Buffer.Put* with operation Put (PutBool / PutAny included), or a delegation to
		// another accessor's Set / the record writer with operation Put
		queues := false
		deepVisitE(fn, func(ins, _ ssa.Instruction, env *venv) {
			cc, _, isGo := callCommon(ins)
			if cc == nil || isGo {
				return
			}
			short := calleeShort(cc)
			switch {
			case short == "(*commit.Buffer).PutBool":
				queues = true
			case isBufferPut(short) || short == "(*commit.Buffer).PutAny":
				op, _ := normE(cc.Args[1], env, false)
				if k, isC := constInt(op); isC && k == opPut {
					queues = true
				}
			case short == "(column.rwRecord).write":
				if k, isC := constInt(cc.Args[1]); isC && k == opPut {
					queues = true
				}
			default:
				if sc := cc.StaticCallee(); sc != nil && sc.Name() == "Set" {
					if rn := recvNamed(sc); rn != nil && strings.HasPrefix(rn.Obj().Name(), "rw") && rn.Obj().Name() != "rwKey" {
						queues = true
					}
				}
			}
		})
		reads := false
		for _, rc := range L.Roots {
			if fnName(rc.Fn) != n {
				continue
			}
			for id := range L.ReachFrom(rc) {
				switch fnName(L.Ctxs[id].Fn) {
				case "(*column.numericColumn[T]).load", "(*column.columnString).LoadString", "(*column.columnEnum).LoadString", "(column.chunks[T]).chunkAt",
					"(*column.columnBool).Contains", "(*column.columnBool).Value":
					reads = true
				}
			}
		}
		h.Check(queues && !reads, n, r.P.Pos(fn.Pos()), "queues Put(value), reads nothing", "the Set accessor does not queue its argument as a Put operation, or consults the stored value when it is issued (earlier writes of the same transaction are not visible there: the write can be skipped wrongly)")
	}
	// Row.Set<K>(column, value) hands its value on: to an accessor's Set, or to a Buffer.Put* with
	// operation Put (siblings of one another: a setter that does nothing compiles and no test of
	// another kind notices)
	var rows []*ssa.Function
	for fn := range r.P.modFunc {
		if fn.Parent() != nil || fn.Synthetic != "" || len(fn.Params) != 3 {
			continue
		}
		rn := recvNamed(fn)
		if rn == nil || rn.Obj().Name() != "Row" || !strings.HasPrefix(fn.Name(), "Set") {
			continue
		}
		switch fn.Name() {
		case "SetKey", "SetTTL", "SetMany", "SetRecord":
			continue // C12.paths, C17.write; SetMany/SetRecord take no plain value
		}
		rows = append(rows, fn)
	}
	sort.Slice(rows, func(i, j int) bool { return fnName(rows[i]) < fnName(rows[j]) })
	for _, fn := range rows {
		ok := false
		deepVisitE(fn, func(ins, _ ssa.Instruction, env *venv) {
			cc, _, _ := callCommon(ins)
			if cc == nil {
				return
			}
			fromValue := func(v ssa.Value) bool {
				return dependsOn(v, func(z ssa.Value) bool {
					n, _ := normE(z, env, false)
					return n == ssa.Value(fn.Params[2]) || z == ssa.Value(fn.Params[2])
				}, 6)
			}
			short := calleeNameE(cc, env)
			switch {
			case isBufferPut(short) || short == "(*commit.Buffer).PutAny" || short == "(*commit.Buffer).PutBool":
				for _, a := range cc.Args {
					if fromValue(a) {
						ok = true
					}
				}
			default:
				if accessorMethodCall(cc, "Set") && len(cc.Args) >= 1 && feasibleWithConsts(ins, env) && fromValue(cc.Args[len(cc.Args)-1]) {
					ok = true
				}
			}
		})
		h.Check(ok, fnName(fn), r.P.Pos(fn.Pos()), "hands its value to the accessor's Set", "the row setter does not hand its value to the column accessor's Set (or to the buffer): the write is dropped")
	}
	// a Row.Set* that writes to the buffer itself (SetMany, SetAny …) queues a Put: where the operation
	// type of a Buffer.Put* call below a setter is a constant, it is commit.Put
	putVal, _ := r.P.ConstVal("commit", "Put")
	var setters []*ssa.Function
	for fn := range r.P.modFunc {
		rn := recvNamed(fn)
		if fn.Parent() != nil || fn.Synthetic != "" || rn == nil || rn.Obj().Name() != "Row" || !strings.HasPrefix(fn.Name(), "Set") {
			continue
		}
		setters = append(setters, fn)
	}
	sortFuncs(setters)
	for _, fn := range setters {
		var bad ssa.Instruction
		n := 0
		deepVisitE(fn, func(ins, _ ssa.Instruction, env *venv) {
			cc, _, _ := callCommon(ins)
			if cc == nil || len(cc.Args) < 2 {
				return
			}
			short := calleeNameE(cc, env)
			if !(isBufferPut(short) || short == "(*commit.Buffer).PutAny") || !isNamed(cc.Args[1].Type(), CommitPath, "OpType") {
				return
			}
			opv, _ := normE(cc.Args[1], env, false)
			k, isC := opv.(*ssa.Const)
			if !isC || k.Value == nil {
				return
			}
			n++
			if k.Value.String() != putVal {
				bad = ins
			}
		})
		if n > 0 {
			h.Check(bad == nil, fnName(fn)+"/op", r.P.InstrPos(bad), "queues operation Put", "the row setter queues its value with an operation type other than Put: the column merges (or deletes) instead of storing the value")
		}
	}
}
