package colvet

import (
	"go/token"
	"go/types"

	"golang.org/x/tools/go/ssa"
)

// Structural expression equality that is tolerant of the rewrites a maintainer makes without
// changing behaviour: conversions, single-assignment temporaries, captured variables, parameters of
// single-use helpers, trivial pure accessors (r.Index() ≡ uint32(r.Offset), b.IsEmpty() ≡
// len(b.buffer)==0), shift/divide/mask/modulo forms of the same power of two, mirrored comparisons
// and commuted operands.

// venv binds the parameters of an expanded accessor to the argument values of its call.
type venv struct {
	bind  map[*ssa.Parameter]ssa.Value
	outer *venv
}

// pureGetter: fn is a single-block function without side effects returning one expression.
var pureCache = map[*ssa.Function]ssa.Value{}
var pureSeen = map[*ssa.Function]bool{}

func pureGetter(fn *ssa.Function) ssa.Value {
	if fn == nil || fn.Blocks == nil || curProg == nil || !curProg.InLib(fn) {
		return nil
	}
	fn = originOf(fn)
	if pureSeen[fn] {
		return pureCache[fn]
	}
	pureSeen[fn] = true
	if len(fn.Blocks) != 1 || fn.Parent() != nil {
		return nil
	}
	var ret *ssa.Return
	for _, ins := range fn.Blocks[0].Instrs {
		switch x := ins.(type) {
		case *ssa.FieldAddr, *ssa.Field, *ssa.BinOp, *ssa.Convert, *ssa.ChangeType, *ssa.Extract, *ssa.DebugRef, *ssa.IndexAddr, *ssa.Index, *ssa.Slice, *ssa.MakeInterface, *ssa.Lookup:
		case *ssa.UnOp:
			if x.Op == token.ARROW {
				return nil
			}
		case *ssa.TypeAssert:
			if !x.CommaOk {
				return nil // may panic
			}
		case *ssa.Call:
			if b, ok := x.Call.Value.(*ssa.Builtin); ok {
				if b.Name() != "len" && b.Name() != "cap" {
					return nil
				}
			} else if sc := x.Call.StaticCallee(); sc == nil || originOf(sc) == fn || pureGetter(sc) == nil {
				return nil
			}
		case *ssa.Return:
			ret = x
		default:
			return nil
		}
	}
	if ret == nil || len(ret.Results) != 1 {
		return nil
	}
	pureCache[fn] = ret.Results[0]
	return ret.Results[0]
}

// normE normalises a value: conversions, cells, captured variables, bound parameters; with expand,
// calls of pure accessors are replaced by the expression they return.
func normE(v ssa.Value, e *venv, expand bool) (ssa.Value, *venv) {
	for i := 0; i < 16; i++ {
		v = strip(v)
		switch x := v.(type) {
		case *ssa.Parameter:
			bound := false
			for s := e; s != nil; s = s.outer {
				if a, ok := s.bind[x]; ok {
					v, e, bound = a, s.outer, true
					break
				}
			}
			if bound {
				continue
			}
			if a := paramArg(x); a != nil {
				v = a
				continue
			}
			return v, e
		case *ssa.Call:
			if !expand {
				return v, e
			}
			sc := x.Call.StaticCallee()
			if sc == nil || x.Call.IsInvoke() {
				return v, e
			}
			body := pureGetter(sc)
			if body == nil {
				return v, e
			}
			o := originOf(sc)
			ne := &venv{bind: map[*ssa.Parameter]ssa.Value{}, outer: e}
			for j, par := range o.Params {
				if j < len(x.Call.Args) {
					ne.bind[par] = x.Call.Args[j]
				}
			}
			// the arguments themselves live in scope e: wrap them so that they resolve there
			v, e = body, ne
			continue
		default:
			n := norm1(v)
			if n == nil {
				return v, e
			}
			v = n
		}
	}
	return v, e
}

// norm1: one step of cell / captured-variable resolution (nil if none applies).
func norm1(v ssa.Value) ssa.Value {
	switch x := v.(type) {
	case *ssa.FreeVar:
		return freeVarValue1(x)
	case *ssa.UnOp:
		if x.Op != token.MUL {
			return nil
		}
		switch a := x.X.(type) {
		case *ssa.Alloc:
			var val ssa.Value
			n := 0
			for _, ref := range *a.Referrers() {
				if st, ok := ref.(*ssa.Store); ok && st.Addr == a {
					val = st.Val
					n++
				}
			}
			if n != 1 || escapesToWriter(a) {
				return nil
			}
			return val
		case *ssa.FreeVar:
			return freeVarValue1(x)
		case *ssa.FieldAddr:
			return structFieldValue(a.X, a.Field)
		}
	case *ssa.Field:
		if ld, ok := aggSource(x.X).(*ssa.UnOp); ok && ld.Op == token.MUL {
			return structFieldValue(ld.X, x.Field)
		}
	}
	return nil
}

func isUnsigned(t types.Type) bool {
	b, ok := t.Underlying().(*types.Basic)
	return ok && b.Info()&types.IsUnsigned != 0
}

// canonBin brings a binary operation into a canonical form.
func canonBin(x *ssa.BinOp) (token.Token, ssa.Value, ssa.Value, int64, bool) {
	op, a, b := x.Op, x.X, x.Y
	switch op {
	case token.GTR:
		return token.LSS, b, a, 0, false
	case token.GEQ:
		return token.LEQ, b, a, 0, false
	}
	if c, ok := constInt(b); ok {
		switch {
		case op == token.SHR && c >= 0 && c < 62:
			return token.QUO, a, nil, int64(1) << uint(c), true
		case op == token.SHL && c >= 0 && c < 62:
			return token.MUL, a, nil, int64(1) << uint(c), true
		case op == token.AND && c > 0 && (c+1)&c == 0:
			return token.REM, a, nil, c + 1, true
		case op == token.QUO || op == token.MUL || op == token.REM:
			return op, a, nil, c, true
		}
	}
	return op, a, b, 0, false
}

func sameE(a ssa.Value, ea *venv, b ssa.Value, eb *venv, depth int) bool {
	if depth > 24 || a == nil || b == nil {
		return false
	}
	// first without expanding accessors
	a0, ea0 := normE(a, ea, false)
	b0, eb0 := normE(b, eb, false)
	if sameValue(a0, b0) && !hasBoundParam(a0, ea0) && !hasBoundParam(b0, eb0) {
		return true
	}
	if structEq(a0, ea0, b0, eb0, depth) {
		return true
	}
	a1, ea1 := normE(a, ea, true)
	b1, eb1 := normE(b, eb, true)
	if a1 == a0 && b1 == b0 {
		return false
	}
	if sameValue(a1, b1) && !hasBoundParam(a1, ea1) && !hasBoundParam(b1, eb1) {
		return true
	}
	return structEq(a1, ea1, b1, eb1, depth)
}

// hasBoundParam: v is a parameter that still has a binding in e (should not happen after normE).
func hasBoundParam(v ssa.Value, e *venv) bool { return false }

func structEq(a ssa.Value, ea *venv, b ssa.Value, eb *venv, depth int) bool {
	d := depth + 1
	switch x := a.(type) {
	case *ssa.Const:
		return sameValue(a, b)
	case *ssa.UnOp:
		y, ok := b.(*ssa.UnOp)
		return ok && x.Op == y.Op && sameE(x.X, ea, y.X, eb, d)
	case *ssa.FieldAddr:
		y, ok := b.(*ssa.FieldAddr)
		return ok && x.Field == y.Field && sameE(x.X, ea, y.X, eb, d)
	case *ssa.Field:
		y, ok := b.(*ssa.Field)
		return ok && x.Field == y.Field && sameE(x.X, ea, y.X, eb, d)
	case *ssa.IndexAddr:
		y, ok := b.(*ssa.IndexAddr)
		return ok && sameE(x.X, ea, y.X, eb, d) && sameE(x.Index, ea, y.Index, eb, d)
	case *ssa.Index:
		y, ok := b.(*ssa.Index)
		return ok && sameE(x.X, ea, y.X, eb, d) && sameE(x.Index, ea, y.Index, eb, d)
	case *ssa.Extract:
		y, ok := b.(*ssa.Extract)
		return ok && x.Index == y.Index && sameE(x.Tuple, ea, y.Tuple, eb, d)
	case *ssa.TypeAssert:
		y, ok := b.(*ssa.TypeAssert)
		return ok && x.CommaOk == y.CommaOk && types.Identical(x.AssertedType, y.AssertedType) && sameE(x.X, ea, y.X, eb, d)
	case *ssa.BinOp:
		y, ok := b.(*ssa.BinOp)
		if !ok {
			return false
		}
		o1, a1, b1, c1, k1 := canonBin(x)
		o2, a2, b2, c2, k2 := canonBin(y)
		if o1 != o2 || k1 != k2 {
			return false
		}
		if k1 {
			return c1 == c2 && sameE(a1, ea, a2, eb, d)
		}
		if sameE(a1, ea, a2, eb, d) && sameE(b1, ea, b2, eb, d) {
			return true
		}
		switch o1 {
		case token.ADD, token.MUL, token.AND, token.OR, token.XOR, token.EQL, token.NEQ:
			return sameE(a1, ea, b2, eb, d) && sameE(b1, ea, a2, eb, d)
		}
		return false
	case *ssa.Call:
		y, ok := b.(*ssa.Call)
		if !ok || len(x.Call.Args) != len(y.Call.Args) {
			return false
		}
		if bx, isB := x.Call.Value.(*ssa.Builtin); isB {
			by, isB2 := y.Call.Value.(*ssa.Builtin)
			if !isB2 || bx.Name() != by.Name() || (bx.Name() != "len" && bx.Name() != "cap") {
				return false
			}
		} else {
			sx, sy := x.Call.StaticCallee(), y.Call.StaticCallee()
			if sx == nil || sy == nil || originOf(sx) != originOf(sy) {
				return false
			}
			switch calleeShort(&x.Call) {
			case "commit.ChunkAt", "(commit.Chunk).Min", "(commit.Chunk).Max", "(*commit.Reader).Index", "(*commit.Reader).IndexAtChunk":
			default:
				if pureGetter(sx) == nil {
					return false
				}
			}
		}
		for i := range x.Call.Args {
			if !sameE(x.Call.Args[i], ea, y.Call.Args[i], eb, d) {
				return false
			}
		}
		return true
	}
	return false
}
