package colvet

import (
	"go/token"
	"go/types"
	"sort"
	"strings"

	"golang.org/x/tools/go/ssa"
)

// Analysis A: arm effects of operation loops (DESIGN.md §3 A).
//
// For a loop `for r.Next() { … r.Type … }` over a commit.Reader the analysis computes, per basic
// block of the loop body, the set of operation constants under which the block can execute
// (refined at every branch that compares Reader.Type with a constant — switch, if, || are all the
// same in SSA) and classifies the instructions of the body into effects. Rules then ask
// must / may / must-not questions per operation constant.

type opset uint8

const (
	opDelete = 0 // also PutFalse
	opInsert = 1
	opPut    = 2 // also PutTrue
	opMerge  = 3
	opSkip   = 4
	opOther  = 5
	opAll    = opset(1<<6 - 1)
)

var opNames = []string{"Delete", "Insert", "Put", "Merge", "Skip", "other"}

func (s opset) has(op int) bool { return s&(1<<uint(op)) != 0 }

// Effect is one classified instruction of a loop body.
type Effect struct {
	Kind string // presence-set, presence-clear, value-store, swap, merge-call, table-insert, table-delete, table-lookup, tree-insert, tree-delete, callback, lock, unlock
	Ins  ssa.Instruction
	// operands of interest
	Target  ssa.Value // bitmap / slice / map / tree the effect applies to
	Offset  ssa.Value // row offset expression (stripped of the word/bit arithmetic), if recognisable
	Val     ssa.Value // value stored / key inserted
	Lock    string
	Inlined bool                      // found inside a helper the body calls; operands that are parameters are bound to the call's arguments
	Inner   ssa.Instruction           // the instruction inside the helper (Ins is the call in the loop body)
	Bind    func(ssa.Value) ssa.Value // helper parameter ↦ argument of the call (nil result: not a parameter)
	// for effects found inside a helper: the operation types under which the inner instruction can
	// execute / executes on every path through the helper, given the arguments of this call
	// (Reader.Type tests and constant arguments decide the helper's branches)
	MayOps  opset
	MustOps opset
	H       *helperInline   // the (outermost) inlining this effect comes from
	hBlock  *ssa.BasicBlock // the block of H.fn in which the effect (or the nested call leading to it) sits
}

// helperInline: one inlining of a helper at a call of the loop body — the helper and, per operation
// type, the edges of its CFG that are feasible given the arguments of the call.
type helperInline struct {
	fn   *ssa.Function
	site ssa.Instruction
	feas [opOther + 1]map[cfgEdge]bool
}

// mustPassOneOf: under op every path from the helper's entry to a return passes one of the blocks.
func (h *helperInline) mustPassOneOf(op int, blocks map[*ssa.BasicBlock]bool) bool {
	feas := h.feas[op]
	avoid := false
	seen := map[*ssa.BasicBlock]bool{}
	var dfs func(x *ssa.BasicBlock)
	dfs = func(x *ssa.BasicBlock) {
		if avoid || seen[x] || blocks[x] {
			return
		}
		seen[x] = true
		if len(x.Instrs) > 0 {
			if _, isRet := x.Instrs[len(x.Instrs)-1].(*ssa.Return); isRet {
				avoid = true
				return
			}
		}
		for _, s := range x.Succs {
			if feas[cfgEdge{x, s}] {
				dfs(s)
			}
		}
	}
	dfs(h.fn.Blocks[0])
	return !avoid
}

type ArmLoop struct {
	P         *Prog
	Fn        *ssa.Function
	Next      *ssa.Call
	Reader    ssa.Value
	Head      *ssa.BasicBlock
	BodyEntry *ssa.BasicBlock
	InBody    map[*ssa.BasicBlock]bool
	Ops       map[*ssa.BasicBlock]opset
	Effects   map[*ssa.BasicBlock][]Effect
	feas      map[int]map[cfgEdge]bool // per operation constant: the feasible edges of Fn
	entryOps  opset                    // the operation types that reach the body (all, unless a helper filters)
}

// FindArmLoops finds every `for r.Next()` loop over a commit.Reader in fn.
func FindArmLoops(p *Prog, fn *ssa.Function) []*ArmLoop {
	var out []*ArmLoop
	for _, b := range fn.Blocks {
		if len(b.Instrs) == 0 {
			continue
		}
		iff, ok := b.Instrs[len(b.Instrs)-1].(*ssa.If)
		if !ok {
			continue
		}
		call, ok := iff.Cond.(*ssa.Call)
		if !ok {
			// `for ok := true; ok; ok = r.Next() { … }`: the first iteration processes the operation
			// the reader already stands on, Next is called at the end of every iteration
			if phi, isPhi := iff.Cond.(*ssa.Phi); isPhi && phi.Block() == b && len(phi.Edges) == 2 {
				var nx *ssa.Call
				first := false
				for _, e := range phi.Edges {
					if c, isC := e.(*ssa.Const); isC && c.Value != nil && c.Value.String() == "true" {
						first = true
					} else if c2, isCall := e.(*ssa.Call); isCall && methodOn(&c2.Call, CommitPath, "Reader", "Next") {
						nx = c2
					}
				}
				if first && nx != nil {
					call, ok = nx, true
				}
			}
			if !ok {
				continue
			}
		} else if call.Block() != b {
			continue
		}
		// the loop is driven by Reader.Next, or by a helper that advances the reader itself and
		// returns true when it stands on an operation to process (`for nextFinal(r) { … }`):
		// the operation types the helper lets through are the ones the body can see
		entryOps := opAll
		if !methodOn(&call.Call, CommitPath, "Reader", "Next") {
			ops, isDriver := nextDriverOps(call)
			if !isDriver {
				continue
			}
			entryOps = ops
		}
		// is the head inside a cycle through the true edge?
		body := map[*ssa.BasicBlock]bool{}
		var dfs func(x *ssa.BasicBlock)
		dfs = func(x *ssa.BasicBlock) {
			if x == b || body[x] {
				return
			}
			body[x] = true
			for _, s := range x.Succs {
				dfs(s)
			}
		}
		dfs(b.Succs[0])
		// keep only blocks that can come back to the head (the rest left the loop)
		back := map[*ssa.BasicBlock]bool{}
		for changed := true; changed; {
			changed = false
			for x := range body {
				if back[x] {
					continue
				}
				for _, s := range x.Succs {
					if s == b || back[s] {
						back[x] = true
						changed = true
					}
				}
			}
		}
		if !back[b.Succs[0]] {
			continue // not a loop
		}
		a := &ArmLoop{P: p, Fn: fn, Next: call, Reader: call.Call.Args[0], Head: b, BodyEntry: b.Succs[0],
			InBody: back, Ops: map[*ssa.BasicBlock]opset{}, Effects: map[*ssa.BasicBlock][]Effect{}, entryOps: entryOps}
		a.computeOps()
		a.computeEffects()
		out = append(out, a)
	}
	return out
}

// nextDriverOps: the call is to a library helper taking the reader that (deep) calls Reader.Next
// and returns a bool; reports the operation types under which it can return true — i.e., with
// every test of Reader.Type answered for that type, a `return true` is reachable.
func nextDriverOps(call *ssa.Call) (opset, bool) {
	sc := call.Call.StaticCallee()
	if sc == nil || !isHelper(sc) || len(call.Call.Args) == 0 {
		return 0, false
	}
	o := originOf(sc)
	if o.Signature.Results().Len() != 1 {
		return 0, false
	}
	if b, ok := o.Signature.Results().At(0).Type().Underlying().(*types.Basic); !ok || b.Kind() != types.Bool {
		return 0, false
	}
	if len(callsToDeep(o, false, "(*commit.Reader).Next")) == 0 {
		return 0, false
	}
	var ops opset
	for op := 0; op <= opOther; op++ {
		op := op
		reach, _ := feasibleUnder(o, func(v ssa.Value) (bool, bool) {
			if k, eq, ok := typeTest(v); ok {
				return (k == op) == eq, true
			}
			return false, false
		})
		for _, ret := range returnsOf(o) {
			if !reach[ret.Block()] {
				continue
			}
			res := ret.Results[0]
			if c, isC := res.(*ssa.Const); isC && c.Value != nil && c.Value.String() == "false" {
				continue
			}
			ops |= 1 << uint(op)
		}
	}
	return ops, true
}

// typeTest recognises `r.Type == K` / `r.Type != K`.
func typeTest(cond ssa.Value) (k int, eq bool, ok bool) {
	if c, isCall := cond.(*ssa.Call); isCall {
		// the reader's own predicates: IsUpsert ≡ Type==Put, IsDelete ≡ Type==Delete, Bool ≡ Type==PutTrue
		switch {
		case methodOn(&c.Call, CommitPath, "Reader", "IsUpsert"), methodOn(&c.Call, CommitPath, "Reader", "Bool"):
			return opPut, true, true
		case methodOn(&c.Call, CommitPath, "Reader", "IsDelete"):
			return opDelete, true, true
		}
		return 0, false, false
	}
	bo, isBin := cond.(*ssa.BinOp)
	if !isBin || (bo.Op != token.EQL && bo.Op != token.NEQ) {
		return 0, false, false
	}
	x, y := bo.X, bo.Y
	if _, isC := strip(x).(*ssa.Const); isC {
		x, y = y, x
	}
	fr, isField := loadedField(x)
	if !isField || fr.Struct != "commit.Reader" || fr.Field != "Type" {
		return 0, false, false
	}
	c, isC := constInt(y)
	if !isC || c < 0 || c > 4 {
		return 0, false, false
	}
	return int(c), bo.Op == token.EQL, true
}

// computeOps: for every operation constant the edges of the function that are feasible when
// Reader.Type has that value (deep.go: conditions are evaluated through negations, named booleans,
// short-circuit φ-nodes and boolean helpers, so `switch`, `if` chains, `a || b`, early `continue`
// and `ok := r.IsUpsert() && rule(r)` all refine the same way); a block of the body executes under
// op when it is reachable from the body entry along such edges.
func (a *ArmLoop) computeOps() {
	a.feas = map[int]map[cfgEdge]bool{}
	for op := 0; op <= opOther; op++ {
		op := op
		_, feas := feasibleUnder(a.Fn, func(v ssa.Value) (bool, bool) {
			if k, eq, ok := typeTest(v); ok {
				return (k == op) == eq, true
			}
			return false, false
		})
		a.feas[op] = feas
		if !a.entryOps.has(op) {
			continue
		}
		seen := map[*ssa.BasicBlock]bool{a.BodyEntry: true}
		work := []*ssa.BasicBlock{a.BodyEntry}
		for len(work) > 0 {
			b := work[len(work)-1]
			work = work[:len(work)-1]
			a.Ops[b] |= 1 << uint(op)
			for _, s := range b.Succs {
				if !a.InBody[s] || seen[s] || !feas[cfgEdge{b, s}] {
					continue
				}
				seen[s] = true
				work = append(work, s)
			}
		}
	}
}

// rowOffsetOfWord recognises the word index of a bitmap access `x>>6` / `x/64` and returns x.
// throughTuple: a component of the result of a pure helper such as
// `bitAt(offset) (blk, bit) { return offset >> 6, 1 << (offset & 63) }` is the expression the
// helper returns for it; bindBack maps the helper's parameters back to the arguments of that call.
func throughTuple(v ssa.Value) (ssa.Value, func(ssa.Value) ssa.Value) {
	v = strip(v)
	idx := 0
	var call *ssa.Call
	switch x := v.(type) {
	case *ssa.Extract:
		call, _ = x.Tuple.(*ssa.Call)
		idx = x.Index
	case *ssa.Call:
		call = x
	}
	if call == nil {
		return v, nil
	}
	sc := call.Call.StaticCallee()
	if sc == nil || !isHelper(sc) {
		return v, nil
	}
	o := originOf(sc)
	rets := returnsOf(o)
	if len(rets) != 1 || idx >= len(rets[0].Results) || len(o.Blocks) != 1 {
		return v, nil
	}
	back := func(x ssa.Value) ssa.Value {
		if p, ok := strip(x).(*ssa.Parameter); ok && p.Parent() == o {
			for i, q := range o.Params {
				if q == p && i < len(call.Call.Args) {
					return strip(call.Call.Args[i])
				}
			}
		}
		return x
	}
	return strip(rets[0].Results[idx]), back
}

func rowOffsetOfWord(idx ssa.Value) (ssa.Value, bool) {
	if v, back := throughTuple(idx); back != nil {
		if x, ok := rowOffsetOfWord(v); ok {
			return back(x), true
		}
		return nil, false
	}
	bo, ok := strip(idx).(*ssa.BinOp)
	if !ok {
		return nil, false
	}
	c, isC := constInt(bo.Y)
	if !isC {
		return nil, false
	}
	if (bo.Op == token.SHR && c == 6) || (bo.Op == token.QUO && c == 64) {
		return strip(bo.X), true
	}
	return nil, false
}

// rowOffsetOfBit recognises the mask `1 << (x & 63)` / `1 << (x % 64)` and returns x.
func rowOffsetOfBit(mask ssa.Value) (ssa.Value, bool) {
	if v, back := throughTuple(mask); back != nil {
		if x, ok := rowOffsetOfBit(v); ok {
			return back(x), true
		}
		return nil, false
	}
	bo, ok := strip(mask).(*ssa.BinOp)
	if !ok || bo.Op != token.SHL {
		return nil, false
	}
	if one, isC := constInt(bo.X); !isC || one != 1 {
		return nil, false
	}
	in, ok := strip(bo.Y).(*ssa.BinOp)
	if !ok {
		return nil, false
	}
	c, isC := constInt(in.Y)
	if !isC {
		return nil, false
	}
	if (in.Op == token.AND && c == 63) || (in.Op == token.REM && c == 64) {
		return strip(in.X), true
	}
	return nil, false
}

func classify(p *Prog, ins ssa.Instruction, L func(cc *ssa.CallCommon) (lockOp, bool)) (Effect, bool) {
	switch x := ins.(type) {
	case *ssa.Store:
		ia, ok := x.Addr.(*ssa.IndexAddr)
		if !ok {
			return Effect{}, false
		}
		if isBitmap(ia.X.Type()) {
			bo, ok := x.Val.(*ssa.BinOp)
			if !ok {
				return Effect{}, false
			}
			e := Effect{Ins: ins, Target: ia.X, Val: bo.Y}
			switch bo.Op {
			case token.OR:
				e.Kind = "presence-set"
			case token.AND_NOT:
				e.Kind = "presence-clear"
			default:
				return Effect{}, false
			}
			// the row is recognisable both in the word index and in the mask, and they agree
			w, ok1 := rowOffsetOfWord(ia.Index)
			m, ok2 := rowOffsetOfBit(bo.Y)
			if !ok2 {
				m, ok2 = rowOffsetOfBit(bo.X)
			}
			if ok1 && ok2 && sameExpr(w, m) {
				e.Offset = w
			}
			return e, true
		}
		if _, isSlice := ia.X.Type().Underlying().(*types.Slice); isSlice {
			return Effect{Kind: "value-store", Ins: ins, Target: ia.X, Offset: strip(ia.Index), Val: x.Val}, true
		}
	case *ssa.MapUpdate:
		return Effect{Kind: "table-insert", Ins: ins, Target: x.Map, Val: x.Key, Offset: x.Value}, true
	case *ssa.Lookup:
		if _, isMap := x.X.Type().Underlying().(*types.Map); isMap {
			return Effect{Kind: "table-lookup", Ins: ins, Target: x.X, Val: x.Index}, true
		}
	case *ssa.Call:
		cc := &x.Call
		if L != nil {
			if op, ok := L(cc); ok {
				k := "unlock"
				if op.Acquire {
					k = "lock"
				}
				return Effect{Kind: k, Ins: ins, Lock: op.Name}, true
			}
		}
		if b, ok := cc.Value.(*ssa.Builtin); ok {
			if b.Name() == "delete" {
				return Effect{Kind: "table-delete", Ins: ins, Target: cc.Args[0], Val: cc.Args[1]}, true
			}
			return Effect{}, false
		}
		switch {
		case methodOn(cc, "github.com/kelindar/bitmap", "Bitmap", "Set"):
			return Effect{Kind: "presence-set", Ins: ins, Target: cc.Args[0], Offset: strip(cc.Args[1])}, true
		case methodOn(cc, "github.com/kelindar/bitmap", "Bitmap", "Remove"):
			return Effect{Kind: "presence-clear", Ins: ins, Target: cc.Args[0], Offset: strip(cc.Args[1])}, true
		case methodOn(cc, "github.com/tidwall/btree", "BTreeG", "Set"):
			return Effect{Kind: "tree-insert", Ins: ins, Target: cc.Args[0], Val: cc.Args[1]}, true
		case methodOn(cc, "github.com/tidwall/btree", "BTreeG", "Delete"):
			return Effect{Kind: "tree-delete", Ins: ins, Target: cc.Args[0], Val: cc.Args[1]}, true
		}
		if sc := cc.StaticCallee(); sc != nil && sc.Signature.Recv() != nil && isNamed(sc.Signature.Recv().Type(), CommitPath, "Reader") && strings.HasPrefix(sc.Name(), "Swap") {
			return Effect{Kind: "swap", Ins: ins, Val: cc.Args[1]}, true
		}
		if cc.StaticCallee() == nil && !cc.IsInvoke() {
			if fr, ok := loadedField(cc.Value); ok {
				if fr.Field == "Merge" {
					return Effect{Kind: "merge-call", Ins: ins}, true
				}
				return Effect{Kind: "callback", Ins: ins, Lock: fr.Struct + "." + fr.Field}, true
			}
		}
	}
	return Effect{}, false
}

func (a *ArmLoop) computeEffects() {
	var L *LFacts
	lf := func(cc *ssa.CallCommon) (lockOp, bool) {
		if L == nil {
			L = &LFacts{P: a.P}
		}
		return L.classifyLock(cc, a.Fn)
	}
	// effects of library helpers called from the body are attributed to the call site
	// (inlining bound 3); their row expressions are not tracked (Inlined)
	// Operands that are parameters of the helper are replaced by the arguments of the call.
	var helper func(fn *ssa.Function, args []ssa.Value, depth int, seen map[*ssa.Function]bool) []Effect
	helper = func(fn *ssa.Function, args []ssa.Value, depth int, seen map[*ssa.Function]bool) []Effect {
		if fn == nil || fn.Blocks == nil || depth > 3 || seen[fn] || !a.P.InLib(fn) {
			return nil
		}
		if rn := recvNamed(fn); rn != nil && rn.Obj().Pkg() != nil && rn.Obj().Pkg().Path() == CommitPath {
			return nil // reader/buffer methods are primitives (swap, reads)
		}
		seen[fn] = true
		// bind: parameter → argument (nil when the argument is unknown)
		bind := func(v ssa.Value) (ssa.Value, bool) {
			if v == nil {
				return nil, false
			}
			if p, ok := strip(v).(*ssa.Parameter); ok && p.Parent() == fn {
				for i, q := range fn.Params {
					if q == p && i < len(args) {
						return args[i], args[i] != nil
					}
				}
				return nil, false
			}
			return nil, false
		}
		// which blocks of the helper run under which operation type, for this call
		mayIn, mustIn, hInfo := helperOps(fn, func(v ssa.Value) (bool, bool) {
			if p, isPar := v.(*ssa.Parameter); isPar {
				if x, ok := bind(p); ok {
					if c, isC := strip(x).(*ssa.Const); isC && c.Value != nil && (c.Value.String() == "true" || c.Value.String() == "false") {
						return c.Value.String() == "true", true
					}
				}
			}
			return false, false
		})
		var out []Effect
		allInstrs(fn, func(ins ssa.Instruction) {
			if e, ok := classify(a.P, ins, nil); ok {
				e.Inlined = true
				e.Inner = ins
				e.MayOps, e.MustOps, e.H, e.hBlock = mayIn[ins.Block()], mustIn[ins.Block()], hInfo, ins.Block()
				e.Bind = func(v ssa.Value) ssa.Value {
					if x, ok := bind(v); ok {
						return x
					}
					return nil
				}
				if v, ok := bind(e.Offset); ok {
					e.Offset = strip(v)
				} else {
					e.Offset = nil
				}
				if v, ok := bind(e.Target); ok {
					e.Target = v
				}
				if v, ok := bind(e.Val); ok {
					e.Val = v
				}
				out = append(out, e)
				return
			}
			if cc, _, _ := callCommon(ins); cc != nil && cc.StaticCallee() != nil {
				inner := make([]ssa.Value, len(cc.Args))
				for i, x := range cc.Args {
					if v, ok := bind(x); ok {
						inner[i] = v
					} else if _, isPar := strip(x).(*ssa.Parameter); !isPar {
						inner[i] = nil
					}
				}
				for _, ne := range helper(cc.StaticCallee(), inner, depth+1, seen) {
					// nested helper: its effects run only where this call runs
					ne.MayOps &= mayIn[ins.Block()]
					ne.MustOps &= mustIn[ins.Block()]
					if ne.H != nil && ne.H != hInfo {
						// seen from this helper the nested effect happens at the nested call
						ne.H, ne.hBlock = hInfo, ins.Block()
					}
					out = append(out, ne)
				}
				delete(seen, cc.StaticCallee()) // guards against recursion only: a helper called twice is read twice
			}
		})
		return out
	}
	for b := range a.InBody {
		for _, ins := range b.Instrs {
			if e, ok := classify(a.P, ins, lf); ok {
				a.Effects[b] = append(a.Effects[b], e)
				continue
			}
			if cc, _, _ := callCommon(ins); cc != nil && cc.StaticCallee() != nil {
				for _, e := range helper(cc.StaticCallee(), cc.Args, 1, map[*ssa.Function]bool{}) {
					e.Ins = ins
					a.Effects[b] = append(a.Effects[b], e)
				}
			}
		}
	}
}

// helperOps: for every block of helper fn the operation types under which it can execute (may) and
// under which every path from the helper's entry to a return passes through it (must). Branches
// are decided by the tests of Reader.Type and by extra (constant arguments of the call).
func helperOps(fn *ssa.Function, extra func(ssa.Value) (bool, bool)) (may, must map[*ssa.BasicBlock]opset, hi *helperInline) {
	may, must = map[*ssa.BasicBlock]opset{}, map[*ssa.BasicBlock]opset{}
	hi = &helperInline{fn: fn}
	for op := 0; op <= opOther; op++ {
		op := op
		reach, feas := feasibleUnder(fn, func(v ssa.Value) (bool, bool) {
			if k, eq, ok := typeTest(v); ok {
				return (k == op) == eq, true
			}
			return extra(v)
		})
		hi.feas[op] = feas
		for b := range reach {
			may[b] |= 1 << uint(op)
		}
		// must: no feasible path from the entry to a return avoids b
		for b := range reach {
			avoid := false
			seen := map[*ssa.BasicBlock]bool{}
			var dfs func(x *ssa.BasicBlock)
			dfs = func(x *ssa.BasicBlock) {
				if avoid || seen[x] || x == b {
					return
				}
				seen[x] = true
				if len(x.Instrs) > 0 {
					if _, isRet := x.Instrs[len(x.Instrs)-1].(*ssa.Return); isRet {
						avoid = true
						return
					}
				}
				for _, s := range x.Succs {
					if feas[cfgEdge{x, s}] {
						dfs(s)
					}
				}
			}
			dfs(fn.Blocks[0])
			if !avoid {
				must[b] |= 1 << uint(op)
			}
		}
	}
	return may, must, hi
}

// All effects of a kind executed under op.
func (a *ArmLoop) May(op int, kind string) []Effect {
	var out []Effect
	for b, es := range a.Effects {
		if !a.Ops[b].has(op) {
			continue
		}
		for _, e := range es {
			if e.Kind == kind && (!e.Inlined || e.MayOps.has(op)) {
				out = append(out, e)
			}
		}
	}
	sort.Slice(out, func(i, j int) bool { return out[i].Ins.Pos() < out[j].Ins.Pos() })
	return out
}

// Must: every path of one iteration executed under op — from the body entry back to the loop
// head or out of the loop — passes an effect of one of the kinds.
func (a *ArmLoop) Must(op int, kinds ...string) bool {
	has := func(b *ssa.BasicBlock) bool {
		groups := map[*helperInline]map[*ssa.BasicBlock]bool{}
		for _, e := range a.Effects[b] {
			for _, k := range kinds {
				if e.Kind != k {
					continue
				}
				if !e.Inlined || e.MustOps.has(op) {
					return true
				}
				// inside a helper, on some of its paths only: together with the other effects of
				// these kinds in the same inlining they may still cover every path (set on one
				// branch, clear on the other)
				if e.H != nil && e.hBlock != nil && e.MayOps.has(op) {
					if groups[e.H] == nil {
						groups[e.H] = map[*ssa.BasicBlock]bool{}
					}
					groups[e.H][e.hBlock] = true
				}
			}
		}
		for h, blocks := range groups {
			if h.mustPassOneOf(op, blocks) {
				return true
			}
		}
		return false
	}
	if !a.Ops[a.BodyEntry].has(op) {
		return true
	}
	if has(a.BodyEntry) {
		return true
	}
	seen := map[*ssa.BasicBlock]bool{a.BodyEntry: true}
	work := []*ssa.BasicBlock{a.BodyEntry}
	for len(work) > 0 {
		b := work[len(work)-1]
		work = work[:len(work)-1]
		outs := a.edgeOps(b)
		for i, s := range b.Succs {
			if !outs[i].has(op) {
				continue
			}
			// the edge on which the location already holds the value: `if data[i] != v { data[i] = v }`
			// — on the equal edge the store would change nothing, the effect is established
			if a.establishedOn(b, i, kinds) {
				continue
			}
			if s == a.Head || !a.InBody[s] {
				return false // completed the iteration (or left) without the effect
			}
			if seen[s] || has(s) {
				continue
			}
			seen[s] = true
			work = append(work, s)
		}
	}
	return true
}

// edgeOps: op sets flowing along each outgoing edge of b.
func (a *ArmLoop) edgeOps(b *ssa.BasicBlock) []opset {
	in := a.Ops[b]
	outs := make([]opset, len(b.Succs))
	for i, s := range b.Succs {
		for op := 0; op <= opOther; op++ {
			if in.has(op) && a.feas[op][cfgEdge{b, s}] {
				outs[i] |= 1 << uint(op)
			}
		}
	}
	return outs
}

// HandledOps: operation constants for which the loop has a dedicated branch (some block is
// executed under that op but not under all ops).
func (a *ArmLoop) EffectKindsUnder(op int) []string {
	set := map[string]bool{}
	for b, es := range a.Effects {
		if a.Ops[b].has(op) {
			for _, e := range es {
				if !e.Inlined || e.MayOps.has(op) {
					set[e.Kind] = true
				}
			}
		}
	}
	var out []string
	for k := range set {
		out = append(out, k)
	}
	sort.Strings(out)
	return out
}

// establishedOn: edge i out of b is the equal edge of a comparison `load(L) == V` (or the false edge
// of !=) where some effect of the given kinds in this loop stores V to L (a slice element or a map
// entry): taking that edge, L already holds what the effect would store. Values are compared modulo
// copies (strings.Clone, string([]byte)) and repeated reads of the reader's current value.
func (a *ArmLoop) establishedOn(b *ssa.BasicBlock, i int, kinds []string) bool {
	if len(b.Instrs) == 0 || len(b.Succs) != 2 {
		return false
	}
	iff, ok := b.Instrs[len(b.Instrs)-1].(*ssa.If)
	if !ok {
		return false
	}
	bo, ok := iff.Cond.(*ssa.BinOp)
	if !ok || (bo.Op != token.EQL && bo.Op != token.NEQ) {
		return false
	}
	if (bo.Op == token.EQL) != (i == 0) {
		return false // the unequal edge
	}
	sameVal := func(x, y ssa.Value) bool {
		x, y = unwrapCopy(x), unwrapCopy(y)
		if sameExpr(x, y) {
			return true
		}
		// two reads of the reader's current value (r.String(), r.Bytes(), …) within one iteration
		cx, okx := strip(x).(*ssa.Call)
		cy, oky := strip(y).(*ssa.Call)
		if okx && oky && len(cx.Call.Args) == 1 && len(cy.Call.Args) == 1 {
			sx, sy := cx.Call.StaticCallee(), cy.Call.StaticCallee()
			if sx != nil && sx == sy && methodOn(&cx.Call, CommitPath, "Reader", sx.Name()) && sameExpr(cx.Call.Args[0], cy.Call.Args[0]) {
				return true
			}
		}
		return false
	}
	for _, es := range a.Effects {
		for _, e := range es {
			if e.Inlined {
				continue
			}
			match := false
			for _, k := range kinds {
				if e.Kind == k {
					match = true
				}
			}
			if !match {
				continue
			}
			for _, pair := range [][2]ssa.Value{{bo.X, bo.Y}, {bo.Y, bo.X}} {
				loc, val := pair[0], pair[1]
				switch x := e.Ins.(type) {
				case *ssa.Store:
					if ld, isLd := strip(loc).(*ssa.UnOp); isLd && ld.Op == token.MUL && sameExpr(ld.X, x.Addr) && sameVal(val, x.Val) {
						return true
					}
				case *ssa.MapUpdate:
					lk := strip(loc)
					if ex, isEx := lk.(*ssa.Extract); isEx && ex.Index == 0 {
						lk = ex.Tuple
					}
					if l, isL := lk.(*ssa.Lookup); isL && sameExpr(l.X, x.Map) && sameExpr(l.Index, x.Key) && sameVal(val, x.Value) {
						return true
					}
				}
			}
		}
	}
	return false
}
