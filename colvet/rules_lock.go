package colvet

import (
	"fmt"
	"go/token"
	"go/types"
	"sort"
	"strings"

	"golang.org/x/tools/go/ssa"
)

// fnName: stable short name of a function: generic instances collapse onto their origin, closures
// keep their "$n" suffix.
func fnName(fn *ssa.Function) string {
	top := fn
	for top.Parent() != nil {
		top = top.Parent()
	}
	base := Short(originOf(top).String())
	if fn != top {
		n := fn.Name()
		if i := strings.Index(n, "$"); i >= 0 {
			base += n[i:]
		}
	}
	return base
}

func topFn(fn *ssa.Function) *ssa.Function {
	for fn.Parent() != nil {
		fn = fn.Parent()
	}
	return fn
}

// inColumnPkg: function belongs to package column (not commit).
func (p *Prog) inColumnPkg(fn *ssa.Function) bool { return pkgOf(fn) == p.Col }

func heldStr(h heldSet) string { return h.key() }

// worstSite picks, among the contexts of an instruction, one violating `ok`.
func worstSite(ss []LSite, ok func(heldSet) bool) *LSite {
	for i := range ss {
		if !ok(ss[i].Held) {
			return &ss[i]
		}
	}
	return nil
}

func setWitness(o *Obligation, s *LSite) {
	if o == nil || s == nil {
		return
	}
	o.Held = heldStr(s.Held)
	o.Path = s.Ctx.PathNames()
}

// ---------------------------------------------------------------------------------------------
// L0: balance and shard pairing

func ruleL0(r *Report) {
	L := r.Shared.Lockset()
	h := r.Rule("L0", "L", "every library function that operates a lock leaves with exactly the locks it entered with (deferred releases counted at the exits); a latch release names the shard of the acquire that dominates it", 20)
	unb := map[string]unbalanced{}
	for _, u := range L.Unbal {
		unb[fnName(u.Ctx.Fn)] = u
	}
	type info struct {
		fn  *ssa.Function
		ops []lockOp
		ins []ssa.Instruction
	}
	fns := map[string]*info{}
	for fn := range r.P.modFunc {
		allInstrs(fn, func(ins ssa.Instruction) {
			if cc, _, _ := callCommon(ins); cc != nil {
				if ops, ok := L.classifyLocks(cc, fn); ok {
					n := fnName(fn)
					if fns[n] == nil {
						fns[n] = &info{fn: fn}
					}
					for _, op := range ops {
						fns[n].ops = append(fns[n].ops, op)
						fns[n].ins = append(fns[n].ins, ins)
					}
				}
			}
		})
	}
	var names []string
	for n := range fns {
		names = append(names, n)
	}
	sort.Strings(names)
	for _, n := range names {
		fi := fns[n]
		if L.lockWrapper(fi.fn) != nil {
			h.OK(n, r.P.Pos(fi.fn.Pos()), "lock wrapper (one lock operation, nothing else): every call of it is read as that operation and balanced in the caller")
			continue
		}
		if u, bad := unb[n]; bad {
			o := h.Bad(n, r.P.InstrPos(u.Exit), fmt.Sprintf("unbalanced: entered with {%s}, reaches this exit with {%s}", u.Entry, u.AtEnd))
			o.Path = u.Ctx.PathNames()
			continue
		}
		// shard pairing for the latch
		msg := ""
		for i, op := range fi.ops {
			if op.Name != "latch" || op.Acquire {
				continue
			}
			found := false
			for j, aq := range fi.ops {
				if aq.Name == "latch" && aq.Acquire && aq.Mode == op.Mode && sameExpr(aq.Shard, op.Shard) && sameExpr(aq.Recv, op.Recv) &&
					(precedes(fi.ins[j], fi.ins[i]) || isDeferIns(fi.ins[i])) {
					found = true
				}
			}
			if !found {
				msg = fmt.Sprintf("latch release at %s has no dominating acquire of the same mode on the same shard value", r.P.InstrPos(fi.ins[i]))
			}
		}
		// no path leaks an acquire: the must-hold sets above are intersections at joins, so a lock that
		// is still held on ONE of the paths into a join (a `continue` before the unlock) drops out of
		// them silently; this clause follows every path from each acquire to an exit, or round a
		// loop back to the acquire, and demands the matching release on it (or a deferred one)
		for i, op := range fi.ops {
			if !op.Acquire || isDeferIns(fi.ins[i]) {
				continue
			}
			matches := func(j int) bool {
				o := fi.ops[j]
				if o.Acquire || o.Name != op.Name || o.Mode != op.Mode {
					return false
				}
				if op.Name == "latch" && !(sameExpr(o.Shard, op.Shard) && sameExpr(o.Recv, op.Recv)) {
					return false
				}
				return true
			}
			deferred := false
			rel := map[ssa.Instruction]bool{}
			for j := range fi.ops {
				if matches(j) {
					if isDeferIns(fi.ins[j]) {
						deferred = true
					} else {
						rel[fi.ins[j]] = true
					}
				}
			}
			if deferred {
				continue
			}
			if leak := leakFrom(fi.ins[i], func(ins ssa.Instruction) bool { return rel[ins] }); leak != nil && msg == "" {
				msg = fmt.Sprintf("%s:%s acquired at %s is still held where the path reaches %s (no matching release on that path)", op.Name, string(op.Mode), r.P.InstrPos(fi.ins[i]), r.P.InstrPos(leak))
			}
		}
		if msg != "" {
			h.Bad(n, r.P.Pos(fi.fn.Pos()), msg)
		} else {
			h.OK(n, r.P.Pos(fi.fn.Pos()), fmt.Sprintf("%d lock operations, balanced in every context and on every path", len(fi.ops)))
		}
	}
}

func isDeferIns(ins ssa.Instruction) bool { _, ok := ins.(*ssa.Defer); return ok }

// leakFrom follows every path from the acquire: it returns the instruction at which a path ends
// without having passed a release — a return, or the acquire itself reached again round a loop —
// or nil if every path releases.
func leakFrom(acq ssa.Instruction, isRel func(ssa.Instruction) bool) ssa.Instruction {
	start := acq.Block()
	if blockHas(start, instrIndex(acq)+1, isRel) {
		return nil
	}
	last := start.Instrs[len(start.Instrs)-1]
	if _, isRet := last.(*ssa.Return); isRet {
		return last
	}
	seen := map[*ssa.BasicBlock]bool{}
	work := append([]*ssa.BasicBlock{}, start.Succs...)
	for len(work) > 0 {
		b := work[len(work)-1]
		work = work[:len(work)-1]
		if b == start {
			// back at the acquire without a release (unless one precedes it in its own block)
			released := false
			for k := 0; k < instrIndex(acq); k++ {
				if isRel(start.Instrs[k]) {
					released = true
				}
			}
			if !released {
				return acq
			}
			continue
		}
		if seen[b] {
			continue
		}
		seen[b] = true
		if blockHas(b, 0, isRel) {
			continue
		}
		l := b.Instrs[len(b.Instrs)-1]
		if _, isRet := l.(*ssa.Return); isRet {
			return l
		}
		work = append(work, b.Succs...)
	}
	return nil
}

// ---------------------------------------------------------------------------------------------
// L1: Apply under the exclusive latch

// applySites: call sites that apply a commit reader to a registered column.
func applySites(r *Report) map[ssa.Instruction][]LSite {
	L := r.Shared.Lockset()
	return L.SitesOf(func(ins ssa.Instruction) bool {
		cc, _, _ := callCommon(ins)
		if cc == nil {
			return false
		}
		if calleeIs(cc, "(*column.column).Apply") {
			return true
		}
		if cc.IsInvoke() && cc.Method.Name() == "Apply" && isNamed(cc.Value.Type(), ModPath, "Column") {
			return fnName(topFn(ins.Parent())) != "(*column.column).Apply" // a closure of the wrapper is the wrapper
		}
		return false
	})
}

// ruleL1 checks that every Apply call site holds latch:W. Sites in functions listed in exempt
// are reported under the separate rule id exemptRule (used by C10, which leaves index back-fill
// to C18).
func ruleL1(r *Report, exempt map[string]bool) {
	h := r.Rule("L1", "L", "every call that applies operations to a registered column (`(*column).Apply`, or `Column.Apply` outside the wrapper) holds the block's exclusive latch on every call path", 2)
	type at struct {
		ins ssa.Instruction
		s   *LSite
	}
	by := map[string][]at{}
	sites := applySites(r)
	for ins, ss := range sites {
		for i := range ss {
			n := siteOwner(ins, &ss[i])
			by[n] = append(by[n], at{ins, &ss[i]})
		}
	}
	for _, n := range sortedKeys(by) {
		owner := n
		if i := strings.Index(owner, "$"); i > 0 {
			owner = owner[:i]
		}
		if exempt[fnName(topFn(by[n][0].ins.Parent()))] || exempt[owner] {
			continue
		}
		sort.Slice(by[n], func(i, j int) bool { return by[n][i].ins.Pos() < by[n][j].ins.Pos() })
		var bad *LSite
		var badIns ssa.Instruction
		for _, a := range by[n] {
			if !a.s.Held.hasW("latch") && bad == nil {
				bad, badIns = a.s, a.ins
			}
		}
		if bad != nil {
			o := h.Bad(n, r.P.InstrPos(badIns), "column Apply reached without the exclusive block latch")
			setWitness(o, bad)
		} else {
			h.OK(n, r.P.InstrPos(by[n][0].ins), fmt.Sprintf("latch:W held in all %d contexts", len(by[n])))
		}
	}
}

// siteOwner names the construct a lock obligation is keyed by: the function containing the site,
// or — when that is a mere helper (deep.go) — the nearest caller on the analysed path that is not,
// so that moving statements into a helper does not rename the obligation.
func siteOwner(ins ssa.Instruction, s *LSite) string {
	fn := ins.Parent()
	if !isHelper(topFn(fn)) {
		return fnName(fn)
	}
	for c := s.Ctx; c != nil; c = c.Parent {
		if !isHelper(topFn(c.Fn)) {
			return fnName(c.Fn)
		}
	}
	return fnName(fn)
}

func sortedKeys[V any](m map[string]V) []string {
	var ks []string
	for k := range m {
		ks = append(ks, k)
	}
	sort.Strings(ks)
	return ks
}

// ---------------------------------------------------------------------------------------------
// L2: positioned user callbacks under the latch

// storesCursor: fn or one of its lexical ancestors stores to Txn.cursor.
func storesCursor(fn *ssa.Function) (ssa.Value, bool) {
	for f := fn; f != nil; f = f.Parent() {
		var val ssa.Value
		allInstrs(f, func(ins ssa.Instruction) {
			if st, ok := ins.(*ssa.Store); ok {
				if fr, ok := fieldOf(st.Addr); ok && fr.Struct == "column.Txn" && fr.Field == "cursor" {
					val = st.Val
				}
			}
		})
		if val != nil {
			return val, true
		}
	}
	return nil, false
}

func ruleL2(r *Report) {
	L := r.Shared.Lockset()
	h := r.Rule("L2", "L", "every invocation of a client callback after the transaction cursor was positioned holds the block latch (R or W) on every call path", 3)
	type cbSite struct {
		ins ssa.Instruction
		s   *LSite
	}
	by := map[string][]cbSite{}
	var inss []ssa.Instruction
	for ins := range L.UserCB {
		inss = append(inss, ins)
	}
	sort.Slice(inss, func(i, j int) bool { return inss[i].Pos() < inss[j].Pos() })
	for _, ins := range inss {
		fn := ins.Parent()
		if !r.P.inColumnPkg(fn) {
			continue
		}
		if _, ok := storesCursor(fn); !ok {
			continue
		}
		ss := L.UserCB[ins]
		for i := range ss {
			// keyed by the API function the callback belongs to: a helper (function or method value)
			// that the loop body was moved into does not rename the obligation
			n := fnName(topFn(fn))
			if isHelper(topFn(fn)) {
				for c := ss[i].Ctx; c != nil; c = c.Parent {
					if !isHelper(topFn(c.Fn)) {
						n = fnName(topFn(c.Fn))
						break
					}
				}
			}
			by[n] = append(by[n], cbSite{ins, &ss[i]})
		}
	}
	for _, n := range sortedKeys(by) {
		var bad *LSite
		var badIns ssa.Instruction
		var bare *LSite
		var bareIns ssa.Instruction
		for _, c := range by[n] {
			if !c.s.Held.has("latch") && bad == nil {
				bad, badIns = c.s, c.ins
			}
			// without the latch *and* without any other lock of the library: a different defect from
			// a callback that runs under the collection mutex instead of the latch (KF10), and it gets
			// a key of its own so that the known finding does not absorb it
			if !c.s.Held.has("latch") && bare == nil {
				any := false
				for k := range c.s.Held {
					if !strings.HasPrefix(k, "latch") {
						any = true
					}
				}
				if !any {
					bare, bareIns = c.s, c.ins
				}
			}
		}
		if bare != nil {
			o := h.Bad(n+"/no lock at all", r.P.InstrPos(bareIns), "positioned row callback invoked holding no lock of the library at all: commits are applied to the rows, and to the structure being iterated, while the callback runs")
			setWitness(o, bare)
		}
		if bad != nil {
			o := h.Bad(n, r.P.InstrPos(badIns), "positioned row callback invoked without the block latch: a commit can change the row between two reads of the callback")
			setWitness(o, bad)
		} else {
			h.OK(n, r.P.InstrPos(by[n][0].ins), "callback invoked under the latch in every context")
		}
	}
}

// ---------------------------------------------------------------------------------------------
// C10.shard: the latch taken is the latch of the block that is used

func ruleShard(r *Report) {
	L := r.Shared.Lockset()
	h := r.Rule("C10.shard", "L+def-use", "in every function that takes the block latch, the shard is the block that the critical section works on: every Chunk-typed value used between acquire and release is the shard value, and a cursor positioned there lies in that block", 3)
	for fn := range r.P.modFunc {
		if !r.P.inColumnPkg(fn) {
			continue
		}
		if fn.Origin() != nil { // instances repeat their origin
			continue
		}
		var acq []ssa.Instruction
		var ops []lockOp
		allInstrs(fn, func(ins ssa.Instruction) {
			if cc, _, _ := callCommon(ins); cc != nil {
				if op, ok := L.classifyLock(cc, fn); ok && op.Name == "latch" && op.Acquire {
					acq = append(acq, ins)
					ops = append(ops, op)
				}
			}
		})
		if len(acq) == 0 {
			continue
		}
		n := fnName(fn)
		msg := ""
		for i, a := range acq {
			shard := strip(ops[i].Shard)
			// (a) Chunk-typed values used inside the critical section (call arguments, receivers,
			// indexes): each must be the shard value
			var rels []ssa.Instruction
			allInstrs(fn, func(ins ssa.Instruction) {
				if cc, isDefer, _ := callCommon(ins); cc != nil && !isDefer {
					if op, ok := L.classifyLock(cc, fn); ok && op.Name == "latch" && !op.Acquire {
						rels = append(rels, ins)
					}
				}
			})
			inCS := func(ins ssa.Instruction) bool {
				if ins == a || !precedes(a, ins) {
					return false
				}
				for _, rel := range rels {
					if rel == ins || precedes(rel, ins) {
						return false
					}
				}
				return true
			}
			allInstrs(fn, func(ins ssa.Instruction) {
				if msg != "" || !inCS(ins) {
					return
				}
				var vals []ssa.Value
				if cc, _, _ := callCommon(ins); cc != nil {
					if _, ok := L.classifyLock(cc, fn); ok {
						return
					}
					vals = append(vals, cc.Args...)
				}
				if ia, ok := ins.(*ssa.IndexAddr); ok {
					if fr, ok := loadedField(ia.X); ok && fr.Struct == "column.Collection" && fr.Field == "commits" {
						if !sameExpr(ia.Index, shard) {
							msg = fmt.Sprintf("%s indexes the commit-id table with %s but the latch was taken on shard %s", r.P.InstrPos(ins), ia.Index.Name(), shard.Name())
						}
					}
				}
				for _, v := range vals {
					if v == nil || !isNamed(v.Type(), CommitPath, "Chunk") {
						continue
					}
					if !sameExpr(v, shard) {
						msg = fmt.Sprintf("%s passes block value %s but the latch was taken on shard %s", r.P.InstrPos(ins), v.Name(), shard.Name())
					}
				}
			})
			// (b) a cursor positioned in this function must lie in the shard's block
			allInstrs(fn, func(ins ssa.Instruction) {
				st, ok := ins.(*ssa.Store)
				if !ok || msg != "" {
					return
				}
				if fr, ok := fieldOf(st.Addr); ok && fr.Struct == "column.Txn" && fr.Field == "cursor" {
					c, ok := shard.(*ssa.Call)
					if ok {
						// the latch was taken through a wrapper that maps an offset to its block and returns it
						if w := L.lockWrapper(c.Call.StaticCallee()); w != nil && w.shardViaChunkAt && w.returnsShard && w.shardParam < len(c.Call.Args) && sameExpr(c.Call.Args[w.shardParam], st.Val) {
							return
						}
					}
					if !ok || !calleeIs(&c.Call, "commit.ChunkAt") || !sameExpr(c.Call.Args[0], st.Val) {
						msg = fmt.Sprintf("%s positions the cursor on %s but the shard %s is not commit.ChunkAt of that value", r.P.InstrPos(ins), st.Val.Name(), shard.Name())
					}
				}
			})
		}
		if msg != "" {
			h.Bad(n, r.P.Pos(fn.Pos()), msg)
		} else {
			h.OK(n, r.P.Pos(fn.Pos()), fmt.Sprintf("%d acquire(s); block values inside the critical section are the shard", len(acq)))
		}
	}
}

// ---------------------------------------------------------------------------------------------
// Storage fields

type storageKind int

const (
	stNone   storageKind = iota
	stBlock              // selected by block: fill/data of a chunks[T] element
	stWhole              // whole-collection container (bitmap, slice, map, tree)
	stHeader             // the chunks[T] slice header itself
	stConfig             // immutable after construction
	stLock
)

// storageField classifies a field of a Column implementation.
func storageField(fr fieldRef) storageKind {
	if strings.HasPrefix(fr.Struct, "struct{fill ") && (fr.Field == "fill" || fr.Field == "data") {
		return stBlock
	}
	switch fr.Struct + "." + fr.Field {
	case "column.numericColumn.chunks", "column.columnString.chunks", "column.columnEnum.chunks":
		return stHeader
	case "column.columnBool.data", "column.columnIndex.fill", "column.columnEnum.data", "column.columnEnum.seek",
		"column.columnKey.seek", "column.columnSortIndex.btree", "column.columnSortIndex.backMap":
		return stWhole
	case "column.columnKey.lock", "column.columnSortIndex.backLock":
		return stLock
	case "column.numericColumn.option", "column.numericColumn.write", "column.numericColumn.apply",
		"column.columnString.option", "column.columnKey.columnString", "column.columnKey.name",
		"column.columnRecord.columnString", "column.columnRecord.pool", "column.columnIndex.name",
		"column.columnIndex.rule", "column.columnTrigger.name", "column.columnTrigger.clbk", "column.columnSortIndex.name":
		return stConfig
	}
	return stNone
}

// ruleStorageTable checks that the classification above covers every field of every library type
// implementing Column (a new field would otherwise escape the lock rules silently).
func ruleStorageTable(r *Report) {
	h := r.Rule("L.table", "S", "every field of every Column implementation in the library is classified (block storage / whole storage / header / config / lock) in the checker's table", 8)
	iface := r.P.columnIface()
	if iface == nil {
		r.Unresolve("interface column.Column")
		return
	}
	sc := r.P.Col.Pkg.Scope()
	for _, name := range sc.Names() {
		tn, ok := sc.Lookup(name).(*types.TypeName)
		if !ok {
			continue
		}
		n, ok := tn.Type().(*types.Named)
		if !ok {
			continue
		}
		st, ok := n.Underlying().(*types.Struct)
		if !ok || name == "column" {
			continue
		}
		var inst types.Type = n
		if n.TypeParams().Len() > 0 {
			// instantiate with the constraint's core is overkill: check method names instead
			ms := types.NewMethodSet(types.NewPointer(n))
			all := true
			for i := 0; i < iface.NumMethods(); i++ {
				if ms.Lookup(r.P.Col.Pkg, iface.Method(i).Name()) == nil && ms.Lookup(nil, iface.Method(i).Name()) == nil {
					all = false
				}
			}
			if !all {
				continue
			}
		} else if !types.Implements(types.NewPointer(inst), iface) {
			continue
		}
		for i := 0; i < st.NumFields(); i++ {
			f := st.Field(i)
			fr := fieldRef{Struct: "column." + name, Field: f.Name()}
			if storageField(fr) == stNone && constructionOnly(r.P)[fr.Struct+"."+fr.Field] {
				// a value that is assigned only while the object is built and only read afterwards (a
				// name, a base struct of names) is a constant of the object and needs no synchronisation
				h.OK(fr.Struct+"."+fr.Field, r.P.Pos(f.Pos()), "not in the table; assigned only during construction and only read afterwards")
				continue
			}
			h.Check(storageField(fr) != stNone, fr.Struct+"."+fr.Field, r.P.Pos(f.Pos()), "classified", "field of a Column implementation is not in the checker's storage table; its synchronisation is not checked")
		}
	}
}

// ---------------------------------------------------------------------------------------------
// L3: reads of column storage under the latch, grouped by API root

func isGrowPath(c *LCtx) bool {
	for x := c; x != nil; x = x.Parent {
		if x.Fn.Name() == "Grow" && x.Fn.Signature.Recv() != nil {
			return true
		}
	}
	return false
}

func pathHas(c *LCtx, names ...string) bool {
	for x := c; x != nil; x = x.Parent {
		n := fnName(x.Fn)
		for _, m := range names {
			if n == m {
				return true
			}
		}
	}
	return false
}

// constructorCtx: the access happens while the object is being built (make*, For*, new*).
func constructorCtx(c *LCtx) bool {
	for x := c; x != nil; x = x.Parent {
		n := x.Fn.Name()
		if x.Fn.Signature.Recv() == nil && x.Fn.Parent() == nil &&
			(strings.HasPrefix(n, "make") || strings.HasPrefix(n, "new") || strings.HasPrefix(n, "For")) {
			return true
		}
	}
	return false
}

func ruleL3(r *Report, onlyRoots func(string) bool) { ruleL3f(r, onlyRoots, 40) }

func ruleL3f(r *Report, onlyRoots func(string) bool, floor int) {
	L := r.Shared.Lockset()
	h := r.Rule("L3", "L", "every access to column storage (presence bitmaps, value arrays, whole-collection bitmaps, the enum table) outside growth and construction holds the block latch on every call path from the API root", floor)
	// storage accesses per context
	type acc struct {
		ins  ssa.Instruction
		held heldSet
	}
	perCtx := map[int][]acc{}
	for ins, ss := range L.At {
		var fr fieldRef
		var ok bool
		switch x := ins.(type) {
		case *ssa.FieldAddr:
			fr, ok = fieldOf(x)
		case *ssa.Field:
			fr, ok = fieldOf(x)
		}
		if !ok {
			continue
		}
		k := storageField(fr)
		if k != stBlock && k != stWhole {
			continue
		}
		if fr.Struct == "column.columnKey" || fr.Struct == "column.columnSortIndex" {
			continue // own locks: rule L6 (the key table is consulted before the row exists)
		}
		for i := range ss {
			s := &ss[i]
			if isGrowPath(s.Ctx) || constructorCtx(s.Ctx) {
				continue
			}
			perCtx[s.Ctx.ID] = append(perCtx[s.Ctx.ID], acc{ins, s.Held})
		}
	}
	type res struct {
		n    int
		bad  *acc
		path []string
	}
	roots := map[string]*res{}
	for _, rc := range L.Roots {
		root := fnName(rc.Fn)
		if onlyRoots != nil && !onlyRoots(root) {
			continue
		}
		prev := L.ReachFrom(rc)
		ids := make([]int, 0, len(prev))
		for id := range prev {
			ids = append(ids, id)
		}
		sort.Ints(ids)
		for _, id := range ids {
			for i := range perCtx[id] {
				a := &perCtx[id][i]
				rs := roots[root]
				if rs == nil {
					rs = &res{}
					roots[root] = rs
				}
				rs.n++
				if !a.held.has("latch") && rs.bad == nil {
					rs.bad, rs.path = a, L.PathIn(prev, id)
				}
			}
		}
	}
	for _, root := range sortedKeys(roots) {
		rs := roots[root]
		if rs.bad != nil {
			o := h.Bad(root, r.P.InstrPos(rs.bad.ins), "column storage accessed without the block latch")
			o.Held, o.Path = heldStr(rs.bad.held), rs.path
		} else {
			h.OK(root, "-", fmt.Sprintf("%d storage accesses, all under the latch", rs.n))
		}
	}
}

// ---------------------------------------------------------------------------------------------
// L4: fill list, count, commits

// bitmapMutators: pointer-receiver methods of bitmap.Bitmap that modify it.
var bitmapMutators = map[string]bool{"Set": true, "Remove": true, "Grow": true, "And": true, "AndNot": true,
	"Or": true, "Xor": true, "Clear": true, "Filter": true, "Ones": true, "ReadFrom": true, "UnmarshalJSON": true}

// fieldUse classifies how the address of a field is used: "w" (stored to, or receiver of a
// mutator), "r" otherwise.
func fieldAddrIsWrite(fa *ssa.FieldAddr) bool {
	w := false
	for _, ref := range *fa.Referrers() {
		switch x := ref.(type) {
		case *ssa.Store:
			if x.Addr == fa {
				w = true
			}
		case *ssa.Call:
			if sc := x.Call.StaticCallee(); sc != nil && len(x.Call.Args) > 0 && x.Call.Args[0] == fa && sc.Signature.Recv() != nil {
				if isBitmap(sc.Signature.Recv().Type()) && bitmapMutators[baseName(sc)] {
					w = true
				}
			}
		}
	}
	return w
}

func ruleL4(r *Report) {
	L := r.Shared.Lockset()
	hf := r.Rule("L4.fill", "L", "every access to the collection's fill list holds the collection mutex — exclusively when the access writes (Set/Remove/Grow/store)", 8)
	hc := r.Rule("L4.count", "S", "the row counter is only accessed through sync/atomic, and an absolute store of it is made inside the exclusive collection-mutex section that counted the fill list", 4)
	hm := r.Rule("L4.commits", "L", "the per-block commit-id table is read under the collection mutex, its elements are stored under the block's exclusive latch, and its header is replaced under the exclusive collection mutex", 3)
	type agg struct {
		bad *LSite
		ins ssa.Instruction
		msg string
		n   int
	}
	fill, commits := map[string]*agg{}, map[string]*agg{}
	get := func(m map[string]*agg, k string) *agg {
		if m[k] == nil {
			m[k] = &agg{}
		}
		return m[k]
	}
	for ins, ss := range L.At {
		fa, ok := ins.(*ssa.FieldAddr)
		if !ok {
			continue
		}
		fr, _ := fieldOf(fa)
		if fr.Struct != "column.Collection" {
			continue
		}
		n := fnName(ins.Parent())
		switch fr.Field {
		case "fill":
			a := get(fill, n)
			w := fieldAddrIsWrite(fa)
			for i := range ss {
				s := &ss[i]
				if _, fresh := fa.X.(*ssa.Alloc); fresh {
					continue // the collection is being constructed in this function, not yet shared
				}
				a.n++
				okh := s.Held.has("Collection.lock")
				if w {
					okh = s.Held.hasW("Collection.lock")
				}
				if !okh && a.bad == nil {
					a.bad, a.ins = s, ins
					if w {
						a.msg = "fill list modified without the exclusive collection mutex"
					} else {
						a.msg = "fill list read without the collection mutex"
					}
				}
			}
		case "commits":
			a := get(commits, n)
			// classify: header store / element store / read
			headerStore, elemStore := false, false
			for _, ref := range *fa.Referrers() {
				if st, ok := ref.(*ssa.Store); ok && st.Addr == fa {
					headerStore = true
				}
				if ld, ok := ref.(*ssa.UnOp); ok && ld.Op == token.MUL {
					for _, r2 := range *ld.Referrers() {
						if ia, ok := r2.(*ssa.IndexAddr); ok {
							for _, r3 := range *ia.Referrers() {
								if st, ok := r3.(*ssa.Store); ok && st.Addr == ia {
									elemStore = true
								}
							}
						}
					}
				}
			}
			for i := range ss {
				s := &ss[i]
				a.n++
				msg := ""
				switch {
				case !s.Held.has("Collection.lock"):
					msg = "commit-id table accessed without the collection mutex"
				case headerStore && !s.Held.hasW("Collection.lock"):
					msg = "commit-id table header replaced without the exclusive collection mutex"
				case elemStore && !s.Held.hasW("latch"):
					msg = "commit id of a block stored without the block's exclusive latch"
				}
				if msg != "" && a.bad == nil {
					a.bad, a.ins, a.msg = s, ins, msg
				}
			}
		case "count":
			okAtomic := len(*fa.Referrers()) > 0
			for _, ref := range *fa.Referrers() {
				c, isCall := ref.(*ssa.Call)
				if !isCall || c.Call.StaticCallee() == nil || c.Call.StaticCallee().Pkg == nil || c.Call.StaticCallee().Pkg.Pkg.Path() != "sync/atomic" {
					okAtomic = false
				}
			}
			hc.Check(okAtomic, n, r.P.InstrPos(ins), "atomic access", "row counter accessed other than through sync/atomic")
			// an absolute store publishes a count of the fill list: it is made inside the exclusive
			// section in which the list was counted (next() adds 1 to the counter under the same
			// mutex; a store of a count taken earlier wipes that increment out)
			for _, ref := range *fa.Referrers() {
				c, isCall := ref.(*ssa.Call)
				if !isCall || !calleeIs(&c.Call, "sync/atomic.StoreUint64") {
					continue
				}
				if _, fresh := fa.X.(*ssa.Alloc); fresh {
					continue
				}
				held := true
				var w *LSite
				for i, s := range L.At[c] {
					if !s.Held.hasW("Collection.lock") {
						held, w = false, &L.At[c][i]
						break
					}
				}
				stale := false
				if len(c.Call.Args) == 2 {
					var cnt ssa.Instruction
					v := strip(c.Call.Args[1])
					for k := 0; k < 4 && cnt == nil; k++ {
						switch x := v.(type) {
						case *ssa.Convert:
							v = strip(x.X)
						case *ssa.Call:
							if methodOn(&x.Call, "github.com/kelindar/bitmap", "Bitmap", "Count") {
								cnt = x
							}
							k = 4
						}
					}
					if cnt != nil {
						allInstrs(c.Parent(), func(u ssa.Instruction) {
							cc, isDefer, _ := callCommon(u)
							if cc == nil || isDefer {
								return
							}
							if op, ok := L.classifyLock(cc, c.Parent()); ok && !op.Acquire && op.Name == "Collection.lock" {
								if between(cnt, u, c) {
									stale = true
								}
							}
						})
					}
				}
				switch {
				case !held && len(L.At[c]) > 0:
					o := hc.Bad(n+"/store-locked", r.P.InstrPos(c), "the row counter is overwritten outside the exclusive collection mutex: an offset reserved by next() in between (counter+1 under the mutex) is wiped out of the counter, which next() uses to decide whether the fill list has a free bit")
					setWitness(o, w)
				case stale:
					hc.Bad(n+"/store-locked", r.P.InstrPos(c), "the row counter is overwritten with a count of the fill list taken in an earlier critical section: the mutex was released between counting and publishing")
				default:
					hc.OK(n+"/store-locked", r.P.InstrPos(c), "absolute store inside the exclusive section that counted the fill list")
				}
			}
		}
	}
	emit := func(h *RuleH, m map[string]*agg) {
		for _, n := range sortedKeys(m) {
			a := m[n]
			if a.n == 0 {
				continue
			}
			if a.bad != nil {
				o := h.Bad(n, r.P.InstrPos(a.ins), a.msg)
				setWitness(o, a.bad)
			} else {
				h.OK(n, "-", fmt.Sprintf("%d contexts", a.n))
			}
		}
	}
	emit(hf, fill)
	emit(hm, commits)
}

// ---------------------------------------------------------------------------------------------
// L5: commit ids and emission under the exclusive latch

func ruleL5id(r *Report) {
	L := r.Shared.Lockset()
	hid := r.Rule("L5.id", "L+def-use", "the commit id of a block is drawn (commit.Next) while the block's exclusive latch is held, and the id stored for the block and handed to the commit callback is that value", 3)
	// (1) commit.Next call sites in the library
	nextSites := L.SitesOf(func(ins ssa.Instruction) bool {
		cc, _, _ := callCommon(ins)
		return cc != nil && calleeIs(cc, "commit.Next") && r.P.inColumnPkg(ins.Parent())
	})
	for ins, ss := range nextSites {
		n := fnName(ins.Parent())
		if s := worstSite(ss, func(h heldSet) bool { return h.hasW("latch") }); s != nil {
			o := hid.Bad("draw/"+n, r.P.InstrPos(ins), "commit id drawn without the block's exclusive latch: two writers of one block can apply in the opposite order of their ids, and restore then skips the later-applied commit")
			setWitness(o, s)
		} else {
			hid.OK("draw/"+n, r.P.InstrPos(ins), "drawn under latch:W")
		}
		// (2) def-use: the value stored into commits[...] and passed on is this call's result
		call := ins.(*ssa.Call)
		fn := ins.Parent()
		stored, passed := false, false
		deepVisit(fn, func(i2, _ ssa.Instruction) {
			if st, ok := i2.(*ssa.Store); ok {
				if ia, ok := st.Addr.(*ssa.IndexAddr); ok {
					if fr, ok := loadedField(ia.X); ok && fr.Struct == "column.Collection" && fr.Field == "commits" {
						if sameExpr(st.Val, call) {
							stored = true
						}
					}
				}
			}
			if cc, _, _ := callCommon(i2); cc != nil && cc.StaticCallee() == nil && !cc.IsInvoke() {
				for _, a := range cc.Args {
					if sameExpr(a, call) {
						passed = true
					}
				}
			}
		})
		if !passed && isHelper(topFn(fn)) && fn.Parent() == nil {
			// the id is drawn in a helper that returns it: the helper's one caller hands it on
			idx := -1
			for _, ret := range returnsOf(fn) {
				at := -1
				for i, res := range ret.Results {
					if sameExpr(res, call) {
						at = i
					}
				}
				if at < 0 || (idx >= 0 && at != idx) {
					idx = -2
					break
				}
				idx = at
			}
			if site := uniqueCallOf(fn); idx >= 0 && site != nil {
				sv, _ := site.(ssa.Value)
				isID := func(a ssa.Value) bool {
					a = norm(a)
					if sv == nil {
						return false
					}
					if fn.Signature.Results().Len() == 1 {
						return a == sv
					}
					ex, ok := a.(*ssa.Extract)
					return ok && ex.Tuple == sv && ex.Index == idx
				}
				deepVisit(site.Parent(), func(i2, _ ssa.Instruction) {
					if cc, _, _ := callCommon(i2); cc != nil && cc.StaticCallee() == nil && !cc.IsInvoke() {
						for _, a := range cc.Args {
							if isID(a) {
								passed = true
							}
						}
					}
				})
			}
		}
		hid.Check(stored, "store/"+n, r.P.InstrPos(ins), "the drawn id is stored as the block's last commit", "the id stored in the commit-id table is not the id drawn for this block")
		hid.Check(passed, "pass/"+n, r.P.InstrPos(ins), "the drawn id is handed to the commit callback", "the id handed to the commit callback is not the id drawn for this block")
	}
	// the global counter is only touched by atomic add in Next
	if g, ok := r.P.Commit.Members["id"].(*ssa.Global); ok {
		okc := true
		where := "-"
		for fn := range r.P.modFunc {
			allInstrs(fn, func(ins ssa.Instruction) {
				for _, op := range ins.Operands(nil) {
					if *op == g {
						c, isCall := ins.(*ssa.Call)
						inInit := fn.Name() == "init"
						if inInit {
							continue
						}
						if !isCall || !calleeIs(&c.Call, "sync/atomic.AddUint64") || fnName(fn) != "commit.Next" {
							okc = false
							where = r.P.InstrPos(ins)
						}
					}
				}
			})
		}
		hid.Check(okc, "counter", where, "commit.id is only advanced by atomic add in commit.Next", "the commit id counter is accessed outside the atomic add in commit.Next")
	} else {
		r.Unresolve("global commit.id")
	}
}

func ruleL5emit(r *Report) {
	L := r.Shared.Lockset()
	hem := r.Rule("L5.emit", "L", "every append of a commit to the logger or to the snapshot recorder, and the test whether a snapshot is recording, happen while the block's exclusive latch is held", 3)
	// (3) Append sites
	appendSites := L.SitesOf(func(ins ssa.Instruction) bool {
		cc, _, _ := callCommon(ins)
		if cc == nil || !r.P.inColumnPkg(ins.Parent()) {
			return false
		}
		if cc.IsInvoke() && cc.Method.Name() == "Append" && isNamed(cc.Value.Type(), CommitPath, "Logger") {
			return true
		}
		return calleeIs(cc, "(*commit.Log).Append", "(commit.Channel).Append")
	})
	for ins, ss := range appendSites {
		n := fnName(ins.Parent())
		kind := "logger"
		if cc, _, _ := callCommon(ins); !cc.IsInvoke() {
			kind = "recorder"
		}
		if s := worstSite(ss, func(h heldSet) bool { return h.hasW("latch") }); s != nil {
			o := hem.Bad(kind+"/"+n, r.P.InstrPos(ins), "commit appended outside the block's exclusive latch: emission order can differ from apply order")
			setWitness(o, s)
		} else {
			hem.OK(kind+"/"+n, r.P.InstrPos(ins), "appended under latch:W")
		}
	}
	snapSites := L.SitesOf(func(ins ssa.Instruction) bool {
		cc, _, _ := callCommon(ins)
		return cc != nil && calleeIs(cc, "(*column.Collection).isSnapshotting")
	})
	for ins, all := range snapSites {
		// only the decisions taken on behalf of a committing transaction
		var ss []LSite
		for _, s := range all {
			if pathHas(s.Ctx, "(*column.Txn).commit") {
				ss = append(ss, s)
			}
		}
		if len(ss) == 0 {
			continue
		}
		n := fnName(ins.Parent())
		if s := worstSite(ss, func(h heldSet) bool { return h.hasW("latch") }); s != nil {
			o := hem.Bad("recording?/"+n, r.P.InstrPos(ins), "whether a snapshot is recording is decided outside the block's exclusive latch")
			setWitness(o, s)
		} else {
			hem.OK("recording?/"+n, r.P.InstrPos(ins), "decided under latch:W")
		}
	}
}

// pathHasFn: fn or a lexical ancestor is named name.
func pathHasFn(fn *ssa.Function, name string) bool {
	for f := fn; f != nil; f = f.Parent() {
		if fnName(f) == name {
			return true
		}
	}
	return false
}

// ---------------------------------------------------------------------------------------------
// L6: key table and sorted index under their own locks

func ruleL6(r *Report) {
	L := r.Shared.Lockset()
	h := r.Rule("L6", "L", "the key lookup table is accessed under the key column's lock (exclusively for insert/delete); the sorted index's back map and tree are modified under its lock", 4)
	type agg struct {
		bad *LSite
		ins ssa.Instruction
		msg string
		n   int
	}
	m := map[string]*agg{}
	for ins, ss := range L.At {
		fa, ok := ins.(*ssa.FieldAddr)
		if !ok {
			continue
		}
		fr, _ := fieldOf(fa)
		var lock string
		switch fr.Struct + "." + fr.Field {
		case "column.columnKey.seek":
			lock = "columnKey.lock"
		case "column.columnSortIndex.backMap":
			lock = "columnSortIndex.backLock"
		case "column.columnSortIndex.btree":
			lock = "columnSortIndex.backLock"
		default:
			continue
		}
		// write = map update / delete through the loaded map, or tree Set/Delete
		write := false
		for _, ref := range *fa.Referrers() {
			ld, ok := ref.(*ssa.UnOp)
			if !ok {
				continue
			}
			for _, r2 := range *ld.Referrers() {
				switch x := r2.(type) {
				case *ssa.MapUpdate:
					write = true
				case *ssa.Call:
					if b, ok := x.Call.Value.(*ssa.Builtin); ok && b.Name() == "delete" {
						write = true
					}
					if sc := x.Call.StaticCallee(); sc != nil && (baseName(sc) == "Set" || baseName(sc) == "Delete") {
						write = true
					}
				}
			}
		}
		n := fnName(ins.Parent()) + "/" + fr.Field
		if m[n] == nil {
			m[n] = &agg{}
		}
		a := m[n]
		for i := range ss {
			s := &ss[i]
			if constructorCtx(s.Ctx) {
				continue
			}
			if fr.Field == "btree" && !write {
				continue // reads of the tree are synchronised by the tree's own lock (and see L2 for Ascend)
			}
			a.n++
			okh := s.Held.has(lock)
			if write {
				okh = s.Held.hasW(lock)
			}
			if !okh && a.bad == nil {
				a.bad, a.ins = s, ins
				a.msg = fmt.Sprintf("%s.%s accessed without %s", fr.Struct, fr.Field, lock)
			}
		}
	}
	for _, n := range sortedKeys(m) {
		a := m[n]
		if a.n == 0 {
			continue
		}
		if a.bad != nil {
			o := h.Bad(n, r.P.InstrPos(a.ins), a.msg)
			setWitness(o, a.bad)
		} else {
			h.OK(n, "-", fmt.Sprintf("%d contexts", a.n))
		}
	}
}

// ---------------------------------------------------------------------------------------------
// L8: lock order

func lockBase(s string) string {
	if i := strings.LastIndex(s, ":"); i >= 0 {
		return s[:i]
	}
	return s
}

func ruleL8(r *Report) {
	L := r.Shared.Lockset()
	h := r.Rule("L8", "L", "the lock acquisition order over all call paths is acyclic, no lock is re-acquired while held, and no block latch is acquired while a block latch is held (two blocks may share a shard; Go's RWMutex is not reentrant)", 10)
	type edge struct{ from, to string }
	first := map[edge]acqEdge{}
	adj := map[string]map[string]bool{}
	for _, a := range L.Acq {
		if a.From == "" {
			continue
		}
		e := edge{lockBase(a.From), lockBase(a.To)}
		if _, ok := first[e]; !ok {
			first[e] = a
		}
		if adj[e.from] == nil {
			adj[e.from] = map[string]bool{}
		}
		adj[e.from][e.to] = true
	}
	// reachability for cycle detection
	reach := func(from, to string) bool {
		seen := map[string]bool{}
		var dfs func(x string) bool
		dfs = func(x string) bool {
			if x == to {
				return true
			}
			if seen[x] {
				return false
			}
			seen[x] = true
			for y := range adj[x] {
				if dfs(y) {
					return true
				}
			}
			return false
		}
		for y := range adj[from] {
			if dfs(y) {
				return true
			}
		}
		return false
	}
	var es []edge
	for e := range first {
		es = append(es, e)
	}
	sort.Slice(es, func(i, j int) bool { return es[i].from+es[i].to < es[j].from+es[j].to })
	for _, e := range es {
		a := first[e]
		key := e.from + "→" + e.to
		switch {
		case e.from == e.to:
			o := h.Bad(key, r.P.InstrPos(a.Site), "lock acquired while the same abstract lock is already held (self-deadlock, or two shards of the latch)")
			o.Path = a.Ctx.PathNames()
		case reach(e.to, e.from):
			o := h.Bad(key, r.P.InstrPos(a.Site), "this acquisition closes a cycle in the lock order: "+e.to+" is (transitively) also acquired before "+e.from)
			o.Path = a.Ctx.PathNames()
		default:
			h.OK(key, r.P.InstrPos(a.Site), "")
		}
	}
}

// ---------------------------------------------------------------------------------------------
// L9: copy-on-write publication through atomic.Value

// registryPublishers: library functions that hand out the value loaded from an atomic.Value (an
// accessor such as `entries() []columnEntry { return c.cols.Load().([]columnEntry) }`): their
// result is published memory just like the result of Load itself.
func registryPublishers(p *Prog) map[*ssa.Function]bool {
	if p.publishers != nil {
		return p.publishers
	}
	out := map[*ssa.Function]bool{}
	for round := 0; round < 2; round++ {
		for fn := range p.modFunc {
			if fn.Origin() != nil || out[fn] || !p.InLib(fn) {
				continue
			}
			pub := map[ssa.Value]bool{}
			allInstrs(fn, func(ins ssa.Instruction) {
				if c, ok := ins.(*ssa.Call); ok && isPublishedSource(&c.Call, out) {
					pub[c] = true
				}
			})
			if len(pub) == 0 {
				continue
			}
			for changed := true; changed; {
				changed = false
				allInstrs(fn, func(ins ssa.Instruction) {
					v, ok := ins.(ssa.Value)
					if !ok || pub[v] {
						return
					}
					switch x := ins.(type) {
					case *ssa.TypeAssert:
						if pub[x.X] {
							pub[v], changed = true, true
						}
					case *ssa.Extract:
						if pub[x.Tuple] {
							pub[v], changed = true, true
						}
					}
				})
			}
			for _, ret := range returnsOf(fn) {
				for _, res := range ret.Results {
					if _, isSlice := res.Type().Underlying().(*types.Slice); isSlice && pub[res] {
						out[fn] = true
					}
				}
			}
		}
	}
	p.publishers = out
	return out
}

// isPublishedSource: the call loads an atomic.Value or goes through an accessor that does.
func isPublishedSource(cc *ssa.CallCommon, publishers map[*ssa.Function]bool) bool {
	if methodOn(cc, "sync/atomic", "Value", "Load") {
		return true
	}
	if sc := cc.StaticCallee(); sc != nil && publishers[originOf(sc)] {
		return true
	}
	return false
}

func ruleL9(r *Report) {
	h := r.Rule("L9", "def-use", "a slice obtained from the registry's atomic.Value is never stored into: readers hold no lock, so the registry must be replaced, not edited (copy-on-write)", 2)
	for fn := range r.P.modFunc {
		if fn.Origin() != nil {
			continue
		}
		// published values: result of (*atomic.Value).Load, through type assertion
		pub := map[ssa.Value]bool{}
		publishers := registryPublishers(r.P)
		if publishers[fn] {
			continue // the accessor itself only hands the value on
		}
		allInstrs(fn, func(ins ssa.Instruction) {
			if c, ok := ins.(*ssa.Call); ok && isPublishedSource(&c.Call, publishers) {
				pub[c] = true
			}
		})
		if len(pub) == 0 {
			continue
		}
		// propagate through type assert, extract, slicing, index/field addressing, loads, range copies
		for changed := true; changed; {
			changed = false
			allInstrs(fn, func(ins ssa.Instruction) {
				v, ok := ins.(ssa.Value)
				if !ok || pub[v] {
					return
				}
				mark := false
				switch x := ins.(type) {
				case *ssa.TypeAssert:
					mark = pub[x.X]
				case *ssa.Extract:
					mark = pub[x.Tuple]
				case *ssa.Slice:
					mark = pub[x.X]
				case *ssa.IndexAddr:
					mark = pub[x.X]
				case *ssa.FieldAddr:
					mark = pub[x.X]
				case *ssa.UnOp:
					// loading a slice-typed field of a published element keeps pointing into
					// published memory; loading a struct copy does not
					if x.Op == token.MUL && pub[x.X] {
						switch x.Type().Underlying().(type) {
						case *types.Slice, *types.Pointer, *types.Map:
							mark = true
						}
					}
				case *ssa.Phi:
					for _, e := range x.Edges {
						if pub[e] {
							mark = true
						}
					}
				}
				if mark {
					pub[v] = true
					changed = true
				}
			})
		}
		var bad ssa.Instruction
		allInstrs(fn, func(ins ssa.Instruction) {
			if st, ok := ins.(*ssa.Store); ok && pub[st.Addr] {
				switch st.Addr.(type) {
				case *ssa.IndexAddr, *ssa.FieldAddr:
					if bad == nil {
						bad = ins
					}
				}
			}
		})
		n := fnName(fn)
		if bad != nil {
			h.Bad(n, r.P.InstrPos(bad), "stores into the registry slice that concurrent readers obtained from the same atomic.Value (in-place edit of a published value)")
		} else {
			h.OK(n, r.P.Pos(fn.Pos()), "published registry only read")
		}
	}
}

// ruleL7 is defined in rules_l7.go

// ruleRegistryLists (C03.registry): the list of computed columns of a registry entry is handed to
// committing transactions by LoadWithIndex without a lock. Extending it in place beyond its length
// is invisible to a reader holding the old header; overwriting elements it already has is not:
// a commit iterating the list skips or repeats a computed column. The rule forbids, in every
// library function, element stores at index ≥ 1 into — and appends onto a shortened reslice of — a
// slice that was obtained from the published registry.
func ruleRegistryLists(r *Report) {
	h := r.Rule("C03.registry", "def-use", "no element of a published list of computed columns is overwritten in place (store at index ≥ 1, or append onto a shortened reslice of the published list): commits iterate these lists without a lock", 2)
	for fn := range r.P.modFunc {
		if fn.Origin() != nil {
			continue
		}
		pub := map[ssa.Value]bool{}
		short := map[ssa.Value]bool{} // shortened reslices of published memory
		cell := map[ssa.Value]bool{}  // local struct copies of published elements (and their field addresses)
		publishers := registryPublishers(r.P)
		allInstrs(fn, func(ins ssa.Instruction) {
			if c, ok := ins.(*ssa.Call); ok && isPublishedSource(&c.Call, publishers) {
				pub[c] = true
			}
		})
		if len(pub) == 0 {
			continue
		}
		for changed := true; changed; {
			changed = false
			allInstrs(fn, func(ins ssa.Instruction) {
				mark, sh := false, false
				if st, isSt := ins.(*ssa.Store); isSt {
					if al, isAl := st.Addr.(*ssa.Alloc); isAl && pub[st.Val] && !cell[al] {
						cell[al] = true
						changed = true
					}
					return
				}
				v, ok := ins.(ssa.Value)
				if !ok {
					return
				}
				switch x := ins.(type) {
				case *ssa.TypeAssert:
					mark = pub[x.X]
				case *ssa.Extract:
					mark = pub[x.Tuple]
				case *ssa.Slice:
					mark = pub[x.X]
					sh = pub[x.X] && x.High != nil || short[x.X]
				case *ssa.IndexAddr:
					mark = pub[x.X]
				case *ssa.FieldAddr:
					mark = pub[x.X]
					if cell[x.X] && !cell[x] {
						cell[x] = true
						changed = true
					}
				case *ssa.Field:
					// a field of a struct copied out of published memory still points into it
					switch x.Type().Underlying().(type) {
					case *types.Slice, *types.Pointer, *types.Map:
						mark = pub[x.X]
					}
				case *ssa.UnOp:
					if x.Op == token.MUL && pub[x.X] {
						mark = true // slices, pointers and struct copies (whose slice fields alias)
					}
					if x.Op == token.MUL && cell[x.X] {
						switch x.Type().Underlying().(type) {
						case *types.Slice, *types.Pointer, *types.Map:
							mark = true // a slice field of a local copy still points into published memory
						}
					}
				case *ssa.Phi:
					for _, e := range x.Edges {
						if pub[e] {
							mark = true
						}
						if short[e] {
							sh = true
						}
					}
				case *ssa.Call:
					if b, isB := x.Call.Value.(*ssa.Builtin); isB && b.Name() == "append" && len(x.Call.Args) > 0 {
						// the result of appending onto a shortened published slice keeps overwriting it
						if short[x.Call.Args[0]] {
							mark, sh = true, true
						}
					}
				}
				if mark && !pub[v] {
					pub[v] = true
					changed = true
				}
				if sh && !short[v] {
					short[v] = true
					changed = true
				}
			})
		}
		var bad ssa.Instruction
		why := ""
		allInstrs(fn, func(ins ssa.Instruction) {
			switch x := ins.(type) {
			case *ssa.Store:
				ia, ok := x.Addr.(*ssa.IndexAddr)
				if !ok || !pub[ia.X] {
					return
				}
				// element of an inner list (slice of *column), index ≥ 1 or not constant
				if _, isSl := ia.X.Type().Underlying().(*types.Slice); !isSl {
					return
				}
				if pt, isP := ia.X.Type().Underlying().(*types.Slice).Elem().(*types.Pointer); !isP || !isNamed(pt, ModPath, "column") {
					return
				}
				if idx, isC := constInt(ia.Index); isC && idx == 0 {
					return // re-stores the main column of the entry
				}
				bad, why = ins, "stores an element into a published list of computed columns"
			case *ssa.Call:
				if b, isB := x.Call.Value.(*ssa.Builtin); isB && b.Name() == "append" && len(x.Call.Args) > 0 && short[x.Call.Args[0]] {
					bad, why = ins, "appends onto a shortened reslice of a published list of computed columns, overwriting the elements a concurrent commit is iterating"
				}
			}
		})
		n := fnName(fn)
		if bad != nil {
			h.Bad(n, r.P.InstrPos(bad), why)
		} else {
			h.OK(n, r.P.Pos(fn.Pos()), "")
		}
	}
}

// between: u may execute after a and before b on some path (same-block order by index, otherwise by
// reachability).
func between(a, u, b ssa.Instruction) bool {
	after := func(x, y ssa.Instruction) bool { // y may run after x
		if x.Block() == y.Block() {
			return instrIndex(x) < instrIndex(y) || inCycle(x.Block())
		}
		return reachAvoiding(x.Block(), y.Block(), nil, nil)
	}
	return after(a, u) && after(u, b)
}
