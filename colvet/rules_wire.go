package colvet

import (
	"fmt"
	"sort"
	"strings"

	"golang.org/x/tools/go/ssa"
)

// Rules on the wire format, decided on the paths computed by analysis W (interp.go).

func init() {
	dumpers["paths"] = func(p *Prog, filter string) {
		fn := p.Fn(filter)
		if fn == nil {
			fmt.Println("no such function")
			return
		}
		in := &Interp{Inline: wireInline}
		if strings.HasSuffix(filter, ").Range") {
			in.MaxVisits = 3
		}
		in.Run(fn)
		fmt.Printf("%d paths, %d truncated\n", len(in.Paths), in.Truncated)
		for i, pa := range in.Paths {
			fmt.Printf("--- path %d\n", i)
			for _, c := range pa.Conds {
				fmt.Printf("   if %v = %v\n", c.E, c.Val)
			}
			for _, e := range pa.Events {
				fmt.Printf("   %s %s %v\n", e.Kind, e.Name, e.Args)
			}
			var ks []string
			for k := range pa.Heap {
				if !strings.HasPrefix(k, "&f") {
					ks = append(ks, k)
				}
			}
			sort.Strings(ks)
			for _, k := range ks {
				fmt.Printf("   %s = %v\n", k, pa.Heap[k])
			}
			fmt.Printf("   return %v\n", pa.Ret)
		}
	}
}

// wireInline: inside the codec everything that belongs to Reader/Buffer and is not itself one of
// the primitives observed as an event is walked through.
var wirePrimitives = map[string]bool{
	"(*commit.Buffer).writeChunk": true, "(*commit.Buffer).writeOffset": true, "(*commit.Buffer).PutBytes": true,
	"(*commit.Buffer).PutOperation": true,
	"(*commit.Buffer).writeUint16":  true, "(*commit.Buffer).writeUint32": true, "(*commit.Buffer).writeUint64": true,
}

func wireInline(fn *ssa.Function) bool {
	if curProg == nil || !curProg.InLib(fn) {
		return false
	}
	n := fnName(originOf(fn))
	if wirePrimitives[n] {
		return false
	}
	return strings.HasPrefix(n, "(*commit.Reader).") || strings.HasPrefix(n, "(*commit.Buffer).") || strings.HasPrefix(n, "commit.") || strings.HasPrefix(n, "(commit.Chunk).")
}

func wireConst(r *Report, name string) int64 {
	v, ok := r.P.ConstVal("commit", name)
	if !ok {
		r.Unresolve("constant commit." + name)
	}
	var x int64
	fmt.Sscanf(v, "%d", &x)
	return x
}

// shrOf reads e as base >> k (conversions looked through).
func shrOf(e *expr) (*expr, int64) {
	for e.op == "conv" {
		e = e.args[0]
	}
	if e.op == "shr" {
		if c, ok := e.args[1].isConst(); ok {
			b, k := shrOf(e.args[0])
			return b, k + c
		}
	}
	return e, 0
}

func unconv(e *expr) *expr {
	for e.op == "conv" {
		e = e.args[0]
	}
	return e
}

// isByteSliceAppend: the append grows a []byte (the buffer), not the header list.
func isByteSliceAppend(ev ievent) bool {
	c, ok := ev.Ins.(*ssa.Call)
	if !ok {
		return false
	}
	return strings.HasSuffix(c.Type().String(), "[]byte")
}

// ruleWireWriters: C05.flags, writer side.
func ruleWireWriters(r *Report, h *RuleH) {
	fNext, fString := wireConst(r, "isNext"), wireConst(r, "isString")
	type wr struct {
		name    string
		payload int
		tag     int64
		value   string // name of the value parameter ("" = none)
	}
	writers := []wr{
		{"(*commit.Buffer).PutOperation", 0, wireConst(r, "size0"), ""},
		{"(*commit.Buffer).writeUint16", 2, wireConst(r, "size2"), "value"},
		{"(*commit.Buffer).writeUint32", 4, wireConst(r, "size4"), "value"},
		{"(*commit.Buffer).writeUint64", 8, wireConst(r, "size8"), "value"},
		{"(*commit.Buffer).PutBytes", 2, wireConst(r, "size2") | fString, ""},
	}
	for _, w := range writers {
		fn := r.Anchor(w.name)
		if fn == nil {
			continue
		}
		in := &Interp{Inline: func(f *ssa.Function) bool { return isHelper(f) }}
		in.Run(fn)
		msg := ""
		seen := map[bool]bool{}
		if in.Truncated > 0 || len(in.Paths) == 0 {
			msg = "the writer's paths could not be enumerated"
		}
		for _, p := range in.Paths {
			// the delta: result of writeChunk
			var delta *expr
			nChunk := 0
			for _, ev := range p.Events {
				if ev.Kind == "call" && ev.Name == "(*commit.Buffer).writeChunk" {
					nChunk++
				}
			}
			var fixed []*expr
			var spreads, offsets []ievent
			afterSpread, afterOffset := false, false
			for _, ev := range p.Events {
				switch {
				case ev.Kind == "append" && isByteSliceAppend(ev):
					if afterSpread {
						msg = "header bytes appended after the payload"
					}
					if afterOffset {
						msg = "payload appended after the offset"
					}
					fixed = append(fixed, ev.Args[1:]...)
				case ev.Kind == "spread" && isByteSliceAppend(ev):
					if afterOffset {
						msg = "payload appended after the offset"
					}
					afterSpread = true
					spreads = append(spreads, ev)
				case ev.Kind == "call" && ev.Name == "(*commit.Buffer).writeOffset":
					afterOffset = true
					offsets = append(offsets, ev)
				}
			}
			if nChunk != 1 {
				msg = "writeChunk is not called exactly once on every path"
				continue
			}
			// the path's assumption about delta == 1
			adjacent, classified := false, false
			for _, c := range p.Conds {
				e, val := c.E, c.Val
				if e.op == "ne" {
					e, val = mkOp("not", e), !val
				}
				if e.op != "eq" {
					continue
				}
				one, isC := e.args[1].isConst()
				if !isC || one != 1 {
					continue
				}
				d := unconv(e.args[0])
				if d.op == "call" && d.name == "(*commit.Buffer).writeChunk" {
					adjacent, classified, delta = val, true, d
				}
			}
			if !classified {
				msg = "a path through the writer does not depend on delta == 1"
				continue
			}
			seen[adjacent] = true
			if len(fixed) == 0 {
				msg = "no header byte appended"
				continue
			}
			bits := constBits(fixed[0])
			if adjacent && bits&fNext == 0 {
				msg = "the delta==1 arm does not set the next-flag"
			}
			if !adjacent && bits&fNext != 0 {
				msg = "the general arm sets the next-flag although it writes an offset"
			}
			if bits&^fNext != w.tag {
				msg = fmt.Sprintf("header tag %#x does not match the payload (expected %#x)", bits&^fNext, w.tag)
			}
			// the operation type is part of the header
			atoms := map[string]*expr{}
			atomsOf(fixed[0], atoms)
			if _, ok := atoms["op"]; !ok {
				msg = "the header byte does not carry the operation type"
			}
			if len(fixed)-1 != w.payload {
				msg = fmt.Sprintf("%d payload bytes appended with the header, expected %d", len(fixed)-1, w.payload)
			} else {
				// big-endian payload / length: byte j carries bits 8(n-j)… of one value
				var base *expr
				for j := 1; j < len(fixed); j++ {
					b, sh := shrOf(fixed[j])
					if sh != int64(8*(len(fixed)-1-j)) {
						msg = fmt.Sprintf("payload byte %d carries bits %d… of the value, expected %d (big-endian, as the reader decodes it)", j, sh, 8*(len(fixed)-1-j))
					}
					if base == nil {
						base = b
					} else if base.key != b.key {
						msg = "the payload bytes are not taken from one value"
					}
				}
				if base != nil && w.value != "" && unconv(base).key != w.value {
					msg = "the payload bytes are not taken from the value to be written"
				}
				if base != nil && w.name == "(*commit.Buffer).PutBytes" {
					if !(base.op == "len" && base.args[0].key == "value") {
						msg = "the two length bytes are not the length of the value"
					}
				}
			}
			if w.name == "(*commit.Buffer).PutBytes" {
				if len(spreads) != 1 || spreads[0].Args[1].key != "value" {
					msg = "the value's bytes are not appended exactly once after the length"
				}
			} else if len(spreads) != 0 {
				msg = "a fixed-width writer appends a slice"
			}
			if adjacent && len(offsets) != 0 {
				msg = "the delta==1 arm writes an offset"
			}
			if !adjacent {
				if len(offsets) != 1 {
					msg = "the general arm does not write exactly one offset"
				} else if unconv(offsets[0].Args[1]).key != delta.key {
					msg = "the offset written is not the delta returned by writeChunk"
				}
			}
		}
		if msg == "" && (!seen[true] || !seen[false]) {
			msg = "header byte of one of the arms not recognised"
		}
		h.Check(msg == "", w.name, r.P.Pos(fn.Pos()), fmt.Sprintf("%d paths: both arms agree with the reader", len(in.Paths)), msg)
	}
}

// ruleWireNext: C05.flags reader side and C05.varint reader side, from the paths of Reader.Next
// with everything inlined.
func ruleWireNext(r *Report, h, hv *RuleH) {
	fn := r.Anchor("(*commit.Reader).Next")
	if fn == nil {
		return
	}
	fNext, fString := wireConst(r, "isNext"), wireConst(r, "isString")
	tags := map[int64]int64{wireConst(r, "size0"): 0, wireConst(r, "size2"): 2, wireConst(r, "size4"): 4, wireConst(r, "size8"): 8}
	in := &Interp{Inline: wireInline, MaxVisits: 7}
	in.Run(fn)
	hdrKey := "idx(r.buffer@0,r.last@0)"
	last0 := "r.last@0"
	msgNext, msgFixed, msgString, msgVar := "", "", "", ""
	if len(in.Paths) == 0 {
		msgNext = "no path through Reader.Next could be enumerated"
	}
	type combo struct{ str, next bool }
	covered := map[combo]bool{}
	stages := map[combo]map[int64]bool{}
	for _, p := range in.Paths {
		ret, _ := p.Ret[0].isConst()
		if ret == 0 {
			// end of data: nothing may have been consumed
			for _, ev := range p.Events {
				if ev.Kind == "store" {
					msgNext = "Next stores into the reader although it reports the end of the section"
				}
			}
			continue
		}
		// which flag combinations is this path taken for?
		var fits []combo
		for _, c := range []combo{{false, false}, {false, true}, {true, false}, {true, true}} {
			hv := int64(0)
			if c.str {
				hv |= fString
			}
			if c.next {
				hv |= fNext
			}
			ok := true
			for _, low := range []int64{0, 0x3f} {
				for _, cd := range p.Conds {
					at := map[string]*expr{}
					atomsOf(cd.E, at)
					if _, has := at[hdrKey]; !has || len(at) != 1 {
						continue
					}
					v, known := evalExpr(cd.E, map[string]int64{hdrKey: hv | low})
					if known && (v != 0) != cd.Val {
						ok = false
					}
				}
			}
			if ok {
				fits = append(fits, c)
			}
		}
		if len(fits) != 1 {
			msgNext = "a path through Next is taken for several combinations of the string and next flags"
			continue
		}
		c := fits[0]
		covered[c] = true
		i0, i1, last, typ := p.Field("r", "i0"), p.Field("r", "i1"), p.Field("r", "last"), p.Field("r", "Type")
		if i0 == nil || i1 == nil || last == nil || typ == nil {
			msgNext = "a decoding path does not set the value bounds, the position and the operation type"
			continue
		}
		// value start: behind the header (and the two length bytes of a string)
		t0, _, k0 := linearOf(i0)
		skip := int64(1)
		if c.str {
			skip = 3
		}
		if len(t0) != 1 || t0[last0] != 1 || k0 != skip {
			m := fmt.Sprintf("the value starts at %v, expected position+%d", i0, skip)
			if c.str {
				msgString = m
			} else {
				msgFixed = m
			}
		}
		// value end = start + size
		t1, a1, k1 := linearOf(i1)
		delete(t1, last0)
		var size *expr
		if len(t1) == 1 && k1 == skip {
			for key, coef := range t1 {
				if coef == 1 {
					size = a1[key]
				}
			}
		}
		if size == nil {
			m := fmt.Sprintf("the value ends at %v, expected start + size", i1)
			if c.str {
				msgString = m
			} else {
				msgFixed = m
			}
		} else if c.str {
			// 2-byte big-endian length at position+1, position+2
			want := map[string]int64{"idx(r.buffer@0,add(r.last@0,1))": 8, "idx(r.buffer@0,add(r.last@0,2))": 0}
			parts := orParts(unconv(size))
			if len(parts) != 2 {
				msgString = "the string length is not assembled from two bytes"
			}
			for _, pt := range parts {
				bt := shiftedTerm(pt)
				sh, ok := want[unconv(bt.Base).key]
				if !ok || sh != bt.Shift || (bt.Mask != -1 && bt.Mask&0xff != 0xff) {
					msgString = fmt.Sprintf("length byte %v is shifted by %d: the writer stores the length big-endian behind the header", bt.Base, bt.Shift)
				}
				delete(want, unconv(bt.Base).key)
			}
		} else {
			// size tag ↦ width, independent of the other header bits
			at := map[string]*expr{}
			atomsOf(size, at)
			if _, has := at[hdrKey]; !has || len(at) != 1 {
				msgFixed = "the payload width does not derive from the header byte alone"
			} else {
				for tag, want := range tags {
					for _, extra := range []int64{0, fNext, 0x0f, fNext | 0x03} {
						got, ok := evalExpr(size, map[string]int64{hdrKey: tag | extra})
						if !ok || got != want {
							msgFixed = fmt.Sprintf("size tag %#x decodes to width %d, the writers use it for %d bytes", tag, got, want)
						}
					}
				}
			}
		}
		// operation type = low nibble of the header
		for hvv := int64(0); hvv < 256; hvv++ {
			got, ok := evalExpr(typ, map[string]int64{hdrKey: hvv})
			if !ok || got != hvv&0x0f {
				m := "the operation type is not the low four bits of the header byte"
				if c.str {
					msgString = m
				} else {
					msgFixed = m
				}
				break
			}
		}
		if c.str {
			if hs := p.Field("r", "headString"); hs == nil || hs.key != last0 {
				msgNext = "a string value does not remember where its header is (SwapBytes rewrites the header there)"
			}
		}
		// the offset
		off := p.Field("r", "Offset")
		if c.next {
			want := mkOp("add", mkSym("r.Offset@0"), mkConst(1))
			if off == nil || off.key != want.key {
				msgNext = "with the next-flag set the offset is not incremented by one"
			}
			if last.key != i1.key {
				msgNext = "with the next-flag set the position is not left behind the value"
			}
			continue
		}
		// varint behind the value: stage k consumes k+1 bytes
		tl, _, kl := linearOf(last)
		for key, coef := range t1 {
			tl[key] -= coef
		}
		tl[last0]--
		for key, coef := range tl {
			if coef == 0 {
				delete(tl, key)
			}
		}
		if off == nil {
			continue // more than five continuation bytes: malformed input, nothing decoded
		}
		if len(tl) != 0 {
			msgVar = "the position after the offset is not the end of the value plus the bytes consumed"
			continue
		}
		adv := kl - k1
		to, ao, ko := linearOf(off)
		var x *expr
		if to["r.Offset@0"] == 1 && ko == 0 && len(to) == 2 {
			for key, coef := range to {
				if key != "r.Offset@0" && coef == 1 {
					x = ao[key]
				}
			}
		}
		if x == nil {
			msgVar = fmt.Sprintf("the decoded delta is not added to the offset (%v)", off)
			continue
		}
		parts := orParts(unconv(x))
		okStage := int64(len(parts)) == adv
		seenJ := map[int64]bool{}
		for _, pt := range parts {
			bt := shiftedTerm(pt)
			b := unconv(bt.Base)
			// b = buffer[end-of-value + j]
			if b.op != "idx" || b.args[0].key != "r.buffer@0" {
				okStage = false
				continue
			}
			tj, _, kj := linearOf(b.args[1])
			for key, coef := range t1 {
				tj[key] -= coef
			}
			tj[last0]--
			for key, coef := range tj {
				if coef == 0 {
					delete(tj, key)
				}
			}
			j := kj - k1
			if len(tj) != 0 || j < 0 || j >= adv || seenJ[j] {
				okStage = false
				continue
			}
			seenJ[j] = true
			if bt.Shift != 7*j {
				okStage = false
			}
			if j < adv-1 && bt.Mask&0xff != 0x7f {
				okStage = false // a continuation byte contributes its low seven bits only
			}
			if j == adv-1 && bt.Mask != -1 && bt.Mask&0x7f != 0x7f {
				okStage = false
			}
		}
		// the continuation test of every byte read: < 0x80 ends, ≥ 0x80 continues
		for _, cd := range p.Conds {
			at := map[string]*expr{}
			atomsOf(cd.E, at)
			if len(at) != 1 {
				continue
			}
			for key, a := range at {
				if a.op != "idx" || key == hdrKey {
					continue
				}
				lo, ok1 := evalExpr(cd.E, map[string]int64{key: 0x7f})
				hi, ok2 := evalExpr(cd.E, map[string]int64{key: 0x80})
				if !ok1 || !ok2 || lo == hi {
					okStage = false
				}
			}
		}
		if !okStage {
			msgVar = fmt.Sprintf("the stage that consumes %d byte(s) does not assemble Σ (byte_j & 0x7f) << 7j (got %v)", adv, x)
		}
		if stages[c] == nil {
			stages[c] = map[int64]bool{}
		}
		stages[c][adv] = true
	}
	for _, c := range []combo{{false, false}, {false, true}, {true, false}, {true, true}} {
		if !covered[c] && msgNext == "" {
			msgNext = fmt.Sprintf("no decoding path for string=%v next=%v", c.str, c.next)
		}
		if !c.next {
			for k := int64(1); k <= 5; k++ {
				if !stages[c][k] && msgVar == "" {
					msgVar = fmt.Sprintf("no stage decodes an offset of %d byte(s) (string=%v): large or negative deltas decode wrongly", k, c.str)
				}
			}
		}
	}
	if in.Truncated > 0 && msgNext == "" && len(covered) < 4 {
		msgNext = "paths of Reader.Next were given up"
	}
	h.Check(msgNext == "", "(*commit.Reader).Next", r.P.Pos(fn.Pos()), fmt.Sprintf("%d paths: string|fixed × offset++|varint", len(in.Paths)), "Reader.Next does not pair string/fixed decoding with offset++/varint-offset for the four flag combinations: "+msgNext)
	h.Check(msgFixed == "", "(*commit.Reader).readFixed", r.P.Pos(fn.Pos()), "size tag ↦ {0,2,4,8}, value behind the header, type = low nibble", "fixed-width decoding disagrees with the writers: "+msgFixed)
	h.Check(msgString == "", "(*commit.Reader).readString", r.P.Pos(fn.Pos()), "value behind header + 2 big-endian length bytes", "string decoding disagrees with PutBytes: "+msgString)
	hv.Check(msgVar == "", "(*commit.Reader).readOffset", r.P.Pos(fn.Pos()), "stages 1..5: k bytes, Σ (b_j&0x7f)<<7j", "readOffset does not decode what writeOffset writes: "+msgVar)
}

// ruleWireVarintWriter: C05.varint, writer side.
func ruleWireVarintWriter(r *Report, hv *RuleH) {
	fn := r.Anchor("(*commit.Buffer).writeOffset")
	if fn == nil {
		return
	}
	in := &Interp{Inline: func(f *ssa.Function) bool { return isHelper(f) }, MaxVisits: 7}
	in.Run(fn)
	msg := ""
	lens := map[int]bool{}
	for _, p := range in.Paths {
		var bytes []*expr
		for _, ev := range p.Events {
			if ev.Kind == "append" && isByteSliceAppend(ev) {
				bytes = append(bytes, ev.Args[1:]...)
			} else if ev.Kind == "spread" {
				msg = "writeOffset appends a slice"
			}
		}
		if len(bytes) == 0 {
			msg = "a path of writeOffset appends nothing"
			continue
		}
		lens[len(bytes)] = true
		for j, b := range bytes {
			lastB := j == len(bytes)-1
			var rest *expr
			cont := int64(0)
			for _, pt := range orParts(unconv(b)) {
				if c, ok := unconv(pt).isConst(); ok {
					cont |= c
				} else if rest == nil {
					rest = pt
				} else {
					msg = "an offset byte is not (delta >> 7j) [| 0x80]"
				}
			}
			if rest == nil {
				msg = "an offset byte carries no data"
				continue
			}
			bt := shiftedTerm(rest)
			base, sh := shrOf(bt.Base)
			if unconv(base).key != "delta" || sh != int64(7*j) || bt.Shift != 0 {
				msg = fmt.Sprintf("offset byte %d carries bits %d… of %v, expected bits %d… of the delta", j, sh, base, 7*j)
			}
			if !lastB && cont != 0x80 {
				msg = "a continuation byte lacks the continuation bit 0x80"
			}
			if lastB && cont != 0 {
				msg = "the last offset byte carries the continuation bit"
			}
			if !lastB && bt.Mask != -1 && bt.Mask&0x7f != 0x7f {
				msg = "a continuation byte does not carry seven data bits"
			}
		}
		// the loop continues exactly while the remaining value needs more than seven bits
		for _, cd := range p.Conds {
			at := map[string]*expr{}
			atomsOf(cd.E, at)
			if _, has := at["delta"]; !has || len(at) != 1 {
				continue
			}
			// find the shift this test applies to: evaluate around the 7-bit boundary of every stage
			okT := false
			for j := 0; j < 5; j++ {
				lo, ok1 := evalExpr(cd.E, map[string]int64{"delta": int64(0x7f) << uint(7*j)})
				hi, ok2 := evalExpr(cd.E, map[string]int64{"delta": int64(0x80) << uint(7*j)})
				if ok1 && ok2 && lo != hi {
					okT = true
				}
			}
			if !okT {
				msg = "the continuation test of writeOffset is not `remaining ≥ 0x80`"
			}
		}
	}
	for k := 1; k <= 5; k++ {
		if !lens[k] && msg == "" {
			msg = fmt.Sprintf("no path writes an offset of %d byte(s)", k)
		}
	}
	hv.Check(msg == "", "(*commit.Buffer).writeOffset", r.P.Pos(fn.Pos()), "while ≥0x80: emit low 7 bits | 0x80, shift by 7", "writeOffset does not emit 7-bit groups with a continuation bit: "+msg)
}

// ruleWireHeaders: C05.header for writeChunk and Reader.Range, and the block arithmetic of
// writeChunk (U.defs), on the enumerated paths.
func ruleWireHeaders(r *Report, h *RuleH) {
	cs, _ := r.P.ConstVal("commit", "chunkShift")
	var shift int64
	fmt.Sscanf(cs, "%d", &shift)
	if fn := r.Anchor("(*commit.Buffer).writeChunk"); fn != nil {
		in := &Interp{Inline: wireInline}
		in.Run(fn)
		blk := mkOp("shr", mkSym("idx"), mkConst(shift))
		msgH, msgD := "", ""
		seen := map[bool]bool{}
		if len(in.Paths) == 0 || in.Truncated > 0 {
			msgH = "the paths of writeChunk could not be enumerated"
		}
		for _, p := range in.Paths {
			changed, classified := false, false
			for _, c := range p.Conds {
				e, val := c.E, c.Val
				if e.op == "ne" {
					e, val = mkOp("not", e), !val
				}
				if e.op != "eq" {
					continue
				}
				a, b := unconv(e.args[0]), unconv(e.args[1])
				if (a.key == "b.chunk@0" && b.key == blk.key) || (b.key == "b.chunk@0" && a.key == blk.key) {
					changed, classified = !val, true
				}
			}
			if !classified {
				msgH = fmt.Sprintf("a path of writeChunk does not compare the buffer's current block with the block of the offset (idx >> %d)", shift)
				continue
			}
			seen[changed] = true
			var hdrs []*expr
			for _, ev := range p.Events {
				if (ev.Kind == "append" || ev.Kind == "spread") && !isByteSliceAppend(ev) {
					hdrs = append(hdrs, ev.Args[1:]...)
				}
			}
			cur := p.Field("b", "chunk")
			if changed {
				if len(hdrs) != 1 || hdrs[0].op != "struct" {
					msgH = "a block change does not append exactly one header"
				} else {
					get := func(n string) *expr {
						for j, f := range strings.Split(hdrs[0].name, ",") {
							if f == n {
								return unconv(hdrs[0].args[j])
							}
						}
						return mkSym("<unset>")
					}
					if get("Chunk").key != blk.key {
						msgH = "the header does not name the new block"
					}
					if get("Start").key != "len(b.buffer@0)" {
						msgH = "the header's Start is not the current length of the buffer"
					}
					if get("Value").key != "b.last@0" {
						msgH = "the header's Value is not the previous offset"
					}
				}
				if cur == nil || unconv(cur).key != blk.key {
					msgH = "a block change does not record the new block as the current one"
				}
			} else {
				if len(hdrs) != 0 {
					msgH = "a header is appended although the block did not change"
				}
				if cur != nil && cur.key != "b.chunk@0" {
					msgH = "the current block is overwritten although it did not change"
				}
			}
			last := p.Field("b", "last")
			if last == nil || unconv(last).key != "idx" {
				msgD = "the offset is not recorded as the last one on every path"
			}
			if len(p.Ret) != 1 {
				msgD = "no delta returned"
			} else {
				t, _, k := linearOf(p.Ret[0])
				ok := k == 0 && len(t) == 2 && t["b.last@0"] == -1
				for key, coef := range t {
					if key != "b.last@0" && !(coef == 1 && (key == "conv-32(idx)" || key == "idx")) {
						ok = false
					}
				}
				if !ok {
					msgD = fmt.Sprintf("the delta returned is %v, expected idx - previous offset", p.Ret[0])
				}
			}
		}
		if msgH == "" && (!seen[true] || !seen[false]) {
			msgH = "writeChunk does not distinguish a block change from the same block"
		}
		h.Check(msgH == "", "(*commit.Buffer).writeChunk/header", r.P.Pos(fn.Pos()), "block change ⇒ header{block, len(buffer), last}", "writeChunk does not append header{block, len(buffer), last} exactly when the block changes: "+msgH)
		h.Check(msgD == "", "(*commit.Buffer).writeChunk/delta", r.P.Pos(fn.Pos()), "delta = idx - last; last = idx", "writeChunk does not return idx-last and record idx as the last offset on every path: "+msgD)
	}
	if fn := r.Anchor("(*commit.Reader).Range"); fn != nil {
		in := &Interp{Inline: wireInline, MaxVisits: 3}
		in.Run(fn)
		msgS, msgM := "", ""
		ncalls := 0
		for _, p := range in.Paths {
			known := map[string]bool{}
			for _, c := range p.Conds {
				e, val := c.E, c.Val
				if e.op == "ne" || e.op == "le" {
					e, val = mkOp("not", e), !val
				}
				known[e.key] = val
			}
			for _, ev := range p.Events {
				if ev.Kind != "call" || ev.Name != "dynamic" || len(ev.Args) < 2 || ev.Args[0].key != "fn" {
					continue
				}
				ncalls++
				if ev.Args[1].key != "r" {
					msgS = "the callback does not receive the reader"
				}
				get := func(f string) *expr {
					if v := ev.Heap["&r."+f]; v != nil {
						return unconv(v)
					}
					return mkSym("<unset>")
				}
				// which header is this section for?
				x0 := get("x0")
				if x0.op != "field" || x0.name != "Start" || x0.args[0].op != "idx" || x0.args[0].args[0].key != "buf.chunks@0" {
					msgS = fmt.Sprintf("the section does not start at a header's Start (x0 = %v)", x0)
					continue
				}
				hd := x0.args[0]
				i, isC := hd.args[1].isConst()
				if !isC {
					msgS = "the header index is not the loop counter"
					continue
				}
				// only sections of the requested block are handed out
				m1 := mkOp("eq", mkSym("chunk"), mkRaw("field", 0, "Chunk", hd))
				if v, ok := known[m1.key]; !ok || !v {
					msgM = "a section is handed to the callback without its header naming the requested block"
				}
				// bounded by the next header, or the end of the buffer for the last one
				next := mkRaw("idx", 0, "", mkSym("buf.chunks@0"), mkConst(i+1))
				more := mkOp("lt", mkConst(i+1), mkRaw("len", 0, "", mkSym("buf.chunks@0")))
				wantX1 := "len(buf.buffer@0)"
				if v, ok := known[more.key]; ok && v {
					wantX1 = mkRaw("field", 0, "Start", next).key
				} else if !ok {
					msgS = "the section's end does not depend on whether another header follows"
				}
				if get("x1").key != wantX1 {
					msgS = fmt.Sprintf("section %d ends at %v, expected %s", i, get("x1"), wantX1)
				}
				wantBuf := mkRaw("slice", 0, "", mkSym("buf.buffer@0"), ev.Heap["&r.x0"], ev.Heap["&r.x1"])
				if b := ev.Heap["&r.buffer"]; b == nil || b.key != wantBuf.key {
					msgS = "the reader is not positioned on buffer[x0:x1]"
				}
				val := mkRaw("field", 0, "Value", hd).key
				if get("Offset").key != val || get("start").key != val {
					msgS = "offset and start do not restart from the header's Value"
				}
				if get("parent").key != "buf" {
					msgS = "the reader's parent is not the buffer being read (SwapBytes appends to it)"
				}
				if l := ev.Heap["&r.last"]; l == nil || l.key != "0" {
					msgS = "the read position is not reset for the section"
				}
			}
		}
		if ncalls == 0 {
			msgS = "no path hands a section to the callback"
		}
		h.Check(msgS == "", "(*commit.Reader).Range/section", r.P.Pos(fn.Pos()), fmt.Sprintf("%d callback sites on %d paths: offset,start := header.Value; section = [header.Start, next.Start | len)", ncalls, len(in.Paths)), "Reader.Range does not restart the offset chain from the block header and bound the section by the next header: "+msgS)
		h.Check(msgM == "" && ncalls > 0, "(*commit.Reader).Range/match", r.P.Pos(fn.Pos()), "callback ⇐ header.Chunk == requested block", "Reader.Range hands sections of other blocks to the callback: "+msgM)
	}
}

// wireBlockOfWriteChunk: the block arithmetic of writeChunk, for U.defs: the shift applied to the
// offset in the comparison with the current block (-1 if not found).
func wireBlockOfWriteChunk(fn *ssa.Function) int64 {
	in := &Interp{Inline: wireInline}
	in.Run(fn)
	got := int64(-1)
	for _, p := range in.Paths {
		for _, c := range p.Conds {
			if len(c.E.args) != 2 {
				continue
			}
			for _, a := range c.E.args {
				b, k := shrOf(a)
				if unconv(b).key == "idx" && k > 0 {
					got = k
				}
			}
		}
	}
	return got
}

// wireWidthCalls walks fn (one path expected) and lists the bit widths N of the calls to
// <prefix>N it makes, each accepted by ok.
func wireWidthCalls(fn *ssa.Function, prefix string, ok func(ievent) bool) ([]int, bool) {
	in := &Interp{Inline: wireInline}
	in.Run(fn)
	if len(in.Paths) != 1 || in.Truncated > 0 {
		return nil, false
	}
	var ws []int
	good := true
	for _, ev := range in.Paths[0].Events {
		if ev.Kind != "call" || !strings.HasPrefix(ev.Name, prefix) {
			continue
		}
		var n int
		if _, err := fmt.Sscanf(strings.TrimPrefix(ev.Name, prefix), "%d", &n); err != nil {
			continue
		}
		ws = append(ws, n)
		if !ok(ev) {
			good = false
		}
	}
	return ws, good
}

// wireRetagsAsPut: on the one path of fn the only buffer byte stored besides the value is the
// header in front of it (i0-1), and for every old header value it becomes old&0xf0 | Put.
func wireRetagsAsPut(fn *ssa.Function) bool {
	in := &Interp{Inline: wireInline}
	in.Run(fn)
	if len(in.Paths) != 1 || in.Truncated > 0 {
		return false
	}
	p := in.Paths[0]
	cell := mkRaw("elem", 0, "", mkSym("r.buffer@0"), mkOp("add", mkSym("r.i0@0"), mkConst(-1)))
	old := mkRaw("idx", 0, "", mkSym("r.buffer@0"), mkOp("add", mkSym("r.i0@0"), mkConst(-1)))
	for _, ev := range p.Events {
		if ev.Kind == "store" && ev.Name != cell.key {
			return false
		}
	}
	v := p.Heap[cell.key]
	if v == nil {
		return false
	}
	for hv := int64(0); hv < 256; hv++ {
		got, known := evalExpr(v, map[string]int64{old.key: hv})
		if !known || got&0xff != hv&0xf0|opPut {
			return false
		}
	}
	return true
}
