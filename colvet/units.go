package colvet

import (
	"fmt"
	"go/token"
	"go/types"
	"sort"
	"strings"

	"golang.org/x/tools/go/ssa"
)

// Analysis U: offset kinds (DESIGN.md §3 U). Row positions come in two units of one Go type:
// Abs (offset in the collection) and Rel (offset inside a 16K block); Base = chunk.Min().
// Bitmaps come as whole-collection or per-block. A forward abstract interpretation over SSA
// assigns a kind to every value and checks every sink.

type ukind uint8

const (
	uBot ukind = iota // not yet known
	uAbs
	uRel
	uBase
	uChunk   // block number
	uAny     // constants
	uTop     // not derivable
	uBmWhole // whole-collection bitmap
	uBmBlock // per-block bitmap (16K bits)
	uBmDirty // bitmap of block numbers
	uData    // per-block value slice
	uDataEnum
	uPtrAbs    // pointer to the transaction cursor
	uWordBlk   // index of a 64-bit word of a per-block bitmap
	uWordWhole // index of a 64-bit word of a whole-collection bitmap
)

var ukNames = map[ukind]string{uBot: "⊥", uAbs: "Abs", uRel: "Rel", uBase: "Base", uChunk: "Block#", uAny: "const",
	uTop: "⊤", uBmWhole: "whole-bitmap", uBmBlock: "block-bitmap", uBmDirty: "dirty-bitmap", uData: "block-values", uDataEnum: "enum-table", uPtrAbs: "*cursor", uWordBlk: "word-of-block-bitmap", uWordWhole: "word-of-whole-bitmap"}

func (k ukind) String() string { return ukNames[k] }

func ujoin(a, b ukind) ukind {
	switch {
	case a == uBot:
		return b
	case b == uBot:
		return a
	case a == b:
		return a
	case a == uAny:
		return b
	case b == uAny:
		return a
	}
	return uTop
}

// USink is one checked use of an offset or bitmap.
type USink struct {
	Fn   *ssa.Function
	Ins  ssa.Instruction
	What string
	Want ukind
	Got  ukind
}

type Units struct {
	p       *Prog
	k       map[ssa.Value]ukind // recomputed every round
	acc     map[ssa.Value]ukind // accumulated (params, free vars, cells): joined across sources
	dynArgs map[*ssa.Parameter][]ukind
	cellPar map[ssa.Value]*ssa.Parameter // Alloc/FreeVar cell holding a func-typed parameter
	changed bool
	fns     []*ssa.Function
	ret     map[*ssa.Function][]ukind // inferred result kinds of library functions
	fld     map[string]ukind          // field-based: kinds stored into struct fields the table does not name
	Sinks   []USink
}

// fieldOr: the kind of a field by the table or, failing that, the join of everything the library
// stores into that field of that struct type (a small value object bundling a block's data and
// selection carries their kinds).
func (u *Units) fieldOr(fr fieldRef, k ukind) ukind {
	if k != uBot {
		return k
	}
	return u.fld[fr.Struct+"."+fr.Field]
}

func (u *Units) accSet(v ssa.Value, k ukind) {
	if k == uBot {
		return
	}
	n := ujoin(u.acc[v], k)
	if n != u.acc[v] {
		u.acc[v] = n
		u.changed = true
	}
}

func (u *Units) val(v ssa.Value) ukind {
	if v == nil {
		return uBot
	}
	if _, ok := v.(*ssa.Const); ok {
		return uAny
	}
	if k, ok := u.acc[v]; ok {
		return k
	}
	if k := u.k[v]; k != uBot {
		return k
	}
	if isNamed(v.Type(), CommitPath, "Chunk") {
		return uChunk
	}
	return uBot
}

// fieldKind: kinds of struct fields that hold offsets or bitmaps.
func fieldKind(fr fieldRef, t types.Type) ukind {
	switch fr.Struct + "." + fr.Field {
	case "column.Collection.fill", "column.Txn.index", "column.columnBool.data", "column.columnIndex.fill":
		return uBmWhole
	case "column.Txn.dirty":
		return uBmDirty
	case "column.Txn.cursor", "commit.Reader.Offset", "column.sortIndexItem.Value":
		return uAbs
	case "column.columnEnum.data":
		return uDataEnum
	}
	if fr.Field == "cursor" && strings.HasPrefix(fr.Struct, "column.") && t != nil {
		if pt, ok := t.Underlying().(*types.Pointer); ok {
			if _, isPtr := pt.Elem().Underlying().(*types.Pointer); isPtr {
				return uPtrAbs // address of a *uint32 field pointing at Txn.cursor
			}
		}
		if _, isPtr := t.Underlying().(*types.Pointer); isPtr && fr.Struct != "column.Txn" {
			if _, isF := t.Underlying().(*types.Pointer); isF {
				return uPtrAbs
			}
		}
	}
	if strings.HasPrefix(fr.Struct, "struct{fill ") {
		if fr.Field == "fill" {
			return uBmBlock
		}
		if fr.Field == "data" {
			return uData
		}
	}
	return uBot
}

// resultKind of calls to known functions (by short origin name).
func resultKind(name string, i int) ukind {
	switch name {
	case "(*commit.Reader).Index":
		return uAbs
	case "(*commit.Reader).IndexAtChunk":
		return uRel
	case "(commit.Chunk).Min":
		return uBase
	case "(commit.Chunk).Max":
		return uAbs
	case "commit.ChunkAt":
		return uChunk
	case "(commit.Chunk).OfBitmap", "(*column.column).Index", "(column.chunks[T]).Index":
		return uBmBlock
	case "(column.chunks[T]).chunkAt":
		if i == 0 {
			return uBmBlock
		}
		return uData
	case "(*column.Collection).next", "(*column.Collection).findFreeIndex", "(*column.Txn).Index", "(column.Row).Index":
		return uAbs
	case "(*column.columnKey).OffsetOf", "(*column.Txn).insert", "(*column.Txn).Insert", "(*column.Collection).Insert":
		if i == 0 {
			return uAbs
		}
	case "math/bits.TrailingZeros64", "math/bits.LeadingZeros64", "math/bits.Len64":
		return uAny // a bit position within a word: a small delta like a constant
	case "(github.com/kelindar/bitmap.Bitmap).Max", "(github.com/kelindar/bitmap.Bitmap).Min", "(github.com/kelindar/bitmap.Bitmap).MinZero":
		return uBot // depends on receiver; handled at the call
	}
	return uBot
}

// absParams: parameters that are absolute offsets by contract (function short origin name → index
// among declared parameters, receiver excluded).
var absParams = map[string]int{
	"(*column.Txn).QueryAt": 0, "(*column.Collection).QueryAt": 0, "(*column.Txn).DeleteAt": 0, "(*column.Collection).DeleteAt": 0,
	"(*column.Txn).deleteAt": 0, "(*column.Collection).free": 0, "commit.ChunkAt": 0,
	"(*column.numericColumn[T]).load": 0, "(*column.numericColumn[T]).Value": 0, "(*column.numericColumn[T]).Contains": 0,
	"(*column.numericColumn[T]).LoadFloat64": 0, "(*column.numericColumn[T]).LoadInt64": 0, "(*column.numericColumn[T]).LoadUint64": 0,
	"(*column.columnString).LoadString": 0, "(*column.columnString).Value": 0, "(*column.columnString).Contains": 0,
	"(*column.columnEnum).LoadString": 0, "(*column.columnEnum).Value": 0, "(*column.columnEnum).Contains": 0,
	"(*column.columnBool).Value": 0, "(*column.columnBool).Contains": 0, "(*column.columnIndex).Value": 0, "(*column.columnIndex).Contains": 0,
	"(*column.columnRecord).Value": 0, "(*column.column).Value": 0,
	"(*commit.Buffer).writeChunk": 0, "(*commit.Buffer).PutBool": 0,
}

// isBufferPut: Buffer.Put*/write* with signature (op, idx, …): idx is parameter 1.
func isBufferPut(name string) bool {
	if !strings.HasPrefix(name, "(*commit.Buffer).") {
		return false
	}
	m := strings.TrimPrefix(name, "(*commit.Buffer).")
	if m == "PutBool" || m == "PutBitmap" {
		return false
	}
	return strings.HasPrefix(m, "Put") || strings.HasPrefix(m, "writeUint")
}

// blockBitmapParam: functions whose bitmap-typed parameters are per-block selections.
func blockBitmapParam(fn *ssa.Function) bool {
	n := fnName(fn)
	if strings.Contains(n, ").Filter") || strings.HasPrefix(n, "column.filterNumbers") {
		return true
	}
	// the generated numeric apply closures: func(r, fill, data, opts)
	if fn.Parent() != nil && strings.HasPrefix(fn.Parent().Name(), "make") && fn.Parent().Signature.Recv() == nil {
		return true
	}
	return false
}

var uShift int64 = 14

func RunUnits(p *Prog) *Units {
	if v, ok := p.ConstVal("commit", "chunkShift"); ok {
		fmt.Sscanf(v, "%d", &uShift)
	}
	u := &Units{p: p, k: map[ssa.Value]ukind{}, acc: map[ssa.Value]ukind{}, dynArgs: map[*ssa.Parameter][]ukind{},
		cellPar: map[ssa.Value]*ssa.Parameter{}, ret: map[*ssa.Function][]ukind{}, fld: map[string]ukind{}}
	for fn := range p.modFunc {
		if topFn(fn).Origin() != nil {
			continue // instances repeat their generic origin
		}
		if fn.Synthetic != "" {
			continue // promoted-method wrappers and bound-method thunks only forward
		}
		u.fns = append(u.fns, fn)
	}
	sort.Slice(u.fns, func(i, j int) bool { return u.fns[i].String() < u.fns[j].String() })
	// cells that hold a func-typed parameter (captured by reference in closures)
	for _, fn := range u.fns {
		allInstrs(fn, func(ins ssa.Instruction) {
			if st, ok := ins.(*ssa.Store); ok {
				if al, ok := st.Addr.(*ssa.Alloc); ok {
					if par, ok := st.Val.(*ssa.Parameter); ok {
						u.cellPar[al] = par
					}
				}
			}
		})
	}
	for round := 0; round < 3; round++ {
		for _, fn := range u.fns {
			allInstrs(fn, func(ins ssa.Instruction) {
				if mc, ok := ins.(*ssa.MakeClosure); ok {
					cf := mc.Fn.(*ssa.Function)
					for i, b := range mc.Bindings {
						if par := u.cellPar[b]; par != nil {
							u.cellPar[cf.FreeVars[i]] = par
						}
					}
				}
			})
		}
	}
	for iter := 0; iter < 30; iter++ {
		u.changed = false
		prev := u.k
		u.k = map[ssa.Value]ukind{}
		for _, fn := range u.fns {
			u.analyse(fn, false)
		}
		// closures handed to helpers that invoke their function parameter
		for _, fn := range u.fns {
			allInstrs(fn, func(ins ssa.Instruction) {
				cc, _, _ := callCommon(ins)
				if cc == nil {
					return
				}
				sc := cc.StaticCallee()
				if sc == nil {
					return
				}
				sc = originOf(sc)
				for i, a := range cc.Args {
					if i >= len(sc.Params) {
						break
					}
					ks := u.dynArgs[sc.Params[i]]
					if ks == nil {
						continue
					}
					// a literal, a named function, a method value — also when it reaches the call
					// through a local or a captured variable (writeChunk := s.writeChunk)
					if f := asFunc(norm(a)); f != nil && f.Blocks != nil {
						cf := originOf(f)
						for j, k := range ks {
							if par := cbParam(cf, j); par != nil {
								u.accSet(par, k)
							}
						}
					}
				}
			})
		}
		same := len(prev) == len(u.k)
		if same {
			for v, k := range u.k {
				if prev[v] != k {
					same = false
					break
				}
			}
		}
		if !u.changed && same {
			break
		}
	}
	for _, fn := range u.fns {
		u.analyse(fn, true)
	}
	sort.SliceStable(u.Sinks, func(i, j int) bool { return u.Sinks[i].Ins.Pos() < u.Sinks[j].Ins.Pos() })
	return u
}

func (u *Units) sink(fn *ssa.Function, ins ssa.Instruction, what string, want, got ukind) {
	u.Sinks = append(u.Sinks, USink{Fn: fn, Ins: ins, What: what, Want: want, Got: got})
}

func (u *Units) analyse(fn *ssa.Function, check bool) {
	name := fnName(fn)
	// parameters by contract
	nrecv := 0
	if fn.Signature.Recv() != nil {
		nrecv = 1
	}
	if i, ok := absParams[name]; ok && i+nrecv < len(fn.Params) {
		u.accSet(fn.Params[i+nrecv], uAbs)
	}
	if isBufferPut(name) && 1+nrecv < len(fn.Params) {
		u.accSet(fn.Params[1+nrecv], uAbs)
	}
	// parameters that are whole-collection bitmaps by contract
	switch name {
	case "(commit.Chunk).OfBitmap", "(commit.Chunk).Range":
		if len(fn.Params) > 1 {
			u.accSet(fn.Params[1], uBmWhole)
		}
	case "(*commit.Buffer).PutBitmap":
		if len(fn.Params) > 3 {
			u.accSet(fn.Params[3], uBmWhole)
		}
	}
	if blockBitmapParam(fn) {
		for _, par := range fn.Params[nrecv:] {
			if isBitmap(par.Type()) {
				u.accSet(par, uBmBlock)
			} else if _, isSlice := par.Type().Underlying().(*types.Slice); isSlice && fn.Parent() != nil {
				u.accSet(par, uData)
			}
		}
	}
	for _, par := range fn.Params {
		if isNamed(par.Type(), CommitPath, "Chunk") {
			u.accSet(par, uChunk)
		}
	}
	for _, b := range fn.Blocks {
		for _, ins := range b.Instrs {
			switch x := ins.(type) {
			case *ssa.FieldAddr:
				fr, _ := fieldOf(x)
				u.k[x] = u.fieldOr(fr, fieldKind(fr, x.Type()))
			case *ssa.Field:
				fr, _ := fieldOf(x)
				k := fieldKind(fr, nil)
				if fr.Field == "cursor" && strings.HasPrefix(fr.Struct, "column.") {
					if _, isPtr := x.Type().Underlying().(*types.Pointer); isPtr {
						k = uPtrAbs
					}
				}
				u.k[x] = u.fieldOr(fr, k)
			case *ssa.UnOp:
				if x.Op == token.MUL {
					k := u.val(x.X)
					if k == uPtrAbs {
						// **uint32 → *uint32 keeps pointing at the cursor; *uint32 → the cursor value
						if pt, ok := x.X.Type().Underlying().(*types.Pointer); ok {
							if _, pp := pt.Elem().Underlying().(*types.Pointer); !pp {
								k = uAbs
							}
						}
					}
					u.k[x] = k
				}
			case *ssa.Store:
				switch a := x.Addr.(type) {
				case *ssa.Alloc:
					u.accSet(a, u.val(x.Val))
				case *ssa.FreeVar:
					u.accSet(a, u.val(x.Val))
				case *ssa.FieldAddr:
					if fr, ok := fieldOf(a); ok && fieldKind(fr, a.Type()) == uBot {
						if k := u.val(x.Val); k != uBot {
							key := fr.Struct + "." + fr.Field
							if n := ujoin(u.fld[key], k); n != u.fld[key] {
								u.fld[key] = n
								u.changed = true
							}
						}
					}
				}
				if check {
					if fr, ok := fieldOf(x.Addr); ok && fieldKind(fr, nil) == uAbs && fr.Struct != "commit.Reader" {
						u.sink(fn, ins, "store to "+fr.Struct+"."+fr.Field, uAbs, u.val(x.Val))
					}
				}
			case *ssa.Convert:
				u.k[x] = u.val(x.X)
			case *ssa.ChangeType:
				u.k[x] = u.val(x.X)
			case *ssa.Slice:
				u.k[x] = u.val(x.X)
			case *ssa.Phi:
				k := uBot
				for _, e := range x.Edges {
					k = ujoin(k, u.val(e))
				}
				u.k[x] = k
			case *ssa.Extract:
				if call, ok := x.Tuple.(*ssa.Call); ok {
					n := calleeShort(&call.Call)
					k := resultKind(n, x.Index)
					if k == uBot && x.Index == 0 && len(call.Call.Args) > 0 {
						k = u.bitmapQuery(&call.Call)
					}
					if k == uBot {
						if sc := call.Call.StaticCallee(); sc != nil {
							if rk := u.ret[originOf(sc)]; x.Index < len(rk) {
								k = rk[x.Index]
							}
						}
					}
					u.k[x] = k
				}
				if lk, ok := x.Tuple.(*ssa.Lookup); ok && x.Index == 0 {
					u.k[x] = u.lookupKind(lk)
				}
			case *ssa.Lookup:
				if !x.CommaOk {
					u.k[x] = u.lookupKind(x)
				}
				// a read of the back map is keyed like its writes: by the absolute offset
				if check {
					if fr, ok := loadedField(x.X); ok && fr.Struct+"."+fr.Field == "column.columnSortIndex.backMap" {
						u.sink(fn, ins, "back-map key", uAbs, u.val(x.Index))
					}
				}
			case *ssa.BinOp:
				u.k[x] = u.binop(x)
			case *ssa.MakeClosure:
				cf := x.Fn.(*ssa.Function)
				for i, bnd := range x.Bindings {
					u.accSet(cf.FreeVars[i], u.val(bnd))
				}
			case *ssa.Return:
				rk := u.ret[fn]
				if rk == nil {
					rk = make([]ukind, len(x.Results))
					u.ret[fn] = rk
				}
				for i, res := range x.Results {
					if i < len(rk) {
						if n := ujoin(rk[i], u.val(res)); n != rk[i] {
							rk[i] = n
							u.changed = true
						}
					}
				}
			case *ssa.MakeSlice:
				// a bitmap allocated with len(other) words has the other's granularity
				if isBitmap(x.Type()) {
					if c, ok := x.Len.(*ssa.Call); ok {
						if b, ok := c.Call.Value.(*ssa.Builtin); ok && b.Name() == "len" {
							switch k := u.val(c.Call.Args[0]); k {
							case uBmBlock, uBmWhole, uBmDirty:
								u.k[x] = k
							}
						}
					}
				}
			case *ssa.IndexAddr:
				// a bitmap walked word by word (`for i, word := range fill`): the counter is a word
				// index of that bitmap's granularity, word<<6 is the row offset of its first bit
				if bk := u.val(x.X); bk == uBmBlock || bk == uBmWhole {
					if _, isRow := rowOffsetOfWord(x.Index); !isRow {
						iv := strip(x.Index)
						if _, isC := iv.(*ssa.Const); !isC {
							wk := uWordBlk
							if bk == uBmWhole {
								wk = uWordWhole
							}
							if u.acc[iv] != wk {
								u.acc[iv] = wk
								u.changed = true
							}
						}
					}
				}
				if check {
					u.checkIndex(fn, x)
				}
			case *ssa.MapUpdate:
				if check {
					if fr, ok := loadedField(x.Map); ok {
						switch fr.Struct + "." + fr.Field {
						case "column.columnKey.seek":
							u.sink(fn, ins, "lookup-table value", uAbs, u.val(x.Value))
						case "column.columnSortIndex.backMap":
							u.sink(fn, ins, "back-map key", uAbs, u.val(x.Key))
						}
					}
				}
			case *ssa.Call, *ssa.Defer, *ssa.Go:
				cc, _, _ := callCommon(ins)
				u.call(fn, ins, cc, check)
			}
		}
	}
}

func (u *Units) lookupKind(lk *ssa.Lookup) ukind {
	if fr, ok := loadedField(lk.X); ok && fr.Struct == "column.columnKey" && fr.Field == "seek" {
		return uAbs
	}
	return uBot
}

// bitmapQuery: Min/Max/MinZero of a bitmap yields a position of the bitmap's granularity.
func (u *Units) bitmapQuery(cc *ssa.CallCommon) ukind {
	if methodOn(cc, "github.com/kelindar/bitmap", "Bitmap", "Max", "Min", "MinZero", "MaxZero") {
		switch u.val(cc.Args[0]) {
		case uBmWhole:
			return uAbs
		case uBmBlock:
			return uRel
		case uBmDirty:
			return uChunk
		}
	}
	return uBot
}

func isShiftConst(p *Prog, v ssa.Value, want int64) bool {
	c, ok := constInt(v)
	return ok && c == want
}

func (u *Units) binop(x *ssa.BinOp) ukind {
	l, r := u.val(x.X), u.val(x.Y)
	if l == uBot || r == uBot {
		return uBot
	}
	switch x.Op {
	case token.ADD:
		switch {
		case (l == uBase && r == uRel) || (l == uRel && r == uBase):
			return uAbs
		case l == uAny:
			return r
		case r == uAny:
			return l
		}
		return uTop
	case token.SUB:
		switch {
		case l == uAbs && r == uBase:
			return uRel
		case r == uAny:
			return l
		}
		return uTop
	case token.SHL:
		// chunk << chunkShift = Base ; (x>>14)<<14 = Base of x
		if c, ok := constInt(x.Y); ok && c == uShift && l == uChunk {
			return uBase
		}
		// word << 6 = row offset of the word's first bit, in the bitmap's granularity
		if c, ok := constInt(x.Y); ok && c == 6 {
			switch l {
			case uWordBlk:
				return uRel
			case uWordWhole:
				return uAbs
			}
		}
		return uTop
	case token.SHR:
		if c, ok := constInt(x.Y); ok && c == uShift && l == uAbs {
			return uChunk
		}
		return uTop
	case token.MUL:
		if c, ok := constInt(x.Y); ok && c == int64(1)<<uShift && l == uChunk {
			return uBase
		}
		if c, ok := constInt(x.Y); ok && c == 64 {
			switch l {
			case uWordBlk:
				return uRel
			case uWordWhole:
				return uAbs
			}
		}
		return uTop
	case token.AND:
		if c, ok := constInt(x.Y); ok && c == int64(1)<<uShift-1 && l == uAbs {
			return uRel
		}
		return uTop
	case token.REM:
		if c, ok := constInt(x.Y); ok && c == int64(1)<<uShift && l == uAbs {
			return uRel
		}
		return uTop
	case token.EQL, token.NEQ, token.LSS, token.LEQ, token.GTR, token.GEQ:
		return uBot
	}
	return uTop
}

// checkIndex: element access of bitmaps and per-block value slices.
func (u *Units) checkIndex(fn *ssa.Function, x *ssa.IndexAddr) {
	bk := u.val(x.X)
	switch bk {
	case uBmBlock, uBmWhole:
		row, ok := rowOffsetOfWord(x.Index)
		want := uRel
		if bk == uBmWhole {
			want = uAbs
		}
		if !ok {
			// a row offset shifted by something other than 6 (or divided by something other than 64)
			// addresses another word than the row's
			if bo, isB := strip(x.Index).(*ssa.BinOp); isB && (bo.Op == token.SHR || bo.Op == token.QUO) {
				if c, isC := constInt(bo.Y); isC && ((bo.Op == token.SHR && c != 6) || (bo.Op == token.QUO && c != 64)) {
					if k := u.val(bo.X); k == uAbs || k == uRel {
						u.sink(fn, x, "word of "+bk.String()+" for a row (offset>>6)", uWordBlk, uTop)
					}
				}
			}
			// word-level iteration over the bitmap (e.g. `for i := range tmpMap`): not a row access
			return
		}
		u.sink(fn, x, "row of "+bk.String()+" element", want, u.val(row))
	case uData:
		u.sink(fn, x, "index into block-values", uRel, u.val(x.Index))
	}
}

func (u *Units) call(fn *ssa.Function, ins ssa.Instruction, cc *ssa.CallCommon, check bool) {
	name := calleeShort(cc)
	if v, ok := ins.(ssa.Value); ok {
		k := resultKind(name, 0)
		if k == uBot && cc.IsInvoke() {
			switch cc.Method.Name() {
			case "Index":
				if isNamed(cc.Value.Type(), ModPath, "Column") {
					k = uBmBlock
				}
			}
		}
		if k == uBot && len(cc.Args) > 0 {
			if t, isTuple := v.Type().(*types.Tuple); !isTuple || t.Len() == 0 {
				k = u.bitmapQuery(cc)
			}
		}
		if k == uBot {
			if sc := cc.StaticCallee(); sc != nil {
				if rk := u.ret[originOf(sc)]; len(rk) == 1 {
					k = rk[0]
				}
			}
		}
		if _, isTuple := v.Type().(*types.Tuple); !isTuple {
			u.k[v] = k
		}
	}
	// unexported library helpers: parameters take the kinds of the arguments at their call sites
	if sc := cc.StaticCallee(); sc != nil && u.p.InLib(sc) && sc.Object() != nil && !sc.Object().Exported() && sc.Parent() == nil {
		o := originOf(sc)
		for i, a := range cc.Args {
			if i >= len(o.Params) {
				break
			}
			if k := u.val(a); k != uBot && k != uAny {
				u.accSet(o.Params[i], k)
			}
		}
	}
	// the numeric writer closure handed to makeNumeric: func(buffer, idx, value) — idx is absolute
	if name == "column.makeNumeric" && len(cc.Args) > 0 {
		switch f := cc.Args[0].(type) {
		case *ssa.MakeClosure:
			u.accSet(f.Fn.(*ssa.Function).Params[1], uAbs)
		case *ssa.Function:
			u.accSet(f.Params[1], uAbs)
		}
	}
	// the state section is written and read block by block: inside readState the index handed to
	// the callback of the stream's ReadRange is the block number
	if name == "(*iostream.Reader).ReadRange" && len(cc.Args) == 2 && fnName(originOf(topFn(fn))) == "(*column.Collection).readState" {
		if f := asFunc(cc.Args[1]); f != nil {
			if par := cbParam(originOf(f), 0); par != nil {
				u.accSet(par, uChunk)
			}
		}
	}
	// callbacks of bitmap iteration take the granularity of the receiver
	if methodOn(cc, "github.com/kelindar/bitmap", "Bitmap", "Range", "Filter") && len(cc.Args) == 2 {
		var ek ukind
		switch u.val(cc.Args[0]) {
		case uBmWhole:
			ek = uAbs
		case uBmBlock:
			ek = uRel
		case uBmDirty:
			ek = uChunk
		}
		if ek != uBot {
			// a literal, a named function or a method value (txn.deleteAt, filter.match)
			if f := asFunc(cc.Args[1]); f != nil {
				if par := cbParam(originOf(f), 0); par != nil {
					u.accSet(par, ek)
				}
			}
		}
		if check && ek == uBot {
			u.sink(fn, ins, "receiver of bitmap iteration", uBmBlock, u.val(cc.Args[0]))
		}
	}
	// dynamic call through a function-typed parameter (possibly captured): remember the argument kinds
	if cc.StaticCallee() == nil && !cc.IsInvoke() {
		var par *ssa.Parameter
		switch v := cc.Value.(type) {
		case *ssa.Parameter:
			par = v
		case *ssa.UnOp:
			par = u.cellPar[v.X]
		case *ssa.FreeVar:
			par = u.cellPar[v]
		}
		if par != nil {
			ks := make([]ukind, len(cc.Args))
			for i, a := range cc.Args {
				ks[i] = u.val(a)
			}
			old := u.dynArgs[par]
			if old == nil {
				u.dynArgs[par] = ks
				u.changed = true
			} else {
				for i := range ks {
					if i < len(old) {
						if n := ujoin(old[i], ks[i]); n != old[i] {
							old[i] = n
							u.changed = true
						}
					}
				}
			}
		}
		// the numeric column's stored writer: write(dst, idx, value)
		if check {
			if fr, ok := loadedField(cc.Value); ok && fr.Field == "write" && len(cc.Args) >= 2 {
				u.sink(fn, ins, "offset handed to the column's buffer writer", uAbs, u.val(cc.Args[1]))
			}
		}
	}
	if !check {
		return
	}
	nrecv := 0
	if sc := cc.StaticCallee(); sc != nil && sc.Signature.Recv() != nil {
		nrecv = 1
	}
	arg := func(i int) ssa.Value {
		if i+nrecv < len(cc.Args) {
			return cc.Args[i+nrecv]
		}
		return nil
	}
	switch {
	case methodOn(cc, "github.com/kelindar/bitmap", "Bitmap", "Set", "Remove", "Contains"):
		switch u.val(cc.Args[0]) {
		case uBmWhole:
			u.sink(fn, ins, "bit of whole-bitmap", uAbs, u.val(cc.Args[1]))
		case uBmBlock:
			u.sink(fn, ins, "bit of block-bitmap", uRel, u.val(cc.Args[1]))
		case uBmDirty:
			u.sink(fn, ins, "bit of dirty-bitmap", uChunk, u.val(cc.Args[1]))
		default:
			// a bitmap of unknown granularity (local scratch): nothing to check
		}
	case methodOn(cc, "github.com/kelindar/bitmap", "Bitmap", "And", "AndNot", "Or", "Xor"):
		a, b := u.val(cc.Args[0]), u.val(cc.Args[1])
		if (a == uBmWhole || a == uBmBlock) && (b == uBmWhole || b == uBmBlock) {
			u.sink(fn, ins, "operand granularity of bitmap "+baseName(cc.StaticCallee()), a, b)
		}
	case name == "github.com/kelindar/bitmap.Sum" || name == "github.com/kelindar/bitmap.Min" || name == "github.com/kelindar/bitmap.Max" ||
		name == "bitmap.Sum" || name == "bitmap.Min" || name == "bitmap.Max":
		u.sink(fn, ins, "values folded by "+name, uData, u.val(cc.Args[0]))
		u.sink(fn, ins, "selection folded by "+name, uBmBlock, u.val(cc.Args[1]))
	case name == "(commit.Chunk).OfBitmap" || name == "(commit.Chunk).Range":
		if k := u.val(cc.Args[1]); k != uBot {
			u.sink(fn, ins, "bitmap sliced per block by "+strings.TrimPrefix(name, "(commit.Chunk)."), uBmWhole, k)
		}
	case name == "(*commit.Buffer).PutBitmap":
		if k := u.val(cc.Args[3]); k != uBot {
			u.sink(fn, ins, "bitmap handed to PutBitmap (sliced per block inside)", uBmWhole, k)
		}
	case isBufferPut(name):
		u.sink(fn, ins, "offset written to the buffer ("+strings.TrimPrefix(name, "(*commit.Buffer).")+")", uAbs, u.val(arg(1)))
	case name == "(*commit.Buffer).PutBool":
		u.sink(fn, ins, "offset written to the buffer (PutBool)", uAbs, u.val(arg(0)))
	default:
		if i, ok := absParams[name]; ok && name != "(*commit.Buffer).writeChunk" {
			if a := arg(i); a != nil {
				u.sink(fn, ins, "offset argument of "+name, uAbs, u.val(a))
			}
		}
		if cc.IsInvoke() && (isNamed(cc.Value.Type(), ModPath, "Column") || isNamed(cc.Value.Type(), ModPath, "Textual") || isNamed(cc.Value.Type(), ModPath, "Numeric")) {
			switch cc.Method.Name() {
			case "Value", "Contains", "LoadString", "LoadFloat64", "LoadInt64", "LoadUint64":
				u.sink(fn, ins, "offset argument of "+cc.Method.Name(), uAbs, u.val(cc.Args[0]))
			}
		}
		// generic T.LoadString on a type parameter
		if cc.IsInvoke() && cc.Method.Name() == "LoadString" {
			if _, isTP := cc.Value.Type().(*types.TypeParam); isTP {
				u.sink(fn, ins, "offset argument of LoadString", uAbs, u.val(cc.Args[0]))
			}
		}
	}
}

func (s USink) Status() string {
	switch {
	case s.Got == s.Want || s.Got == uAny:
		return "ok"
	case s.Got == uBot || s.Got == uTop:
		return "unclassified"
	}
	return "mismatch"
}

func (s USink) String(p *Prog) string {
	return fmt.Sprintf("%s %s in %s: %s needs %s, gets %s", p.InstrPos(s.Ins), s.Status(), fnName(s.Fn), s.What, s.Want, s.Got)
}

func init() {
	dumpers["units"] = func(p *Prog, filter string) {
		u := RunUnits(p)
		cnt := map[string]int{}
		for _, s := range u.Sinks {
			cnt[s.Status()]++
			line := s.String(p)
			if strings.Contains(line, filter) {
				fmt.Println(line)
			}
		}
		fmt.Println(cnt)
	}
}
