#!/bin/bash
# seedverify.sh <seed-id> <dir-with-seed-subdir> : confirm a seeded change independently of the checker, in a fresh worktree:
# 1. unedited suite with the change  2. demo passes without the change  3. demo fails with it.  Copies the seed to /verif/seeded/<id>/.
ID=$1; WT=$2
export GOFLAGS=-mod=mod GOPROXY=off GOSUMDB=off GOTOOLCHAIN=local
unset GOWORK
S=$WT/seed
[ -f $S/patch.diff ] || { echo "$ID: no patch.diff in $S"; exit 2; }
OUT=/verif/seeded/$ID; mkdir -p $OUT
cp $S/patch.diff $OUT/patch.diff
for f in $S/*; do case "$f" in */patch.diff) ;; *) cp -r "$f" $OUT/;; esac; done
SCR=$(mktemp -d /tmp/seedchk.XXXXXX)
export TMPDIR=$SCR/tmp; mkdir -p $TMPDIR
git -C /repo worktree add -q --detach $SCR/wt HEAD || exit 2
cd $SCR/wt
DEMO=$(ls $OUT/*_test.go 2>/dev/null | head -1)
PKGDIR=.
if [ -n "$DEMO" ] && head -5 "$DEMO" | grep -q "^package commit"; then PKGDIR=./commit; fi
TESTS=$(grep -ho "^func Test[A-Za-z0-9_]*" $OUT/*_test.go | sed 's/func //' | paste -sd'|')
cp $OUT/*_test.go $PKGDIR/ 2>/dev/null
RACE=""; grep -qi "needs.*-race\|-race is needed\|-race needed\|requires -race" $OUT/notes.md 2>/dev/null && RACE="-race"
( cd $PKGDIR && go test -count=1 -vet=off $RACE -run "^($TESTS)\$" . > $SCR/demo_without.txt 2>&1 ); R0=$?
git apply --whitespace=nowarn $OUT/patch.diff || echo "$ID: PATCH DOES NOT APPLY"
( cd $PKGDIR && go test -count=1 -vet=off $RACE -run "^($TESTS)\$" . > $SCR/demo_with.txt 2>&1 ); R1=$?
for f in $OUT/*_test.go; do rm -f $PKGDIR/$(basename $f); done
go build ./... > $SCR/build.txt 2>&1; RB=$?
SUITE=$(/verif/scripts/suite.sh $SCR/wt | head -3 | tr '\n' ' ')
echo "$ID: build=$RB suite=[$SUITE] demo_without=$R0 (want 0) demo_with=$R1 (want !=0) tests=$TESTS race=$RACE"
{ echo "suite_with_change: $SUITE"; echo "demo_without_change_exit: $R0"; echo "demo_with_change_exit: $R1"; echo "race: $RACE"; } > $OUT/verify.txt
cd /; git -C /repo worktree remove --force $SCR/wt; rm -rf $SCR
