#!/usr/bin/env python3
"""Applies every /verif/seeded/<id>/patch.diff to /repo in turn, runs all checks, records which
obligations fire (meta.json: detected_by) and prints the matrix. /repo is restored after each."""
import json, os, subprocess, sys, glob, re
os.chdir('/verif')
only = sys.argv[1:]
def sh(cmd):
    return subprocess.run(cmd, shell=True, capture_output=True, text=True)
st = sh('git -C /repo status --short').stdout.strip()
if st:
    sys.exit('refusing: /repo is dirty\n' + st)
rows = []
for d in sorted(glob.glob('/verif/seeded/*/')):
    sid = os.path.basename(d.rstrip('/'))
    if only and sid not in only:
        continue
    patch = d + 'patch.diff'
    meta_p = d + 'meta.json'
    meta = json.load(open(meta_p)) if os.path.exists(meta_p) else {'id': sid}
    r = sh(f'git -C /repo apply --whitespace=nowarn {patch}')
    if r.returncode != 0:
        print(sid, 'PATCH DOES NOT APPLY', r.stderr.strip()[:200])
        sh('git -C /repo checkout -- . && git -C /repo clean -fdq')
        continue
    out = sh('./check all quick').stdout
    sh('git -C /repo checkout -- . && git -C /repo clean -fdq')
    fired = {}
    prop = None
    for line in out.splitlines():
        m = re.match(r'VIOLATION property=(C\d+)', line)
        if m:
            prop = m.group(1)
        m = re.match(r'\s+where\s+\S+\s+\[(.*)\]', line)
        if m and prop:
            fired.setdefault(m.group(1), []).append(prop)
    und = [l for l in out.splitlines() if l.startswith('UNDECIDED') or 'cannot analyse' in l]
    meta['detected_by'] = {k: sorted(set(v)) for k, v in sorted(fired.items())}
    target = meta.get('property', sid.split('-')[0])
    meta['detected_by_target_property_check'] = any(target in v for v in fired.values())
    if und:
        meta['undecided'] = und[:5]
    json.dump(meta, open(meta_p, 'w'), indent=1, ensure_ascii=False)
    rows.append((sid, target, meta['detected_by_target_property_check'], sorted(fired)))
for sid, target, ok, keys in rows:
    print(f"{sid:32s} target={target} {'CAUGHT' if ok else ('caught-elsewhere' if keys else 'MISSED')}  {', '.join(keys)[:150]}")
