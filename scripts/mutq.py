#!/usr/bin/env python3
"""mutq.py <mutants.jsonl> <id>... — development aid: alarms of single mutants relative to the unchanged tree (scratch copies)."""
import json, os, subprocess, sys, shutil, tempfile, re
os.chdir('/verif')
muts = {json.loads(l)['id']: json.loads(l) for l in open(sys.argv[1])}
ROOT = tempfile.mkdtemp(prefix='mq.', dir='/tmp')
def sh(cmd): return subprocess.run(cmd, shell=True, capture_output=True, text=True)
sh(f'mkdir -p {ROOT}/base && cd /repo && git archive {os.environ.get("MUTBASE", "HEAD")} | tar -x -C {ROOT}/base')
def keys_of(repo):
    out = sh(f'./bin/colvet -repo {repo} -property all -keys 2>&1').stdout
    return set(re.findall(r'^KEY ((?:violated|undecided) .*)$', out, re.M))
base = keys_of(f'{ROOT}/base')
for i in sys.argv[2:]:
    m = muts[i]; w = f'{ROOT}/{i}'
    shutil.copytree(f'{ROOT}/base', w)
    p = f'{w}/{m["file"]}'; b = open(p, 'rb').read()
    open(p, 'wb').write(b[:m['start']] + m['repl'].encode() + b[m['end']:])
    new = sorted(keys_of(w) - base)
    print(i, m['file'], m['line'], m['func'], m['op'], '→', new if new else 'SILENT')
    shutil.rmtree(w)
shutil.rmtree(ROOT)
