#!/usr/bin/env python3
"""Applies every /verif/benign/<id>/patch.diff (behaviour-preserving refactorings) to /repo in turn, runs all checks
and lists every alarm (there must be none). /repo is restored after each. Writes benign/<id>/status.json."""
import json, os, subprocess, sys, glob, re
os.chdir('/verif')
only = sys.argv[1:]
def sh(cmd):
    return subprocess.run(cmd, shell=True, capture_output=True, text=True)
if sh('git -C /repo status --short').stdout.strip():
    sys.exit('refusing: /repo is dirty')
tot = 0
for d in sorted(glob.glob('/verif/benign/*/')):
    bid = os.path.basename(d.rstrip('/'))
    if only and bid not in only:
        continue
    r = sh(f'git -C /repo apply --whitespace=nowarn {d}patch.diff')
    if r.returncode != 0:
        print(bid, 'PATCH DOES NOT APPLY'); sh('git -C /repo checkout -- . && git -C /repo clean -fdq'); continue
    out = sh('./check all quick').stdout
    sh('git -C /repo checkout -- . && git -C /repo clean -fdq')
    keys = sorted(set(re.findall(r'^\s+where\s+\S+\s+\[(.*)\]', out, re.M)))
    und = sorted(set(re.findall(r'^UNDECIDED property=\S+ \[(.*?)\]', out, re.M)))
    json.dump({'id': bid, 'false_alarms': keys, 'undecided': und}, open(d + 'status.json', 'w'), indent=1)
    tot += len(keys)
    print(f"{bid}: {len(keys)} false alarms, {len(und)} undecided")
    for k in keys: print('    ', k)
    for k in und: print('     (undecided)', k)
print('total false alarms:', tot)
