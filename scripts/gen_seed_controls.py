#!/usr/bin/env python3
"""controls/seeds.json: every seeded change becomes a positive control of the thorough tier (the patch is applied
to a scratch copy; the obligations recorded by seedmatrix.py for the target property must fire).
controls/benign.json: every behaviour-preserving refactoring under benign/ becomes a negative control."""
import json, glob, os
os.chdir('/verif')
out = []
for d in sorted(glob.glob('seeded/*/')):
    mp = d + 'meta.json'
    if not os.path.exists(mp):
        continue
    m = json.load(open(mp))
    t = m.get('property')
    keys = [k for k, ps in m.get('detected_by', {}).items() if t in ps]
    if not keys:
        continue
    out.append({'id': 'seed-' + m['id'], 'properties': [t], 'expect': keys, 'why': m.get('summary', ''), 'patch': d + 'patch.diff', 'suite': 'survives'})
json.dump(out, open('controls/seeds.json', 'w'), indent=1, ensure_ascii=False)
props = [json.loads(l)['id'] for l in open('properties.jsonl')]
ben = []
for d in sorted(glob.glob('benign/*/')):
    st = d + 'status.json'
    if os.path.exists(d + 'patch.diff') and os.path.exists(st) and not json.load(open(st))['false_alarms'] and not json.load(open(st))['undecided']:
        ben.append({'id': 'benign-' + os.path.basename(d.rstrip('/')), 'properties': props, 'expect': [], 'why': 'behaviour-preserving refactoring (negative control): no new violation may appear', 'patch': d + 'patch.diff', 'benign': True, 'suite': 'survives'})
json.dump(ben, open('controls/benign.json', 'w'), indent=1, ensure_ascii=False)
print(len(out), 'seed controls,', len(ben), 'benign controls')
