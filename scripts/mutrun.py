#!/usr/bin/env python3
"""mutrun.py <mutants.jsonl> <out.jsonl> [workers] — development aid (DESIGN.md §8 "Mutation sample"): applies each single-point
mutant listed by bin/mutgen to a scratch copy of /repo's HEAD, builds it, runs the unedited suite, and for the mutants the suite
does not notice records 'survived' (scripts/mutflags.py then runs the analyser on those). /repo itself is not touched."""
import json, os, subprocess, sys, shutil, tempfile, re
from concurrent.futures import ThreadPoolExecutor
os.chdir('/verif')
src, dst = sys.argv[1], sys.argv[2]
workers = int(sys.argv[3]) if len(sys.argv) > 3 else 10
ENV = dict(os.environ, GOFLAGS='-mod=mod', GOPROXY='off', GOSUMDB='off', GOTOOLCHAIN='local')
ENV.pop('GOWORK', None)
ROOT = tempfile.mkdtemp(prefix='mut.', dir='/tmp')
def sh(cmd, timeout=None, **kw):
    try:
        return subprocess.run(cmd, shell=True, capture_output=True, text=True, env=ENV, timeout=timeout, **kw)
    except subprocess.TimeoutExpired as e:
        class R: returncode = 124; stdout = ''; stderr = 'timeout'
        return R()
sh(f'mkdir -p {ROOT}/base && cd /repo && git archive {os.environ.get("MUTBASE", "HEAD")} | tar -x -C {ROOT}/base')
def keys_of(repo):
    out = sh(f'./bin/colvet -repo {repo} -property all -keys 2>&1').stdout
    per, cur = {}, []
    for line in out.splitlines():
        m = re.match(r'KEY (violated|undecided) (.*)', line)
        if m:
            cur.append((m.group(1), m.group(2))); continue
        if 'cannot analyse' in line:
            cur.append(('undecided', 'cannot analyse')); continue
        m = re.match(r'(C\d+) tier=', line)
        if m:
            per[m.group(1)] = set(cur); cur = []
    return per
done = set()
if os.path.exists(dst):
    for l in open(dst):
        done.add(json.loads(l)['id'])
muts = [json.loads(l) for l in open(src)]
muts = [m for m in muts if m['id'] not in done]
out = open(dst, 'a')
def run(m):
    w = f'{ROOT}/{m["id"]}'
    shutil.copytree(f'{ROOT}/base', w)
    p = f'{w}/{m["file"]}'
    b = open(p, 'rb').read()
    assert b[m['start']:m['end']].decode() == m['orig'], m
    open(p, 'wb').write(b[:m['start']] + m['repl'].encode() + b[m['end']:])
    res = dict(m)
    r = sh(f'cd {w} && go build ./... 2>&1 && go vet ./... 2>&1 | head -0', timeout=300)
    if r.returncode != 0:
        res['status'] = 'no-build'
    else:
        r = sh(f'cd {w} && go test -count=1 -vet=off -timeout 180s . ./commit 2>&1 | tail -3', timeout=400)
        t = sh(f'cd {w} && go test -count=1 -vet=off -timeout 180s . ./commit >/dev/null 2>&1', timeout=400) if False else r
        ok = r.returncode == 0 and 'FAIL' not in r.stdout and 'panic' not in r.stdout and r.stdout.count('ok ') >= 2
        if not ok:
            res['status'] = 'killed-by-suite'
        else:
            res['status'] = 'survived'
    shutil.rmtree(w, ignore_errors=True)
    out.write(json.dumps(res) + '\n'); out.flush()
    return res['status']
from collections import Counter
with ThreadPoolExecutor(max_workers=workers) as ex:
    c = Counter(ex.map(run, muts))
shutil.rmtree(ROOT, ignore_errors=True)
print(c)
