#!/usr/bin/env python3
"""Regenerates the generated appendices of DESIGN.md from evidence/, controls/ and seeded/."""
import json, glob, os, re
os.chdir('/verif')
out = []
out.append("### B.1 Rules per property (from the evidence of the last quick run)\n")
out.append("| property | rule | analysis | obligations | floor | what the rule demands |")
out.append("|---|---|---|---|---|---|")
for f in sorted(glob.glob('evidence/C*.json')):
    ev = json.load(open(f))
    for ru in ev['coverage']['rules']:
        out.append(f"| {ev['property_id']} | `{ru['id']}` | {ru['analysis']} | {ru['obligations']} | {ru['floor']} | {ru['text']} |")
out.append("")
out.append("### B.2 Witness controls (thorough tier): one-instance breaking edits and the obligation that must fire\n")
out.append("| witness | properties | obligation that must become violated | effect of the edit | against the repo's suite |")
out.append("|---|---|---|---|---|")
for c in json.load(open('controls/witnesses.json')):
    out.append(f"| {c['id']} | {' '.join(c['properties'])} | `{'`, `'.join(c['expect'])}` | {c['why']} | {c.get('suite','') or 'not calibrated'} |")
out.append("")
out.append("### B.3 Seeded changes (independent sub-agents) and the checks that catch them\n")
out.append("| seed | target | what the change does | needs to manifest | caught by the target property's check | obligations that fire (properties) |")
out.append("|---|---|---|---|---|---|")
for d in sorted(glob.glob('seeded/*/')):
    mp = d + 'meta.json'
    if not os.path.exists(mp):
        continue
    m = json.load(open(mp))
    det = '; '.join(f"`{k}` ({' '.join(v)})" for k, v in m.get('detected_by', {}).items()) or '—'
    hist = m.get('history', '')
    out.append(f"| {m['id']} | {m.get('property','')} | {m.get('summary','')} | {m.get('needs_to_manifest','')} | {'yes' if m.get('detected_by_target_property_check') else 'NO'}{(' — ' + hist) if hist else ''} | {det} |")
out.append("")
out.append("### B.4 Behaviour-preserving refactorings (independent sub-agents) as negative controls\n")
out.append("| patch | files touched | lines +/− | alarms at first measurement (violated + undecided keys) | alarms now | first-measurement keys |")
out.append("|---|---|---|---|---|---|")
first = json.load(open('benign/first_measurement.json')) if os.path.exists('benign/first_measurement.json') else {}
def rkey(d):
    m = re.search(r'R(\d+)', d); return int(m.group(1)) if m else 0
for d in sorted(glob.glob('benign/R*/'), key=rkey):
    bid = os.path.basename(d.rstrip('/'))
    patch = open(d + 'patch.diff', errors='replace').read()
    files = sorted(set(re.findall(r'^diff --git a/(\S+)', patch, re.M)))
    plus = len(re.findall(r'^\+(?!\+\+)', patch, re.M)); minus = len(re.findall(r'^-(?!--)', patch, re.M))
    st = json.load(open(d + 'status.json')) if os.path.exists(d + 'status.json') else {}
    now = len(st.get('false_alarms', [])) + len(st.get('undecided', []))
    f = first.get(bid)
    fm = f"{len(f['false_alarms'])} + {len(f['undecided'])}" if f else '—'
    keys = ', '.join(f"`{k}`" for k in (f['false_alarms'] + f['undecided'])) if f else ''
    out.append(f"| {bid} | {' '.join(files)} | +{plus}/−{minus} | {fm} | {now} | {keys} |")
txt = '\n'.join(out) + '\n'

s = open('DESIGN.md').read()
b, e = '<!-- BEGIN GENERATED -->', '<!-- END GENERATED -->'
if b in s:
    s = s[:s.index(b) + len(b)] + '\n' + txt + s[s.index(e):]
else:
    s += '\n---\n\n## Appendix B — generated tables\n\n' + b + '\n' + txt + e + '\n'
open('DESIGN.md', 'w').write(s)
print('tables regenerated')
