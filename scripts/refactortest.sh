#!/bin/bash
# refactortest.sh <id> <worktree-with-out-dir>: verify a behaviour-preserving refactoring (suite passes) and check that
# no property check raises an alarm on it. Keeps the patch under /verif/benign/<id>/ as a negative control.
ID=$1; WT=$2
export GOFLAGS=-mod=mod GOPROXY=off GOSUMDB=off GOTOOLCHAIN=local
unset GOWORK
[ -f $WT/out/patch.diff ] || { echo "no out/patch.diff"; exit 2; }
OUT=/verif/benign/$ID; mkdir -p $OUT
cp $WT/out/patch.diff $OUT/patch.diff; cp $WT/out/notes.md $OUT/notes.md 2>/dev/null
SCR=$(mktemp -d /tmp/rfchk.XXXXXX)
git -C /repo worktree add -q --detach $SCR/wt HEAD || exit 2
( cd $SCR/wt && git apply --whitespace=nowarn $OUT/patch.diff ) || { echo "PATCH DOES NOT APPLY"; }
( cd $SCR/wt && go build ./... ) || echo "BUILD FAILS"
echo "== suite with refactoring: $(/verif/scripts/suite.sh $SCR/wt | head -5 | tr '\n' ' ')"
git -C /repo worktree remove --force $SCR/wt; rm -rf $SCR
cd /verif
git -C /repo apply --whitespace=nowarn $OUT/patch.diff
./check all quick > $OUT/checks_output.txt 2>&1
git -C /repo checkout -- .
echo "== alarms on the refactoring (should be none):"
grep "^VIOLATION\|  where\|  what\|^UNDECIDED\|cannot analyse" $OUT/checks_output.txt | grep -v "^VIOLATION" | sort | uniq -c | sed 's/^/     /'
echo "     violations: $(grep -c '^VIOLATION' $OUT/checks_output.txt)  undecided: $(grep -c '^UNDECIDED' $OUT/checks_output.txt)"
git -C /repo status --short | head -3
