#!/usr/bin/env python3
"""seedmeta.py <seed-id> <property> <summary> <needs> [history]  — writes seeded/<id>/meta.json (detected_by is filled by seedmatrix.py)."""
import json, os, sys
sid, prop, summary, needs = sys.argv[1:5]
hist = sys.argv[5] if len(sys.argv) > 5 else None
d = f'/verif/seeded/{sid}/'
v = open(d + 'verify.txt').read() if os.path.exists(d + 'verify.txt') else ''
m = {'id': sid, 'property': prop, 'summary': summary, 'needs_to_manifest': needs,
     'origin': 'independent sub-agent given only the property text and a scratch worktree of /repo (from round 2 on the agents were additionally told which ideas earlier agents had used, to force a different mechanism)',
     'confirmed_by_me': {'how': 'scripts/seedtest.sh: fresh worktree of /repo HEAD; demo test run without the change (pass) and with the change (fail); unedited suite with the change (232/232 baseline tests pass); then patch applied to /repo, ./check all, git checkout', 'result': v.strip().splitlines()}}
if hist:
    m['history'] = hist
json.dump(m, open(d + 'meta.json', 'w'), indent=1, ensure_ascii=False)
