#!/usr/bin/env python3
"""mutflags.py <suite-results.jsonl> <out.json> — development aid: for every mutant the suite did not notice ('survived' in the
output of mutrun.py) re-creates the mutant in a scratch copy of /repo's HEAD, runs the analyser (-keys) and records the obligations
that turn relative to the unchanged tree."""
import json, os, subprocess, sys, shutil, tempfile, re
from concurrent.futures import ThreadPoolExecutor
os.chdir('/verif')
src, dst = sys.argv[1], sys.argv[2]
ROOT = tempfile.mkdtemp(prefix='mf.', dir='/tmp')
def sh(cmd):
    return subprocess.run(cmd, shell=True, capture_output=True, text=True)
sh(f'mkdir -p {ROOT}/base && cd /repo && git archive {os.environ.get("MUTBASE", "HEAD")} | tar -x -C {ROOT}/base')
def keys_of(repo):
    out = sh(f'./bin/colvet -repo {repo} -property all -keys 2>&1').stdout
    per, cur = {}, []
    for line in out.splitlines():
        m = re.match(r'KEY (violated|undecided) (.*)', line)
        if m:
            cur.append((m.group(1), m.group(2))); continue
        if 'cannot analyse' in line:
            cur.append(('undecided', 'cannot analyse')); continue
        m = re.match(r'(C\d+) tier=', line)
        if m:
            per[m.group(1)] = set(cur); cur = []
    return per
base = keys_of(f'{ROOT}/base')
muts = [json.loads(l) for l in open(src)]
muts = [m for m in muts if m['status'] == 'survived']
def run(m):
    w = f'{ROOT}/{m["id"]}'
    shutil.copytree(f'{ROOT}/base', w)
    p = f'{w}/{m["file"]}'
    b = open(p, 'rb').read()
    open(p, 'wb').write(b[:m['start']] + m['repl'].encode() + b[m['end']:])
    per = keys_of(w)
    shutil.rmtree(w, ignore_errors=True)
    new = {p: sorted(f'{s} {k}' for s, k in per.get(p, set()) - base.get(p, set())) for p in per}
    new = {p: v for p, v in new.items() if v}
    r = dict(m); r['flags'] = new
    r['verdict'] = 'analyser-failed' if not per else ('flagged' if new else 'silent')
    return r
with ThreadPoolExecutor(max_workers=8) as ex:
    res = list(ex.map(run, muts))
shutil.rmtree(ROOT, ignore_errors=True)
json.dump(res, open(dst, 'w'), indent=1, ensure_ascii=False)
from collections import Counter
print(Counter(r['verdict'] for r in res))
