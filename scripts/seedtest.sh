#!/bin/bash
# seedtest.sh <seed-id> <worktree-with-seed-dir> : confirm a seeded change independently and run all checks against it.
# 1. suite with the change (unedited tests) 2. demo fails with the change 3. demo passes without 4. which checks fire.
ID=$1; WT=$2
export GOFLAGS=-mod=mod GOPROXY=off GOSUMDB=off GOTOOLCHAIN=local
unset GOWORK
S=$WT/seed
[ -f $S/patch.diff ] || { echo "no patch.diff in $S"; exit 2; }
OUT=/verif/seeded/$ID; mkdir -p $OUT
cp $S/patch.diff $OUT/patch.diff
for f in $S/*; do case "$f" in */patch.diff) ;; *) cp -r "$f" $OUT/;; esac; done
SCR=$(mktemp -d /tmp/seedchk.XXXXXX)
export TMPDIR=$SCR/tmp; mkdir -p $TMPDIR
git -C /repo worktree add -q --detach $SCR/wt HEAD || exit 2
cd $SCR/wt
DEMO=$(ls $OUT/*_test.go 2>/dev/null | head -1)
PKGDIR=.
if [ -n "$DEMO" ] && head -5 "$DEMO" | grep -q "^package commit"; then PKGDIR=./commit; fi
TESTS=$(grep -ho "^func Test[A-Za-z0-9_]*" $OUT/*_test.go | sed 's/func //' | paste -sd'|')
echo "== demo tests: $TESTS (in $PKGDIR)"
# demo without the change
cp $OUT/*_test.go $PKGDIR/ 2>/dev/null
RACE=""; grep -qi "\-race" $OUT/notes.md 2>/dev/null && RACE="-race"
( cd $PKGDIR && go test -count=1 -vet=off $RACE -run "^($TESTS)\$" . > $SCR/demo_without.txt 2>&1 ); R0=$?
# apply the change
git apply --whitespace=nowarn $OUT/patch.diff || { echo "PATCH DOES NOT APPLY"; }
( cd $PKGDIR && go test -count=1 -vet=off $RACE -run "^($TESTS)\$" . > $SCR/demo_with.txt 2>&1 ); R1=$?
for f in $OUT/*_test.go; do rm -f $PKGDIR/$(basename $f); done
go build ./... > $SCR/build.txt 2>&1; RB=$?
SUITE=$(/verif/scripts/suite.sh $SCR/wt | head -3 | tr '\n' ' ')
echo "== build with change: exit $RB"
echo "== suite with change: $SUITE"
echo "== demo WITHOUT change: exit $R0 (want 0); WITH change: exit $R1 (want != 0)"
tail -5 $SCR/demo_with.txt | sed 's/^/     with> /'
# run the checks against /repo + patch
cd /verif
git -C /repo apply --whitespace=nowarn $OUT/patch.diff
./check all quick > $SCR/checks.txt 2>&1
git -C /repo checkout -- .
git -C /repo status --short | head -3
echo "== checks firing on the change:"
grep "^VIOLATION\|  where\|^UNDECIDED\|cannot analyse" $SCR/checks.txt | grep -v "^VIOLATION" | sort | uniq -c | sed 's/^/     /'
grep -c "^VIOLATION" $SCR/checks.txt | sed 's/^/     violations: /'
cp $SCR/checks.txt $OUT/checks_output.txt
{ echo "suite_with_change: $SUITE"; echo "demo_without_change_exit: $R0"; echo "demo_with_change_exit: $R1"; echo "race: $RACE"; } > $OUT/verify.txt
git -C /repo worktree remove --force $SCR/wt
rm -rf $SCR
