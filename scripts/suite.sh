#!/bin/bash
# Runs /repo's own test suite (guard off) and compares with the stable baseline list.
# usage: suite.sh [repo-dir]
REPO=${1:-/repo}
export GOFLAGS=-mod=mod GOPROXY=off GOSUMDB=off GOTOOLCHAIN=local
unset GOWORK
T=$(mktemp -d /tmp/suite.XXXXXX)
export TMPDIR=$T/tmp; mkdir -p $TMPDIR
(cd $REPO && go test -mod=mod -json -vet=off -count=1 -timeout 25m ./... > $T/out.json 2>$T/err.txt)
python3 - "$T/out.json" <<'PY'
import json,sys
base=set(json.load(open('/root/.vp/BASELINE.json'))['stable_pass'])
res={}
for l in open(sys.argv[1]):
    try: e=json.loads(l)
    except: continue
    if e.get('Test') and e.get('Action') in('pass','fail','skip'):
        res[e['Package']+'::'+e['Test']]=e['Action']
p=[t for t in base if res.get(t)=='pass']
f=[t for t in base if res.get(t)!='pass']
print(f"baseline {len(base)}: pass {len(p)} notpass {len(f)}")
for t in sorted(f): print("  NOT PASS:",t,res.get(t))
PY
rm -rf $T
