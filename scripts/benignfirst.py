#!/usr/bin/env python3
"""Records the first measurement (alarms of the rule set as it was when the refactoring arrived) of benign/<id> from its
checks_output.txt into benign/first_measurement.json; never overwrites an existing record."""
import json, re, sys, os
os.chdir('/verif')
p = 'benign/first_measurement.json'
res = json.load(open(p)) if os.path.exists(p) else {}
for bid in sys.argv[1:]:
    if bid in res:
        print(bid, 'already recorded'); continue
    out = open(f'benign/{bid}/checks_output.txt').read()
    keys = sorted(set(re.findall(r'^\s+where\s+\S+\s+\[(.*)\]', out, re.M)))
    und = sorted(set(re.findall(r'^UNDECIDED property=\S+ \[(.*?)\]', out, re.M)))
    res[bid] = {'false_alarms': keys, 'undecided': und}
    print(bid, len(keys), len(und))
json.dump(res, open(p, 'w'), indent=1)
