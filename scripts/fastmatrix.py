#!/usr/bin/env python3
"""fastmatrix.py [seeds|benign|all] [ids...] — development aid: runs the analyser against scratch copies of /repo's HEAD with each
seeded change / benign refactoring applied (in parallel, /repo itself is not touched) and reports seeds that the check of their
target property no longer catches and refactorings that raise alarms. The recorded matrices (meta.json, status.json) are still
written by seedmatrix.py / benignmatrix.py, which run the registered commands against /repo itself."""
import json, os, subprocess, sys, glob, re, shutil, tempfile
from concurrent.futures import ThreadPoolExecutor
os.chdir('/verif')
what = sys.argv[1] if len(sys.argv) > 1 else 'all'
only = set(sys.argv[2:])
ROOT = tempfile.mkdtemp(prefix='fm.', dir='/tmp')
def sh(cmd, **kw):
    return subprocess.run(cmd, shell=True, capture_output=True, text=True, **kw)
sh(f'mkdir -p {ROOT}/base && cd /repo && git archive HEAD | tar -x -C {ROOT}/base')
def keys_of(repo):
    out = sh(f'./bin/colvet -repo {repo} -property all -keys 2>&1').stdout
    per, cur = {}, []
    for line in out.splitlines():
        m = re.match(r'KEY (violated|undecided) (.*)', line)
        if m:
            cur.append((m.group(1), m.group(2))); continue
        if 'cannot analyse' in line:
            cur.append(('undecided', 'cannot analyse')); continue
        m = re.match(r'(C\d+) tier=', line)
        if m:
            per[m.group(1)] = set(cur); cur = []
    return per
base = keys_of(f'{ROOT}/base')
def run(kind, d):
    vid = os.path.basename(d.rstrip('/'))
    w = f'{ROOT}/{kind}-{vid}'
    shutil.copytree(f'{ROOT}/base', w)
    r = sh(f'cd {w} && git apply --whitespace=nowarn {d}patch.diff')
    if r.returncode != 0:
        shutil.rmtree(w); return (kind, vid, 'PATCH DOES NOT APPLY', [])
    per = keys_of(w)
    shutil.rmtree(w)
    new = {p: sorted(k for k in per.get(p, set()) - base.get(p, set())) for p in per}
    if kind == 'seed':
        meta = json.load(open(d + 'meta.json')) if os.path.exists(d + 'meta.json') else {}
        target = meta.get('property', vid[:3])
        hit = [k for s, k in new.get(target, []) if s == 'violated']
        anyhit = sorted({k for p in new for s, k in new[p] if s == 'violated'})
        return (kind, vid, 'CAUGHT' if hit else ('caught-elsewhere' if anyhit else 'MISSED'), hit or anyhit)
    alarms = sorted({f'{s} {k}' for p in new for s, k in new[p]})
    return (kind, vid, 'silent' if not alarms else f'{len(alarms)} ALARMS', alarms)
jobs = []
if what in ('seeds', 'all'):
    jobs += [('seed', d) for d in sorted(glob.glob('/verif/seeded/*/')) if not only or os.path.basename(d.rstrip('/')) in only]
if what in ('benign', 'all'):
    jobs += [('benign', d) for d in sorted(glob.glob('/verif/benign/R*/')) if not only or os.path.basename(d.rstrip('/')) in only]
with ThreadPoolExecutor(max_workers=8) as ex:
    res = list(ex.map(lambda j: run(*j), jobs))
shutil.rmtree(ROOT)
bad = 0
for kind, vid, verdict, keys in res:
    ok = verdict in ('CAUGHT', 'silent')
    bad += not ok
    if not ok or '-v' in only:
        print(f'{kind:6s} {vid:45s} {verdict}')
        for k in keys[:12]: print('        ', k)
print(f'{len(res)} variants, {bad} need attention')
