#!/bin/bash
# mkvar.sh <name> <patch> : scratch copy of /repo HEAD with a patch applied, at /tmp/s/<name> (development aid)
D=/tmp/s/$1
rm -rf "$D"; mkdir -p "$D"
(cd /repo && git archive HEAD) | tar -x -C "$D"
(cd "$D" && git apply --whitespace=nowarn "$2") || echo "PATCH FAILED"
echo "$D"
