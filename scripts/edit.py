#!/usr/bin/env python3
"""edit.py FILE <<< 'OLD\n===\nNEW'  — replace one exact occurrence, preserving the file's line endings."""
import sys
path = sys.argv[1]
spec = sys.stdin.read()
old, new = spec.split("\n===\n", 1)
if new.endswith("\n") and not old.endswith("\n"):
    new = new[:-1]
raw = open(path, newline='').read()
crlf = '\r\n' in raw
if crlf:
    old = old.replace('\n', '\r\n')
    new = new.replace('\n', '\r\n')
n = raw.count(old)
if n != 1:
    sys.exit(f"{path}: expected exactly one occurrence, found {n}")
open(path, 'w', newline='').write(raw.replace(old, new))
