#!/bin/bash
# bq.sh <Rn> [property]: quick false-alarm listing for a benign variant kept under /tmp/s/b<Rn>
cd /verif; ./bin/colvet -repo /tmp/s/b$1 -property ${2:-all} -keys 2>&1 | grep "^KEY\|cannot analyse" | sort | uniq -c | grep -v -f <(./bin/colvet -repo /tmp/s/base -property ${2:-all} -keys 2>&1 | grep "^KEY" | sort -u | sed 's/[][\\.*^$]/\\&/g')
