// Command colvet decides structural necessary conditions of the properties in
// /verif/properties.jsonl from the source of /repo. See /verif/DESIGN.md.
package main

import (
	"encoding/json"
	"flag"
	"fmt"
	"os"
	"path/filepath"
	"runtime/debug"
	"time"

	"verif/colvet"
)

func main() {
	property := flag.String("property", "", "property id (C01…C19) or 'all'")
	tier := flag.String("tier", "", "quick | thorough (default: $VERIF_TIER or quick)")
	repo := flag.String("repo", "/repo", "repository working tree to analyse")
	verif := flag.String("verif", "", "verification directory (default: directory above the binary)")
	replay := flag.String("replay", "", "replay file written by an earlier violation")
	dump := flag.String("dump", "", "debug: lockset | funcs | arms | units")
	filter := flag.String("filter", "", "debug: substring filter for -dump")
	keys := flag.Bool("keys", false, "print violated obligation keys only; write no evidence (used by the witness runner)")
	flag.Parse()

	if *verif == "" {
		exe, _ := os.Executable()
		*verif = filepath.Dir(filepath.Dir(exe))
		if _, err := os.Stat(filepath.Join(*verif, "properties.jsonl")); err != nil {
			*verif = "/verif"
		}
	}
	if *tier == "" {
		*tier = os.Getenv("VERIF_TIER")
	}
	if *tier != "thorough" {
		*tier = "quick"
	}
	onlyKey := ""
	if *replay != "" {
		b, err := os.ReadFile(*replay)
		if err != nil {
			fmt.Fprintln(os.Stderr, "colvet:", err)
			os.Exit(2)
		}
		var rf struct{ Property, Key string }
		if err := json.Unmarshal(b, &rf); err != nil {
			fmt.Fprintln(os.Stderr, "colvet:", err)
			os.Exit(2)
		}
		*property, onlyKey = rf.Property, rf.Key
	}

	defer func() {
		if r := recover(); r != nil {
			fmt.Fprintf(os.Stderr, "colvet: internal error (the checker cannot vouch for anything): %v\n%s", r, debug.Stack())
			os.Exit(2)
		}
	}()

	colvet.KeysOnly = *keys
	if *dump != "" {
		p, err := colvet.Load(*repo, "")
		if err != nil {
			fmt.Fprintln(os.Stderr, "colvet:", err)
			os.Exit(2)
		}
		colvet.Dump(p, *dump, *filter)
		return
	}
	if *property == "" {
		flag.Usage()
		os.Exit(2)
	}
	os.Exit(colvet.Main(*repo, *verif, *property, *tier, onlyKey, time.Now()))
}
