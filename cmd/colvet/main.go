package main

import (
	"fmt"

	_ "golang.org/x/tools/go/callgraph/cha"
	_ "golang.org/x/tools/go/callgraph/vta"
	_ "golang.org/x/tools/go/packages"
	_ "golang.org/x/tools/go/ssa/ssautil"
)

func main() { fmt.Println("ok") }
