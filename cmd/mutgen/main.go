// mutgen lists single-point mutants of the library's non-test sources (development aid for
// measuring the analyser, DESIGN.md §8 "Mutation sample"): one JSON object per line with the byte
// range to replace and the replacement. Nothing here decides a property.
package main

import (
	"encoding/json"
	"flag"
	"fmt"
	"go/ast"
	"go/parser"
	"go/token"
	"os"
	"path/filepath"
	"sort"
	"strings"
)

type mutant struct {
	ID    string `json:"id"`
	File  string `json:"file"`
	Line  int    `json:"line"`
	Func  string `json:"func"`
	Op    string `json:"op"`
	Start int    `json:"start"`
	End   int    `json:"end"`
	Orig  string `json:"orig"`
	Repl  string `json:"repl"`
}

func main() {
	repo := flag.String("repo", "/repo", "")
	set := flag.Int("set", 1, "operator set: 3 = lock weakened to shared / dropped per function and lock, adjacent simple statements swapped; 1 = relational/logical/negation/deletion/0-1/booleans, 2 = bit and shift operators, off-by-one literals, len()-1, compound assignment, dropped negation, swapped arguments, break for continue")
	prefix := flag.String("prefix", "M", "id prefix")
	flag.Parse()
	var files []string
	for _, d := range []string{"", "commit"} {
		m, _ := filepath.Glob(filepath.Join(*repo, d, "*.go"))
		for _, f := range m {
			if !strings.HasSuffix(f, "_test.go") {
				files = append(files, f)
			}
		}
	}
	sort.Strings(files)
	var out []mutant
	for _, f := range files {
		src, err := os.ReadFile(f)
		if err != nil {
			panic(err)
		}
		fset := token.NewFileSet()
		af, err := parser.ParseFile(fset, f, src, parser.ParseComments)
		if err != nil {
			panic(err)
		}
		// skip files excluded from the default build and generated ones
		rel, _ := filepath.Rel(*repo, f)
		head := string(src[:min(len(src), 400)])
		if strings.Contains(head, "//go:build") || strings.Contains(head, "DO NOT EDIT") {
			continue
		}
		off := func(p token.Pos) int { return fset.Position(p).Offset }
		add := func(fn string, op string, s, e token.Pos, repl string) {
			a, b := off(s), off(e)
			out = append(out, mutant{File: rel, Line: fset.Position(s).Line, Func: fn, Op: op, Start: a, End: b, Orig: string(src[a:b]), Repl: repl})
		}
		for _, d := range af.Decls {
			fd, ok := d.(*ast.FuncDecl)
			if !ok || fd.Body == nil {
				continue
			}
			name := fd.Name.Name
			if fd.Recv != nil && len(fd.Recv.List) > 0 {
				name = types(fd.Recv.List[0].Type) + "." + name
			}
			if *set == 3 {
				// lock operators, per function and lock expression: weaken every exclusive acquisition of
				// one lock to a shared one (with its releases), or drop the locking of that lock altogether
				type span struct{ s, e token.Pos }
				locks := map[string]map[string][]span{} // lock expr -> method -> call spans (selector identifier)
				var stmts = map[string][]span{}         // lock expr -> whole statements that lock/unlock it
				ast.Inspect(fd.Body, func(n ast.Node) bool {
					var call *ast.CallExpr
					var whole ast.Node
					switch x := n.(type) {
					case *ast.ExprStmt:
						if c, ok := x.X.(*ast.CallExpr); ok {
							call, whole = c, x
						}
					case *ast.DeferStmt:
						call, whole = x.Call, x
					}
					if call == nil {
						return true
					}
					sel, ok := call.Fun.(*ast.SelectorExpr)
					if !ok {
						return true
					}
					switch sel.Sel.Name {
					case "Lock", "Unlock", "RLock", "RUnlock":
						key := string(src[off(sel.X.Pos()):off(sel.X.End())])
						if locks[key] == nil {
							locks[key] = map[string][]span{}
						}
						locks[key][sel.Sel.Name] = append(locks[key][sel.Sel.Name], span{sel.Sel.Pos(), sel.Sel.End()})
						stmts[key] = append(stmts[key], span{whole.Pos(), whole.End()})
					}
					return true
				})
				var keys []string
				for k := range locks {
					keys = append(keys, k)
				}
				sort.Strings(keys)
				for _, k := range keys {
					m := locks[k]
					if len(m["Lock"]) > 0 && len(m["Unlock"]) > 0 {
						// multi-site mutant: encoded as one replacement from the first to the last site
						var sites []span
						sites = append(sites, m["Lock"]...)
						sites = append(sites, m["Unlock"]...)
						sort.Slice(sites, func(i, j int) bool { return sites[i].s < sites[j].s })
						a, b := sites[0].s, sites[len(sites)-1].e
						text := string(src[off(a):off(b)])
						var sb strings.Builder
						prev := off(a)
						for _, sp := range sites {
							sb.WriteString(string(src[prev:off(sp.s)]))
							sb.WriteString("R" + string(src[off(sp.s):off(sp.e)]))
							prev = off(sp.e)
						}
						_ = text
						add(name, "lock→rlock "+k, a, b, sb.String())
					}
					// drop the locking of this lock altogether
					sp := stmts[k]
					sort.Slice(sp, func(i, j int) bool { return sp[i].s < sp[j].s })
					a, b := sp[0].s, sp[len(sp)-1].e
					var sb strings.Builder
					prev := off(a)
					for _, x := range sp {
						sb.WriteString(string(src[prev:off(x.s)]))
						sb.WriteString("_ = 0")
						prev = off(x.e)
					}
					add(name, "unlocked "+k, a, b, sb.String())
				}
				// adjacent simple statements swapped
				ast.Inspect(fd.Body, func(n ast.Node) bool {
					blk, ok := n.(*ast.BlockStmt)
					if !ok {
						return true
					}
					simple := func(st ast.Stmt) bool {
						switch y := st.(type) {
						case *ast.ExprStmt:
							_, isCall := y.X.(*ast.CallExpr)
							return isCall
						case *ast.AssignStmt:
							return y.Tok != token.DEFINE
						case *ast.IncDecStmt:
							return true
						}
						return false
					}
					for i := 0; i+1 < len(blk.List); i++ {
						a, b := blk.List[i], blk.List[i+1]
						if simple(a) && simple(b) {
							ta, tb := string(src[off(a.Pos()):off(a.End())]), string(src[off(b.Pos()):off(b.End())])
							mid := string(src[off(a.End()):off(b.Pos())])
							if ta != tb {
								add(name, "swap-stmts", a.Pos(), b.End(), tb+mid+ta)
							}
						}
					}
					return true
				})
				continue
			}
			if *set == 2 {
				ast.Inspect(fd.Body, func(n ast.Node) bool {
					switch x := n.(type) {
					case *ast.BinaryExpr:
						alt := ""
						switch x.Op {
						case token.SHL:
							alt = ">>"
						case token.SHR:
							alt = "<<"
						case token.AND:
							alt = "|"
						case token.OR:
							alt = "&"
						case token.AND_NOT:
							alt = "&"
						case token.MUL:
							alt = "+"
						case token.QUO:
							alt = "*"
						case token.REM:
							alt = "/"
						}
						if alt != "" {
							add(name, "binop "+x.Op.String()+"→"+alt, x.OpPos, x.OpPos+token.Pos(len(x.Op.String())), alt)
						}
					case *ast.BasicLit:
						if x.Kind == token.INT && x.Value != "0" && x.Value != "1" && len(x.Value) < 6 && !strings.HasPrefix(x.Value, "0") {
							var v int
							fmt.Sscanf(x.Value, "%d", &v)
							add(name, "const n→n+1", x.Pos(), x.End(), fmt.Sprint(v+1))
							add(name, "const n→n-1", x.Pos(), x.End(), fmt.Sprint(v-1))
						}
					case *ast.CallExpr:
						if id, ok := x.Fun.(*ast.Ident); ok && id.Name == "len" && len(x.Args) == 1 {
							a, b := off(x.Pos()), off(x.End())
							add(name, "len→len-1", x.Pos(), x.End(), "("+string(src[a:b])+"-1)")
						} else if len(x.Args) >= 2 && !x.Ellipsis.IsValid() {
							// swap the first two arguments that are spelled differently
							a0, a1 := x.Args[0], x.Args[1]
							s0, s1 := string(src[off(a0.Pos()):off(a0.End())]), string(src[off(a1.Pos()):off(a1.End())])
							if s0 != s1 {
								add(name, "swap-args", a0.Pos(), a1.End(), s1+string(src[off(a0.End()):off(a1.Pos())])+s0)
							}
						}
					case *ast.AssignStmt:
						switch x.Tok {
						case token.ADD_ASSIGN, token.SUB_ASSIGN, token.OR_ASSIGN, token.AND_ASSIGN, token.AND_NOT_ASSIGN:
							add(name, "compound→plain "+x.Tok.String(), x.TokPos, x.TokPos+token.Pos(len(x.Tok.String())), "=")
						}
					case *ast.UnaryExpr:
						if x.Op == token.NOT {
							add(name, "drop-not", x.OpPos, x.OpPos+1, "")
						}
					case *ast.BranchStmt:
						if x.Label == nil && x.Tok == token.BREAK {
							add(name, "break→continue", x.Pos(), x.End(), "continue")
						}
					case *ast.IncDecStmt:
						if x.Tok == token.INC {
							add(name, "inc→dec", x.TokPos, x.TokPos+2, "--")
						}
					case *ast.ReturnStmt:
						// an early return inside a nested block, without results: removed
						if len(x.Results) == 0 {
							add(name, "delete-return", x.Pos(), x.End(), "_ = 0")
						}
					}
					return true
				})
				continue
			}
			ast.Inspect(fd.Body, func(n ast.Node) bool {
				switch x := n.(type) {
				case *ast.BinaryExpr:
					var alts []string
					switch x.Op {
					case token.LSS:
						alts = []string{"<="}
					case token.LEQ:
						alts = []string{"<"}
					case token.GTR:
						alts = []string{">="}
					case token.GEQ:
						alts = []string{">"}
					case token.EQL:
						alts = []string{"!="}
					case token.NEQ:
						alts = []string{"=="}
					case token.LAND:
						alts = []string{"||"}
					case token.LOR:
						alts = []string{"&&"}
					case token.ADD:
						if !isString(x) {
							alts = []string{"-"}
						}
					case token.SUB:
						alts = []string{"+"}
					}
					for _, a := range alts {
						add(name, "binop "+x.Op.String()+"→"+a, x.OpPos, x.OpPos+token.Pos(len(x.Op.String())), a)
					}
				case *ast.IfStmt:
					if x.Cond != nil {
						a, b := off(x.Cond.Pos()), off(x.Cond.End())
						add(name, "negate-if", x.Cond.Pos(), x.Cond.End(), "!("+string(src[a:b])+")")
					}
				case *ast.BranchStmt:
					if x.Label == nil {
						switch x.Tok {
						case token.CONTINUE:
							add(name, "continue→break", x.Pos(), x.End(), "break")
						case token.BREAK:
							// only inside loops is this meaningful; inside switch it changes nothing much
						}
					}
				case *ast.BlockStmt:
					for _, st := range x.List {
						switch y := st.(type) {
						case *ast.ExprStmt:
							if _, isCall := y.X.(*ast.CallExpr); isCall {
								add(name, "delete-call", y.Pos(), y.End(), "_ = 0")
							}
						case *ast.AssignStmt:
							if y.Tok == token.ASSIGN || (y.Tok != token.DEFINE && y.Tok != token.ASSIGN) {
								pure := true
								for _, r := range y.Rhs {
									ast.Inspect(r, func(m ast.Node) bool {
										if _, c := m.(*ast.CallExpr); c {
											pure = false
										}
										if u, c := m.(*ast.UnaryExpr); c && u.Op == token.ARROW {
											pure = false
										}
										return true
									})
								}
								if pure {
									add(name, "delete-assign", y.Pos(), y.End(), "_ = 0")
								}
							}
						case *ast.IncDecStmt:
							add(name, "delete-incdec", y.Pos(), y.End(), "_ = 0")
						case *ast.DeferStmt:
							add(name, "delete-defer", y.Pos(), y.End(), "_ = 0")
						}
					}
				case *ast.BasicLit:
					if x.Kind == token.INT {
						switch x.Value {
						case "0":
							add(name, "const 0→1", x.Pos(), x.End(), "1")
						case "1":
							add(name, "const 1→0", x.Pos(), x.End(), "0")
						}
					}
				case *ast.Ident:
					if x.Name == "true" {
						add(name, "true→false", x.Pos(), x.End(), "false")
					}
					if x.Name == "false" {
						add(name, "false→true", x.Pos(), x.End(), "true")
					}
				}
				return true
			})
		}
	}
	for i := range out {
		out[i].ID = fmt.Sprintf("%s%04d", *prefix, i)
	}
	enc := json.NewEncoder(os.Stdout)
	for _, m := range out {
		enc.Encode(m)
	}
	fmt.Fprintln(os.Stderr, len(out), "mutants in", len(files), "files")
}

func types(e ast.Expr) string {
	switch x := e.(type) {
	case *ast.StarExpr:
		return types(x.X)
	case *ast.Ident:
		return x.Name
	case *ast.IndexExpr:
		return types(x.X)
	case *ast.IndexListExpr:
		return types(x.X)
	}
	return "?"
}

func isString(b *ast.BinaryExpr) bool {
	for _, e := range []ast.Expr{b.X, b.Y} {
		if l, ok := e.(*ast.BasicLit); ok && l.Kind == token.STRING {
			return true
		}
	}
	return false
}
