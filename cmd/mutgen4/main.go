// mutgen4 lists "wrong name" mutants of the library's non-test sources (development aid for
// measuring the analyser, DESIGN.md §8 "Mutation sample", fourth operator set): a read of a local
// variable or parameter replaced by another one of identical type that is in scope, a field
// selection replaced by a sibling field of identical type, a typed constant replaced by another
// constant of the same named type. Type information comes from go/packages. Nothing here decides a
// property.
package main

import (
	"encoding/json"
	"flag"
	"fmt"
	"go/ast"
	"go/token"
	"go/types"
	"hash/fnv"
	"os"
	"path/filepath"
	"sort"
	"strings"

	"golang.org/x/tools/go/packages"
)

type mutant struct {
	ID    string `json:"id"`
	File  string `json:"file"`
	Line  int    `json:"line"`
	Func  string `json:"func"`
	Op    string `json:"op"`
	Start int    `json:"start"`
	End   int    `json:"end"`
	Orig  string `json:"orig"`
	Repl  string `json:"repl"`
}

func main() {
	repo := flag.String("repo", "/repo", "")
	prefix := flag.String("prefix", "W", "id prefix")
	keep := flag.Int("keep", 4, "keep one mutant in N (by hash of file, offset and replacement)")
	set := flag.Int("set", 4, "4 = wrong name (local, field, constant); 5 = wrong sibling: a method call replaced by another method of the same receiver with an identical signature, a package function by another function of that package with an identical signature")
	flag.Parse()
	cfg := &packages.Config{Mode: packages.LoadSyntax, Dir: *repo}
	pkgs, err := packages.Load(cfg, ".", "./commit")
	if err != nil || packages.PrintErrors(pkgs) > 0 {
		fmt.Fprintln(os.Stderr, "load failed", err)
		os.Exit(2)
	}
	var out []mutant
	for _, pkg := range pkgs {
		info := pkg.TypesInfo
		for i, af := range pkg.Syntax {
			fname := pkg.CompiledGoFiles[i]
			src, _ := os.ReadFile(fname)
			head := string(src[:min(len(src), 400)])
			if strings.Contains(head, "//go:build") || strings.Contains(head, "DO NOT EDIT") || strings.HasSuffix(fname, "_test.go") {
				continue
			}
			rel, _ := filepath.Rel(*repo, fname)
			off := func(p token.Pos) int { return pkg.Fset.Position(p).Offset }
			for _, d := range af.Decls {
				fd, ok := d.(*ast.FuncDecl)
				if !ok || fd.Body == nil {
					continue
				}
				name := fd.Name.Name
				if fd.Recv != nil && len(fd.Recv.List) > 0 {
					name = types.ExprString(fd.Recv.List[0].Type) + "." + name
				}
				add := func(op string, id *ast.Ident, repl string) {
					a, b := off(id.Pos()), off(id.End())
					out = append(out, mutant{File: rel, Line: pkg.Fset.Position(id.Pos()).Line, Func: name, Op: op, Start: a, End: b, Orig: string(src[a:b]), Repl: repl})
				}
				// identifiers that are written (left-hand sides, &x, x++, range keys): not mutated
				written := map[*ast.Ident]bool{}
				selField := map[*ast.Ident]*ast.SelectorExpr{}
				ast.Inspect(fd.Body, func(n ast.Node) bool {
					switch x := n.(type) {
					case *ast.AssignStmt:
						for _, l := range x.Lhs {
							if id, ok := l.(*ast.Ident); ok {
								written[id] = true
							}
						}
					case *ast.IncDecStmt:
						if id, ok := x.X.(*ast.Ident); ok {
							written[id] = true
						}
					case *ast.RangeStmt:
						if id, ok := x.Key.(*ast.Ident); ok {
							written[id] = true
						}
						if id, ok := x.Value.(*ast.Ident); ok {
							written[id] = true
						}
					case *ast.UnaryExpr:
						if id, ok := x.X.(*ast.Ident); ok && x.Op == token.AND {
							written[id] = true
						}
					case *ast.SelectorExpr:
						selField[x.Sel] = x
					case *ast.KeyValueExpr:
						if id, ok := x.Key.(*ast.Ident); ok {
							written[id] = true // struct literal keys
						}
					}
					return true
				})
				if *set == 7 {
					// a slice bound dropped; the operands of a non-commutative operator swapped
					ast.Inspect(fd.Body, func(n ast.Node) bool {
						switch x := n.(type) {
						case *ast.SliceExpr:
							if x.Slice3 {
								return true
							}
							a, b := off(x.Pos()), off(x.End())
							base := string(src[off(x.X.Pos()):off(x.X.End())])
							line := pkg.Fset.Position(x.Pos()).Line
							if x.Low != nil && x.High != nil {
								lo := string(src[off(x.Low.Pos()):off(x.Low.End())])
								hi := string(src[off(x.High.Pos()):off(x.High.End())])
								out = append(out, mutant{File: rel, Line: line, Func: name, Op: "slice drop-high", Start: a, End: b, Orig: string(src[a:b]), Repl: base + "[" + lo + ":]"})
								out = append(out, mutant{File: rel, Line: line, Func: name, Op: "slice drop-low", Start: a, End: b, Orig: string(src[a:b]), Repl: base + "[:" + hi + "]"})
							}
						case *ast.BinaryExpr:
							switch x.Op {
							case token.SUB, token.QUO, token.REM, token.SHL, token.SHR, token.AND_NOT, token.LSS, token.GTR, token.LEQ, token.GEQ:
								tx, okx := info.Types[x.X]
								ty, oky := info.Types[x.Y]
								if !okx || !oky || tx.Type == nil || ty.Type == nil || !types.Identical(tx.Type, ty.Type) || tx.Value != nil && ty.Value != nil {
									return true
								}
								a, b := off(x.Pos()), off(x.End())
								l := string(src[off(x.X.Pos()):off(x.X.End())])
								rr := string(src[off(x.Y.Pos()):off(x.Y.End())])
								out = append(out, mutant{File: rel, Line: pkg.Fset.Position(x.Pos()).Line, Func: name, Op: "swap-operands " + x.Op.String(), Start: a, End: b, Orig: string(src[a:b]), Repl: rr + " " + x.Op.String() + " " + l})
							}
						}
						return true
					})
					continue
				}
				if *set == 6 {
					// a conjunct or disjunct dropped; an error result replaced by nil
					ast.Inspect(fd.Body, func(n ast.Node) bool {
						switch x := n.(type) {
						case *ast.BinaryExpr:
							if x.Op == token.LAND || x.Op == token.LOR {
								a, b := off(x.Pos()), off(x.End())
								l := string(src[off(x.X.Pos()):off(x.X.End())])
								rr := string(src[off(x.Y.Pos()):off(x.Y.End())])
								pos := pkg.Fset.Position(x.Pos()).Line
								out = append(out, mutant{File: rel, Line: pos, Func: name, Op: "drop-right " + x.Op.String(), Start: a, End: b, Orig: string(src[a:b]), Repl: l})
								out = append(out, mutant{File: rel, Line: pos, Func: name, Op: "drop-left " + x.Op.String(), Start: a, End: b, Orig: string(src[a:b]), Repl: rr})
							}
						case *ast.ReturnStmt:
							for _, res := range x.Results {
								id, ok := res.(*ast.Ident)
								if !ok || id.Name == "nil" {
									continue
								}
								if tv, ok := info.Types[res]; ok && tv.Type != nil && tv.Type.String() == "error" {
									add("return "+id.Name+"→nil", id, "nil")
								}
							}
						}
						return true
					})
					continue
				}
				if *set == 5 {
					ast.Inspect(fd.Body, func(n ast.Node) bool {
						call, ok := n.(*ast.CallExpr)
						if !ok {
							return true
						}
						se, ok := call.Fun.(*ast.SelectorExpr)
						if !ok {
							return true
						}
						fobj, ok := info.Uses[se.Sel].(*types.Func)
						if !ok {
							return true
						}
						sig := fobj.Type().(*types.Signature)
						same := func(o *types.Func) bool {
							s2 := o.Type().(*types.Signature)
							return types.Identical(types.NewSignatureType(nil, nil, nil, sig.Params(), sig.Results(), sig.Variadic()), types.NewSignatureType(nil, nil, nil, s2.Params(), s2.Results(), s2.Variadic()))
						}
						var sibs []*types.Func
						if sel := info.Selections[se]; sel != nil && sel.Kind() == types.MethodVal {
							ms := types.NewMethodSet(sel.Recv())
							if _, isPtr := sel.Recv().(*types.Pointer); !isPtr {
								if _, isIface := sel.Recv().Underlying().(*types.Interface); !isIface {
									ms = types.NewMethodSet(types.NewPointer(sel.Recv()))
								}
							}
							for i := 0; i < ms.Len(); i++ {
								if o, ok := ms.At(i).Obj().(*types.Func); ok && o != fobj && o.Name() != fobj.Name() && (o.Exported() || o.Pkg() == pkg.Types) && same(o) {
									sibs = append(sibs, o)
								}
							}
						} else if sig.Recv() == nil && fobj.Pkg() != nil {
							sc := fobj.Pkg().Scope()
							for _, nm := range sc.Names() {
								if o, ok := sc.Lookup(nm).(*types.Func); ok && o != fobj && (o.Exported() || o.Pkg() == pkg.Types) && same(o) {
									sibs = append(sibs, o)
								}
							}
						}
						if len(sibs) == 0 {
							return true
						}
						sort.Slice(sibs, func(i, j int) bool { return sibs[i].Name() < sibs[j].Name() })
						// the sibling that follows in name order (cyclic)
						pick := sibs[0]
						for _, o := range sibs {
							if o.Name() > fobj.Name() {
								pick = o
								break
							}
						}
						add("call "+fobj.Name()+"→"+pick.Name(), se.Sel, pick.Name())
						return true
					})
					continue
				}
				ast.Inspect(fd.Body, func(n ast.Node) bool {
					id, ok := n.(*ast.Ident)
					if !ok || written[id] || id.Name == "_" {
						return true
					}
					obj := info.Uses[id]
					if obj == nil {
						return true
					}
					switch o := obj.(type) {
					case *types.Var:
						if o.IsField() {
							se := selField[id]
							if se == nil {
								return true
							}
							sel := info.Selections[se]
							if sel == nil || sel.Kind() != types.FieldVal || len(sel.Index()) != 1 {
								return true
							}
							recv := sel.Recv()
							if p, ok := recv.Underlying().(*types.Pointer); ok {
								recv = p.Elem()
							}
							st, ok := recv.Underlying().(*types.Struct)
							if !ok {
								return true
							}
							// next sibling field of identical type (cyclic)
							n := st.NumFields()
							at := sel.Index()[0]
							for k := 1; k < n; k++ {
								f := st.Field((at + k) % n)
								if f.Name() != "_" && types.Identical(f.Type(), o.Type()) && (f.Exported() || f.Pkg() == pkg.Types) {
									add("field "+o.Name()+"→"+f.Name(), id, f.Name())
									break
								}
							}
							return true
						}
						if o.Pkg() != pkg.Types || o.Parent() == pkg.Types.Scope() {
							return true // package-level variables: left alone
						}
						// another local of identical type visible at this position (innermost scope outwards)
						sc := pkg.Types.Scope().Innermost(id.Pos())
						var cands []*types.Var
						for s := sc; s != nil && s != pkg.Types.Scope(); s = s.Parent() {
							for _, nm := range s.Names() {
								v, ok := s.Lookup(nm).(*types.Var)
								if !ok || v == o || v.Name() == "_" || v.Pos() >= id.Pos() && s != sc.Parent() && !isParamScope(s, fd, pkg) {
									continue
								}
								if v.Pos() < id.Pos() && types.Identical(v.Type(), o.Type()) {
									// shadowing: the name must resolve to v at this position
									if _, found := sc.LookupParent(nm, id.Pos()); found == v {
										cands = append(cands, v)
									}
								}
							}
						}
						if len(cands) > 0 {
							sort.Slice(cands, func(i, j int) bool { return cands[i].Pos() < cands[j].Pos() })
							// the candidate declared closest before the use
							c := cands[len(cands)-1]
							add("local "+o.Name()+"→"+c.Name(), id, c.Name())
						}
					case *types.Const:
						nt, ok := o.Type().(*types.Named)
						if !ok || o.Pkg() == nil {
							return true
						}
						if o.Pkg() != pkg.Types && selField[id] == nil {
							return true
						}
						// the next constant of the same named type in its package, by declaration order
						sc := o.Pkg().Scope()
						var cs []*types.Const
						for _, nm := range sc.Names() {
							if c, ok := sc.Lookup(nm).(*types.Const); ok && types.Identical(c.Type(), nt) && (c.Exported() || c.Pkg() == pkg.Types) {
								cs = append(cs, c)
							}
						}
						sort.Slice(cs, func(i, j int) bool { return cs[i].Pos() < cs[j].Pos() })
						for i, c := range cs {
							if c == o && len(cs) > 1 {
								nx := cs[(i+1)%len(cs)]
								add("const "+o.Name()+"→"+nx.Name(), id, nx.Name())
							}
						}
					}
					return true
				})
			}
		}
	}
	sort.SliceStable(out, func(i, j int) bool {
		if out[i].File != out[j].File {
			return out[i].File < out[j].File
		}
		return out[i].Start < out[j].Start
	})
	n := 0
	for _, m := range out {
		h := fnv.New32a()
		fmt.Fprintf(h, "%s:%d:%s", m.File, m.Start, m.Repl)
		if *keep > 1 && int(h.Sum32()%uint32(*keep)) != 0 {
			continue
		}
		m.ID = fmt.Sprintf("%s%04d", *prefix, n)
		n++
		b, _ := json.Marshal(m)
		fmt.Println(string(b))
	}
	fmt.Fprintln(os.Stderr, len(out), "candidates,", n, "kept")
}

func isParamScope(s *types.Scope, fd *ast.FuncDecl, pkg *packages.Package) bool { return false }
